#!/venv/bin/python
"""Triage sweep (not a check): functions with reverse rules for two array arguments, on broadcasting / stacked shape
pairs; gradient of sum(w * f(a, b)) against central finite differences, both argnums.  Exceptions ignored."""
import sys, warnings
import numpy as onp
sys.path.insert(0, "/verif")
import autograd.numpy as np
from autograd import grad
from sa.world import World
from sa.analyses.common import is_numpy_callable, base_name
warnings.simplefilter("ignore")
w = World("/repo")
names = sorted({base_name(e.prim) for e in w.table.entries if e.mode == "vjp" and e.spec == "maker" and is_numpy_callable(e.prim) and e.argnum == 1})
rs = onp.random.RandomState(0)
mk = lambda s: rs.rand(*s) + 0.5 if s != () else onp.float64(rs.rand() + 0.5)
pairs = [((3,), (3,)), ((3,), (1,)), ((), (3,)), ((2, 3), (3,)), ((3,), (2, 3)), ((3, 3), (2, 3, 3)), ((2, 3, 3), (3, 3)), ((1, 3), (2, 1)), ((2, 1, 3), (4, 3)), ((2, 3), (3, 4)), ((4, 2, 3), (3, 2)), ((3,), (3, 2)), ((2, 3, 4), (4,)), ((2, 2), (3, 3))]
found = []
for nm in names:
    f = np
    for part in nm.split("."):
        f = getattr(f, part, None)
        if f is None:
            break
    if f is None:
        continue
    for sa, sb in pairs:
        a, b = mk(sa), mk(sb)
        try:
            out = f(a, b)
            if isinstance(out, tuple):
                continue
            wts = rs.rand(*onp.shape(out))
        except Exception:
            continue
        fun = lambda a_, b_: np.sum(wts * f(a_, b_))
        for k in (0, 1):
            try:
                g = grad(fun, k)(a, b)
                x = (a, b)[k]
                if onp.shape(g) != onp.shape(x):
                    found.append((nm, sa, sb, k, "SHAPE", onp.shape(g))); continue
                fd = onp.zeros(onp.shape(x))
                for idx in onp.ndindex(*onp.shape(x)):
                    d = onp.zeros(onp.shape(x)); d[idx] = 1e-6
                    args_p = [a, b]; args_m = [a, b]; args_p[k] = x + d; args_m[k] = x - d
                    fd[idx] = (fun(*args_p) - fun(*args_m)) / 2e-6
                err = onp.max(onp.abs(g - fd)) if onp.size(fd) else 0.0
                if not err < 1e-4:
                    found.append((nm, sa, sb, k, "VALUE", float(err)))
            except Exception:
                pass
for r in found:
    print(r)
print(len(names), "functions swept;", len(found), "mismatches")
