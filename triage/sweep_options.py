#!/venv/bin/python
"""Triage sweep (not a check): every function with a reverse rule, called with the options its NumPy signature names
(axis in several spellings, keepdims, k / offset, ...) on two argument shapes; the gradient of sum(w * f(x)) is compared
with central finite differences and its shape with the argument's.  Exceptions are ignored (loud)."""
import inspect, itertools, sys, warnings
import numpy as onp
sys.path.insert(0, "/verif")
import autograd.numpy as np
from autograd import grad
from sa.world import World
from sa.analyses.common import is_numpy_callable, base_name

warnings.simplefilter("ignore")
w = World("/repo")
names = sorted({base_name(e.prim) for e in w.table.entries if e.mode == "vjp" and e.spec == "maker" and is_numpy_callable(e.prim) and e.argnum == 0})
OPT = {"axis": [0, -1, 1, -2, (0, 1), (-1, 0), None], "keepdims": [True], "k": [1, -1], "offset": [1, -1], "axis1": [-1], "axis2": [-2], "axes": [(1, 0), (-1, -2)], "ddof": [1], "shift": [1], "repeats": [2], "reps": [2, (2, 1)], "n": [1], "ord": [2, "fro"], "kth": [1], "indices": [[0, 1, 0]], "newshape": [(-1,)], "shape": [(-1,)], "pad_width": [1], "mode": ["constant"], "source": [0], "destination": [-1], "start": [0], "num": [3], "decimals": [1], "a_min": [0.2], "a_max": [0.8]}
rs = onp.random.RandomState(0)
found = []
for nm in names:
    f = np
    for part in nm.split("."):
        f = getattr(f, part, None)
        if f is None:
            break
    if f is None:
        continue
    try:
        raw = getattr(f, "fun", f)
        params = [p for p in inspect.signature(raw).parameters if p in OPT]
    except Exception:
        params = []
    combos = [{}]
    for p in params:
        combos += [{p: v} for v in OPT[p]]
    if "axis" in params and "keepdims" in params:
        combos += [{"axis": a, "keepdims": True} for a in OPT["axis"]]
    required = {"repeats", "reps", "kth", "indices", "newshape", "pad_width", "shift", "source", "destination", "axis1", "axis2", "a_min", "a_max"}
    for shape in [(3, 4), (2, 3, 3)]:
        x = rs.rand(*shape) + 0.5
        for kw in combos:
            kw = dict(kw)
            try:
                sig = inspect.signature(getattr(f, "fun", f)).parameters
                for r_ in required:
                    if r_ in sig and r_ not in kw and sig[r_].default is inspect._empty:
                        kw[r_] = OPT[r_][0]
                out = f(x, **kw)
                if isinstance(out, tuple) or not onp.issubdtype(onp.asarray(out).dtype, onp.floating):
                    continue
                wts = rs.rand(*onp.shape(out))
                fun = lambda x_: np.sum(wts * f(x_, **kw))
                g = grad(fun)(x)
                if onp.shape(g) != shape:
                    found.append((nm, shape, kw, "SHAPE", onp.shape(g)))
                    continue
                fd = onp.zeros(shape)
                for idx in onp.ndindex(*shape):
                    d = onp.zeros(shape); d[idx] = 1e-6
                    fd[idx] = (fun(x + d) - fun(x - d)) / 2e-6
                err = onp.max(onp.abs(g - fd))
                if not err < 1e-4:
                    found.append((nm, shape, kw, "VALUE", float(err)))
            except Exception:
                pass
for r in found:
    print(r)
print(len(names), "functions swept;", len(found), "mismatches")
