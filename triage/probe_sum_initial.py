#!/venv/bin/python
"""Triage probe (not a check): forward-mode np.sum with initial=.
A1.lin (affine-options clause) reported `defjvp(anp.sum, "same")`: np.sum(x, initial=c) = c + sum(x) is affine in x, and the
"same" rule re-applies np.sum to the tangent with the caller's initial.  Before fix a357328 this prints a tangent of 8.0
for np.sum(x, initial=5.) along ones(3) (true: 3.0); reverse mode raises TypeError for initial= (loud)."""
import numpy as onp

import autograd.numpy as np
from autograd import make_jvp

x = onp.arange(6.0).reshape(2, 3) + 1
v = onp.ones((2, 3))
ok = True
for f in (
    lambda x: np.sum(x, initial=5.0),
    lambda x: np.sum(x**2, axis=0, initial=5.0),
    lambda x: np.sum(x**2, 1, None, None, True, 2.0),
    lambda x: np.sum(x * x, axis=1, where=onp.array([True, False, True])),
):
    _, t = make_jvp(f)(x)(v)
    fd = (f(x + 1e-6 * v) - f(x - 1e-6 * v)) / 2e-6
    print("jvp", onp.round(t, 4), "finite differences", onp.round(fd, 4))
    ok = ok and onp.allclose(t, fd, atol=1e-4)
print("OK" if ok else "DEFECT: initial= is added to the tangent")
