#!/venv/bin/python
"""Triage probe (not a check): gradients of np.linalg.solve when the batch dimensions of a and b broadcast.
A3.vjp (linalg.solve declared a broadcasting primitive: gufunc (m,m),(m,n)->(m,n)) reported both rules of grad_solve:
no unbroadcast aimed at the differentiated argument.  Before the fix the gradient w.r.t. a (3, 3) against b (2, 3, 3)
had shape (2, 3, 3, 3), and the gradient w.r.t. b (3, 3) against a (2, 3, 3) had shape (2, 3, 3)."""
import numpy as onp

import autograd.numpy as np
from autograd import grad

rs = onp.random.RandomState(0)
f = lambda a, b: np.sum(np.sin(np.linalg.solve(a, b)))
ok = True
for sa, sb in [((3, 3), (2, 3, 3)), ((2, 3, 3), (3, 3)), ((1, 3, 3), (2, 3, 2)), ((3, 3), (3,)), ((3, 3), (3, 2))]:
    a, b = rs.randn(*sa) + 3 * onp.eye(3), rs.randn(*sb)
    for k in (0, 1):
        g = grad(f, k)(a, b)
        print("a", sa, "b", sb, "argnum", k, "gradient shape", g.shape)
        ok = ok and g.shape == (a, b)[k].shape
print("OK" if ok else "DEFECT: a gradient has the broadcast shape, not its argument's")
