import warnings; warnings.simplefilter("ignore")
import numpy as onp, autograd.numpy as np
from autograd import make_vjp
r=onp.random.RandomState(0)
def num_vjp(f, x, g, eps=1e-6):
    out=onp.zeros(x.shape, dtype=complex)
    it=onp.nditer(x, flags=['multi_index'])
    for _ in it:
        i=it.multi_index
        for unit in ([1.0] if not onp.iscomplexobj(x) else [1.0, 1j]):
            d=onp.zeros_like(x); d[i]=eps*unit
            df=(f(x+d)-f(x-d))/(2*eps)
            # autograd convention: vjp = conj(J_R^T conj g)  -> component along unit u: Re(sum(g*df)) for u=1 ; for u=1j: contributes -1j*...  
            val=onp.sum(onp.real(g*df)) if not onp.iscomplexobj(df) or True else 0
            val=onp.real(onp.sum(g*df))
            out[i]+= val if unit==1.0 else -1j*onp.real(onp.sum(g*df))*(-1)  # d/d(imag): conj convention
    return out if onp.iscomplexobj(x) else onp.real(out)
def check(name, f, x):
    try:
        vjp,val=make_vjp(f)(x)
        g=r.randn(*onp.shape(val)) + (1j*r.randn(*onp.shape(val)) if onp.iscomplexobj(val) else 0)
        a=vjp(g); b=num_vjp(lambda x: onp.asarray(f(x)), x, g)
        ok = onp.shape(a)==onp.shape(b) and onp.allclose(a,b,atol=1e-4)
        print(f"{name}: {'OK' if ok else 'WRONG'}")
    except Exception as e:
        print(f"{name}: raises {type(e).__name__}: {str(e)[:70]}")
x=r.randn(8); X=r.randn(4,6)
for norm in (None,"backward","ortho","forward"):
    check(f"rfft norm={norm}", lambda x: np.fft.rfft(x, norm=norm), x)
    check(f"rfft2 norm={norm}", lambda x: np.fft.rfft2(x, norm=norm), X)
    check(f"rfftn norm={norm}", lambda x: np.fft.rfftn(x, norm=norm), X)
    check(f"fft norm={norm}", lambda x: np.fft.fft(x, norm=norm), x)
for norm in (None,"backward","ortho","forward"):
    c=r.randn(5)+1j*r.randn(5); c[0]=c[0].real; c[-1]=c[-1].real
    # irfft ignores imag of first/last: use real-input path: compose with real parameter
    check(f"irfft(rfft) norm={norm}", lambda x: np.fft.irfft(np.fft.rfft(x), norm=norm), x)
    check(f"irfft2(rfft2) norm={norm}", lambda x: np.fft.irfft2(np.fft.rfft2(x), norm=norm), X)
check("rfft n=12 positional", lambda x: np.fft.rfft(x, 12), x)
check("rfft n=12 keyword", lambda x: np.fft.rfft(x, n=12), x)
check("rfft n=6 keyword", lambda x: np.fft.rfft(x, n=6), x)
check("irfft(rfft) n=12 keyword", lambda x: np.fft.irfft(np.fft.rfft(x), n=12), x)
