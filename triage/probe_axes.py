"""Triage probes for A7 / A2 / A6 reports (not part of any check)."""
import warnings; warnings.simplefilter("ignore")
import numpy as onp
import autograd.numpy as np
from autograd import make_vjp, make_jvp, jacobian
r=onp.random.RandomState(0)
def num_vjp(f, x, g, eps=1e-6):
    out=onp.zeros_like(x)
    it=onp.nditer(x, flags=['multi_index'])
    for _ in it:
        i=it.multi_index
        d=onp.zeros_like(x); d[i]=eps
        out[i]=onp.sum(onp.real(g*(f(x+d)-f(x-d))/(2*eps)))
    return out
def check(name, f, x):
    try:
        vjp,val=make_vjp(f)(x)
        g=r.randn(*onp.shape(val)) if not onp.iscomplexobj(val) else r.randn(*onp.shape(val))+1j*r.randn(*onp.shape(val))
        a=vjp(g); b=num_vjp(lambda x: onp.asarray(f(x)), x, g)
        print(f"{name}: {'OK' if onp.shape(a)==onp.shape(b) and onp.allclose(a,b,atol=1e-4) else 'WRONG'}  maxerr={onp.max(onp.abs(a-b)) if onp.shape(a)==onp.shape(b) else 'shape %s vs %s'%(onp.shape(a),onp.shape(b))}")
    except Exception as e:
        print(f"{name}: raises {type(e).__name__}: {str(e)[:80]}")
def checkj(name, f, x):
    try:
        v=r.randn(*x.shape)
        val,t=make_jvp(f)(x)(v)
        eps=1e-6; b=(onp.asarray(f(x+eps*v))-onp.asarray(f(x-eps*v)))/(2*eps)
        print(f"{name}: {'OK' if onp.shape(t)==onp.shape(b) and onp.allclose(t,b,atol=1e-4) else 'WRONG'}")
    except Exception as e:
        print(f"{name}: raises {type(e).__name__}: {str(e)[:80]}")
x=r.randn(2,3,4)
check("repeat axis=2", lambda x: np.repeat(x,2,axis=2), x)
check("repeat axis=-1", lambda x: np.repeat(x,2,axis=-1), x)
check("transpose (2,0,1)", lambda x: np.transpose(x,(2,0,1)), x)
check("transpose (-1,0,1)", lambda x: np.transpose(x,(-1,0,1)), x)
check("norm axis=(1,2)", lambda x: np.linalg.norm(x,axis=(1,2)), x)
check("norm axis=(-2,-1)", lambda x: np.linalg.norm(x,axis=(-2,-1)), x)
check("norm axis=(2,1)", lambda x: np.linalg.norm(x,axis=(2,1)), x)
check("norm nuc axis=(-2,-1)", lambda x: np.linalg.norm(x,'nuc',axis=(-2,-1)), x)
checkj("max jvp axis=(0,2)", lambda x: np.max(x,axis=(0,2)), x)
checkj("max jvp axis=(-1,0)", lambda x: np.max(x,axis=(-1,0)), x)
checkj("max jvp axis=(0,-1)", lambda x: np.max(x,axis=(0,-1)), x)
checkj("max jvp axis=(-3,-1)", lambda x: np.max(x,axis=(-3,-1)), x)
checkj("max jvp axis=-1", lambda x: np.max(x,axis=-1), x)
checkj("norm jvp axis=(-2,-1)", lambda x: np.linalg.norm(x,axis=(-2,-1)), x)
checkj("norm jvp nuc axis=(-2,-1)", lambda x: np.linalg.norm(x,'nuc',axis=(-2,-1)), x)
checkj("norm jvp nuc axis=(1,2)", lambda x: np.linalg.norm(x,'nuc',axis=(1,2)), x)
check("cumsum axis=-1", lambda x: np.cumsum(x,axis=-1), x)
y=r.randn(3,3)
checkj("sort jvp 2d square", lambda x: np.sort(x), y)
checkj("sort jvp 2d nonsquare", lambda x: np.sort(x), r.randn(2,3))
checkj("partition jvp 2d", lambda x: np.partition(x,1), y)
z=r.randn(8)
check("rfft positional n", lambda x: np.fft.rfft(x, 8), z)
check("rfft keyword n", lambda x: np.fft.rfft(x, n=8), z)
check("rfft n=12 kw", lambda x: np.fft.rfft(x, n=12), z)
check("rfft norm=backward", lambda x: np.fft.rfft(x, norm="backward"), z)
check("rfft norm=forward", lambda x: np.fft.rfft(x, norm="forward"), z)
check("rfft norm=ortho", lambda x: np.fft.rfft(x, norm="ortho"), z)
check("fft norm=forward", lambda x: np.fft.fft(x, norm="forward"), z)
check("irfft n=8 kw", lambda x: np.fft.irfft(x, n=8), r.randn(5))
checkj("var jvp axis tuple", lambda x: np.var(x,axis=(0,1)), x)
