"""Triage probe (not part of any check): second-order reverse-over-reverse through np.linalg.eigh at a point where
the cotangent reaching the eigenvectors is exactly zero but depends on the input.  grad_eigh skips the eigenvector
term under `if anp.any(vg)`, so that dependence is cut out of the graph."""
import numpy as onp
import autograd.numpy as np
from autograd import grad, jacobian, hessian

onp.random.seed(0)
N = 3
M = onp.random.randn(N, N)
A0 = M + M.T
c = onp.random.randn(N)

def L(A):
    w, v = np.linalg.eigh(A)
    # sign-invariant function of the first eigenvector
    return np.sum((v[:, 0] * c)) ** 2

t = float(L(A0))

def f(A):
    return 0.5 * (L(A) - t) ** 2

def fsym(a):  # parametrise by the 6 free entries so finite differences stay symmetric
    A = np.array([[a[0], a[1], a[2]], [a[1], a[3], a[4]], [a[2], a[4], a[5]]])
    return f(A)

a0 = onp.array([A0[0, 0], A0[0, 1], A0[0, 2], A0[1, 1], A0[1, 2], A0[2, 2]])
H_ad = hessian(fsym)(a0)
eps = 1e-4
g = grad(fsym)
H_fd = onp.zeros((6, 6))
for i in range(6):
    e = onp.zeros(6); e[i] = eps
    H_fd[:, i] = (g(a0 + e) - g(a0 - e)) / (2 * eps)
J = grad(lambda a: L(np.array([[a[0], a[1], a[2]], [a[1], a[3], a[4]], [a[2], a[4], a[5]]])))(a0)
print("|H_autograd| =", onp.abs(H_ad).max())
print("|H_fd|       =", onp.abs(H_fd).max())
print("|J J^T|      =", onp.abs(onp.outer(J, J)).max())
print("max |H_ad - H_fd| =", onp.abs(H_ad - H_fd).max())
