"""Triage probes for A4 reports (not part of any check)."""
import warnings; warnings.simplefilter("ignore")
import numpy as onp
import autograd.numpy as np
from autograd import make_vjp, make_jvp
from autograd.core import vspace
r=onp.random.RandomState(0)
def show(name, f, args, argnum):
    try:
        vjp, val = make_vjp(f, argnum)(*args)
        out = vjp(vspace(val).ones())
        x = args[argnum]
        print(f"{name}: arg {onp.result_type(x)} -> grad {onp.result_type(out)} shape {onp.shape(out)} {'OK' if vspace(out)==vspace(x) else 'WRONG SPACE'}")
    except Exception as e:
        print(f"{name}: raises {type(e).__name__}: {e}")
A=r.randn(3,3); B=r.randn(3,3)+1j*r.randn(3,3); a=r.randn(3); b=r.randn(3)+1j*r.randn(3)
show("solve arg0 real A, complex b", lambda A,b: np.linalg.solve(A,b), (A,b), 0)
show("solve arg1 complex A, real b", lambda A,b: np.linalg.solve(A,b), (B,a), 1)
show("where arg1 real x complex y", lambda c,x,y: np.where(c,x,y), (onp.array([True,False,True]),a,b), 1)
show("where arg2 complex x real y", lambda c,x,y: np.where(c,x,y), (onp.array([True,False,True]),b,a), 2)
show("cross arg0 real a complex b", lambda x,y: np.cross(x,y), (a,b), 0)
show("cross arg1 complex a real b", lambda x,y: np.cross(x,y), (b,a), 1)
show("inner arg0", lambda x,y: np.inner(x,y), (a,b), 0)
show("inner arg1", lambda x,y: np.inner(x,y), (b,a), 1)
# norm complex: compare with realified gradient
z=r.randn(4)+1j*r.randn(4)
vjp,val=make_vjp(lambda z: np.linalg.norm(z))(z)
gz=vjp(1.0)
# real loss of complex parameter: gradient should be conj of steepest ascent, d|z|/dz convention: conj(z)/|z|
print("norm vjp:", gz, "\n expected conj(z)/|z|:", onp.conj(z)/onp.linalg.norm(z), "\n matches:", onp.allclose(gz, onp.conj(z)/onp.linalg.norm(z)))
vjp,val=make_vjp(lambda z: np.sqrt(np.sum(np.abs(z)**2)))(z)
print("reference via abs:", vjp(1.0))
val,t=make_jvp(lambda z: np.linalg.norm(z))(z)(onp.ones(4)*(1+2j))
print("norm jvp tangent:", t, "expected real:", onp.real(onp.sum(onp.conj(z)*onp.ones(4)*(1+2j)))/onp.linalg.norm(z))
