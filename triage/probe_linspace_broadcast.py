#!/venv/bin/python
"""Triage probe (not a check): derivatives of np.linspace with array-valued endpoints that broadcast.
A3.vjp / A3.jvp (linspace declared a broadcasting primitive: the result has shape (num,) + broadcast(start, stop))
reported all four rules.  Before fix dce58ff the gradient w.r.t. stop of shape (1,) against start of shape (3,) had
shape (3,), the gradient w.r.t. a scalar start against stop of shape (3,) had shape (3,), and the forward tangent had
shape (num,) + shape(endpoint) instead of the output's shape."""
import numpy as onp

import autograd.numpy as np
from autograd import grad, make_jvp

ok = True
f = lambda s, e: np.sum(np.sin(np.linspace(s, e, 5)))
for s, e in [(onp.array([0.0, 1.0, 2.0]), onp.array([3.0])), (onp.array(0.5), onp.array([1.0, 2.0, 3.0])), (onp.array(0.5), onp.ones((2, 2)))]:
    for k in (0, 1):
        g = grad(f, k)(s, e)
        ff = (lambda s_: np.linspace(s_, e, 5)) if k == 0 else (lambda e_: np.linspace(s, e_, 5))
        v, t = make_jvp(ff)((s, e)[k])(onp.ones_like((s, e)[k]))
        print("start", s.shape, "stop", e.shape, "argnum", k, "gradient", onp.shape(g), "value", v.shape, "tangent", onp.shape(t))
        ok = ok and onp.shape(g) == (s, e)[k].shape and onp.shape(t) == v.shape
print("OK" if ok else "DEFECT: a derivative has the wrong shape")
