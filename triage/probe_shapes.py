"""Triage probes (NOT part of any check): instantiate the witness class of each A3/A4 report against the real code."""
import warnings; warnings.simplefilter("ignore")
import numpy as onp
import autograd.numpy as np
from autograd import make_vjp, make_jvp
from autograd.core import vspace

def show(name, f, args, argnum, g=None):
    try:
        vjp, val = make_vjp(f, argnum)(*args)
        out = vjp(onp.ones_like(val) if g is None else g)
        x = args[argnum]
        print(f"{name}: arg shape {onp.shape(x)} dtype {onp.result_type(x)} -> grad shape {onp.shape(out)} dtype {onp.result_type(out)}  {'OK' if vspace(out)==vspace(x) else 'WRONG SPACE'}")
    except Exception as e:
        print(f"{name}: raises {type(e).__name__}: {e}")

show("where arg1 scalar vs (3,)", lambda c,x,y: np.where(c,x,y), (onp.array([True,False,True]), 2.0, onp.arange(3.)), 1)
show("where arg2 (1,) vs (3,)", lambda c,x,y: np.where(c,x,y), (onp.array([True,False,True]), onp.arange(3.), onp.array([5.0])), 2)
show("clip arg0 (1,) vs bounds (3,)", lambda x,a,b: np.clip(x,a,b), (onp.array([0.5]), onp.zeros(3), onp.ones(3)), 0)
show("cross arg0 (3,) x (4,3)", lambda a,b: np.cross(a,b), (onp.array([1.,2.,3.]), onp.random.randn(4,3)), 0)
show("cross arg1 (4,3) x (3,)", lambda a,b: np.cross(a,b), (onp.random.randn(4,3), onp.array([1.,2.,3.])), 1)
show("full arg1 array fill (3,) into (2,3)", lambda s,v: np.full(s,v), ((2,3), onp.arange(3.)), 1)
show("inner real x complex arg0", lambda a,b: np.inner(a,b), (onp.arange(3.), onp.arange(3.)+1j), 0, g=1.0+0j)
def showj(name, f, args, argnum, v):
    try:
        val, t = make_jvp(f, argnum)(*args)(v)
        print(f"{name}: out shape {onp.shape(val)} tangent shape {onp.shape(t)} {'OK' if onp.shape(val)==onp.shape(t) else 'WRONG SHAPE'}")
    except Exception as e:
        print(f"{name}: raises {type(e).__name__}: {e}")
showj("where jvp arg1 scalar", lambda c,x,y: np.where(c,x,y), (True, 2.0, onp.ones((2,3))), 1, 1.0)
showj("where jvp arg2 scalar", lambda c,x,y: np.where(c,x,y), (onp.array([True,False,True]), onp.ones(3), 2.0), 2, 1.0)
