"""Triage probe for A7.order (run by hand, not part of any check): ravel / reshape with order='A' on a
Fortran-contiguous argument.  Ground truth: the permutation NumPy itself applies in the forward pass."""
import numpy as onp

import autograd.numpy as np
from autograd import grad, make_jvp

x = onp.asfortranarray(onp.arange(6.0).reshape(2, 3))
w = onp.arange(6.0) + 1
pos = onp.asfortranarray(onp.arange(6).reshape(2, 3))  # position k of entry (i, j) in the flattened result
bad = 0
for name, f, raw in (
    ("ravel", lambda x: np.ravel(x, order="A"), lambda a: onp.ravel(a, order="A")),
    ("reshape", lambda x: np.reshape(x, (6,), order="A"), lambda a: onp.reshape(a, (6,), order="A")),
):
    idx = raw(pos)
    exp = onp.empty(6)
    exp[idx] = w
    exp = exp.reshape(2, 3)
    g = grad(lambda x: np.sum(f(x) * w))(x)
    ok_rev = onp.allclose(g, exp)
    v = onp.ascontiguousarray(onp.arange(6.0).reshape(2, 3) * 10)  # a C-contiguous tangent
    _, t = make_jvp(f)(x)(v)
    ok_fwd = onp.allclose(t, onp.asfortranarray(v).ravel(order="F"))
    print(name, "reverse ok" if ok_rev else "reverse WRONG", "| forward ok" if ok_fwd else "| forward WRONG")
    bad += (not ok_rev) + (not ok_fwd)
raise SystemExit(1 if bad else 0)
