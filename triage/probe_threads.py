"""Triage probe for C20 / A11.thread (not part of any check): two threads, one nested differentiation,
thread B's trace exits between A's outer entry and A's inner entry."""
import threading, warnings
warnings.simplefilter("ignore")
import autograd.numpy as np
from autograd import grad

a_in_outer = threading.Event(); b_in_trace = threading.Event(); b_done = threading.Event()
res = {}
def A():
    def outer(x):
        a_in_outer.set()          # A holds trace id k
        b_done.wait(5)            # B's trace (id k+1) exits -> shared top back to k... then B exits again
        inner = grad(lambda y: x * y**3)(2.0)   # inner trace must get a strictly larger id than outer
        return x * inner
    res["A"] = grad(outer)(1.0)   # d/dx [x * d/dy(x y^3)|_2] = d/dx [x * 12 x] = 24 x = 24
def B():
    def f(z):
        b_in_trace.set()
        a_in_outer.wait(5)
        return z * z
    b_in_trace.clear()
    g = grad(f)(3.0)
    b_done.set()
    res["B"] = g
tb = threading.Thread(target=B); tb.start()
b_in_trace.wait(5)
ta = threading.Thread(target=A); ta.start()
ta.join(); tb.join()
print("A =", res.get("A"), "(expected 24.0)   B =", res.get("B"), "(expected 6.0)")
