#!/venv/bin/python
"""Triage probe (not a check): gradients of rank-changing functions on 0-d operands.
A3.restore reported grad_np_cumsum (axis-truthy branch), grad_sort and grad_partition (axis=None path): NumPy treats a
0-d operand of cumsum as a length-1 vector and flattens the operand of sort / partition when axis=None, so the
cotangent has shape (1,) while the operand has shape ().  Before fixes ec73228 / fe82a62 the gradient came back with
shape (1,) (cumsum with axis=-1; sort / partition with axis=None)."""
import numpy as onp

import autograd.numpy as np
from autograd import grad

ok = True
cases = [("cumsum", dict(axis=-1)), ("cumsum", dict(axis=0)), ("cumsum", dict(axis=None)), ("sort", dict(axis=None)), ("partition", dict(kth=0, axis=None))]
for name, kw in cases:
    for x0 in (onp.float64(2.0), onp.array(2.0)):
        r = grad(lambda x: getattr(np, name)(np.sin(x), **kw)[0])(x0)
        print(name, kw, "operand shape", onp.shape(x0), "gradient shape", onp.shape(r))
        ok = ok and onp.shape(r) == onp.shape(x0)
print("OK" if ok else "DEFECT: the gradient of a 0-d operand has shape (1,)")
