#!/venv/bin/python
"""Triage sweep (not a check): forward mode - the tangent of every function with a JVP rule must have the OUTPUT's
shape and kind.  Same argument shapes as sweep_gradient_shapes.py; exceptions ignored."""
import sys, warnings
import numpy as onp
sys.path.insert(0, "/verif")
import autograd.numpy as np
from autograd import make_jvp
from sa.world import World
from sa.analyses.common import is_numpy_callable, base_name

warnings.simplefilter("ignore")
w = World("/repo")
names = sorted({base_name(e.prim) for e in w.table.entries if e.mode == "jvp" and e.spec != "none" and is_numpy_callable(e.prim)})
rs = onp.random.RandomState(0)
mk = lambda s: rs.rand(*s) + 0.5 if s != () else onp.float64(rs.rand() + 0.5)
unary = [(), (1,), (3,), (1, 1), (2, 3), (2, 3, 3)]
pairs = [((3,), (1,)), ((), (3,)), ((3,), ()), ((2, 3), (3,)), ((3,), (2, 3)), ((3, 3), (2, 3, 3)), ((2, 3, 3), (3, 3)), ((1, 3), (2, 1)), ((2, 1, 3), (4, 3))]
found = set()
for nm in names:
    f = np
    for part in nm.split("."):
        f = getattr(f, part, None)
        if f is None:
            break
    if f is None:
        continue
    for s in unary:
        x = mk(s)
        try:
            ans, t = make_jvp(lambda x_: f(x_))(x)(onp.ones(onp.shape(x)))
            if not isinstance(ans, tuple) and onp.shape(t) != onp.shape(ans):
                found.add((nm, "unary", s, onp.shape(ans), onp.shape(t)))
        except Exception:
            pass
    for sa, sb in pairs:
        a, b = mk(sa), mk(sb)
        for k in (0, 1):
            try:
                fun = (lambda a_: f(a_, b)) if k == 0 else (lambda b_: f(a, b_))
                ans, t = make_jvp(fun)((a, b)[k])(onp.ones(onp.shape((a, b)[k])))
                if not isinstance(ans, tuple) and onp.shape(t) != onp.shape(ans):
                    found.add((nm, f"binary argnum {k}", (sa, sb), onp.shape(ans), onp.shape(t)))
            except Exception:
                pass
for r in sorted(found, key=str):
    print(r)
print(len(names), "functions swept;", len(found), "shape mismatches")
