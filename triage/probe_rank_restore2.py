#!/venv/bin/python
"""Triage probe (not a check): gradients of np.diag (non-square matrix), np.triu / np.tril (1-D operand) and np.outer
(arguments that are not 1-D).  Found by triage/sweep_gradient_shapes.py; the rule that reports them on the unrepaired
tree is A3.restore (facts/rank_changing_results.json: flattens_arguments, promotes_1d_to_2d, diagonal_of_matrix).
Before fixes 4ba3394 / 4eefb11 / 96cba58: diag of a (2, 3) matrix -> gradient (2, 2); tril of a (3,) vector ->
gradient (3, 3); outer of a (2, 3) matrix with a vector -> gradient (6,)."""
import numpy as onp

import autograd.numpy as np
from autograd import make_vjp

ok = True
cases = [("diag (2,3)", lambda x: np.diag(x), onp.ones((2, 3))), ("diag (3,2), k=-1", lambda x: np.diag(x, -1), onp.ones((3, 2))), ("tril (3,)", np.tril, onp.ones(3)), ("triu (3,)", np.triu, onp.ones(3)),
         ("outer a (2,3)", lambda a: np.outer(a, onp.ones(3)), onp.ones((2, 3))), ("outer b 0-d", lambda b: np.outer(onp.ones(3), b), onp.float64(2.0))]
for name, f, x in cases:
    vjp, ans = make_vjp(f)(x)
    g = vjp(onp.ones(onp.shape(ans)))
    print(name, "argument", onp.shape(x), "result", onp.shape(ans), "gradient", onp.shape(g))
    ok = ok and onp.shape(g) == onp.shape(x)
print("OK" if ok else "DEFECT: a gradient does not have its argument's shape")
