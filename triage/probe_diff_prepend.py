#!/venv/bin/python
"""Triage probe (not a check): forward-mode np.diff with prepend= / append=.
A1.lin reported `defjvp(anp.diff, "same")`: np.diff is linear in its argument only WITHOUT prepend / append; the "same"
rule re-applies np.diff to the tangent with the caller's values, which adds those values to the tangent.
On the tree before fix 9e75aae this prints a tangent of [-9, -1, 0] (true: [1, -1, 0])."""
import numpy as onp

import autograd.numpy as np
from autograd import make_jvp

x = onp.array([1.0, 2.0, 4.0])
ok = True
for f, v in (
    (lambda x: np.diff(x, prepend=10.0), onp.array([1.0, 0.0, 0.0])),
    (lambda x: np.diff(x, append=5.0), onp.array([0.0, 0.0, 1.0])),
    (lambda x: np.diff(x, 2, -1, [1.0, 2.0], 3.0), onp.array([0.0, 1.0, 0.0])),
):
    _, t = make_jvp(f)(x)(v)
    fd = (f(x + 1e-6 * v) - f(x - 1e-6 * v)) / 2e-6
    print("jvp", t, "finite differences", onp.round(fd, 6))
    ok = ok and onp.allclose(t, fd, atol=1e-5)
print("OK" if ok else "DEFECT: the prepended / appended VALUES end up in the tangent")
