"""Triage probe for A5.alias (run by hand): np.abs is np.absolute, yet the two spellings differentiate differently at 0."""
import warnings

import numpy as onp

import autograd.numpy as np
from autograd import grad, make_jvp

assert onp.abs is onp.absolute
bad = 0
with warnings.catch_warnings():
    warnings.simplefilter("ignore")
    for x in (0.0, onp.array([0.0, -2.0, 3.0])):
        ga = grad(lambda t: np.sum(np.abs(t)))(x)
        gb = grad(lambda t: np.sum(np.absolute(t)))(x)
        ja = make_jvp(lambda t: np.abs(t))(x)(onp.ones_like(x))[1]
        jb = make_jvp(lambda t: np.absolute(t))(x)(onp.ones_like(x))[1]
        same = onp.array_equal(ga, gb, equal_nan=False) and onp.array_equal(ja, jb, equal_nan=False)
        print("x =", x, "| grad abs:", ga, "grad absolute:", gb, "| jvp abs:", ja, "jvp absolute:", jb, "|", "same" if same else "DIFFERENT")
        bad += not same
raise SystemExit(1 if bad else 0)
