#!/venv/bin/python
"""Triage sweep (not a check): call every autograd.numpy function that has a reverse rule on a few argument shapes
(0-d, size-1, broadcasting pairs, stacked matrices) and report gradients whose shape differs from the argument's.
Exceptions are ignored (a raise is loud).  Candidates found here are then looked at by hand and, where the cause is
structural, turned into a fact / rule of the static checker."""
import sys, warnings
import numpy as onp
sys.path.insert(0, "/verif")
import autograd.numpy as np
from autograd import make_vjp
from sa.world import World
from sa.analyses.common import is_numpy_callable, base_name

warnings.simplefilter("ignore")
w = World("/repo")
names = sorted({base_name(e.prim) for e in w.table.entries if e.mode == "vjp" and e.spec == "maker" and is_numpy_callable(e.prim)})
rs = onp.random.RandomState(0)
mk = lambda s: rs.rand(*s) + 0.5 if s != () else onp.float64(rs.rand() + 0.5)
unary = [(), (1,), (3,), (1, 1), (2, 3), (2, 3, 3)]
pairs = [((3,), (1,)), ((), (3,)), ((3,), ()), ((2, 3), (3,)), ((3,), (2, 3)), ((3, 3), (2, 3, 3)), ((2, 3, 3), (3, 3)), ((1, 3), (2, 1)), ((2, 1, 3), (4, 3))]
found = set()
for nm in names:
    f = np
    for part in nm.split("."):
        f = getattr(f, part, None)
        if f is None:
            break
    if f is None:
        continue
    for s in unary:
        x = mk(s)
        try:
            vjp, ans = make_vjp(lambda x_: f(x_))(x)
            if isinstance(ans, tuple):
                continue
            g = vjp(onp.ones(onp.shape(ans)))
            if onp.shape(g) != onp.shape(x):
                found.add((nm, "unary", s, onp.shape(ans), onp.shape(g)))
        except Exception:
            pass
    for sa, sb in pairs:
        a, b = mk(sa), mk(sb)
        for k in (0, 1):
            try:
                fun = (lambda a_: f(a_, b)) if k == 0 else (lambda b_: f(a, b_))
                vjp, ans = make_vjp(fun)((a, b)[k])
                if isinstance(ans, tuple):
                    continue
                g = vjp(onp.ones(onp.shape(ans)))
                if onp.shape(g) != onp.shape((a, b)[k]):
                    found.add((nm, f"binary argnum {k}", (sa, sb), onp.shape(ans), onp.shape(g)))
            except Exception:
                pass
for r in sorted(found, key=str):
    print(r)
print(len(names), "functions swept;", len(found), "shape mismatches")
