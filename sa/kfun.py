"""Helpers to obtain terms / paths of kernel functions (tracer.py, core.py, wrap_util.py ...)."""
import ast

from .model import AnalysisError, norm_text
from .terms import Scope, T, children, walk


def P(name):
    return T("sym", name=name, role="param")


def eval_function(world, modname, path, bind=None):
    """Partially evaluate a (possibly nested) function.  Outer functions are evaluated first so that free
    variables of the inner function are bound to the outer parameters (as symbols named after them).
    Returns (result term, dict param-name -> symbol for the innermost function, module, node)."""
    ev = world.ev
    m = world.repo.mod(modname)
    parts = path.split(".")
    node = m.tree
    sc = Scope()
    syms = {}
    fn = None
    # class prefix (Cls.method)
    i = 0
    from .model import _find_child_def

    cur = m.tree
    while i < len(parts):
        nxt = _find_child_def(cur, parts[i])
        if nxt is None:
            raise AnalysisError(f"anchor {modname}:{path} vanished (no '{parts[i]}')")
        cur = nxt
        i += 1
        if isinstance(cur, ast.ClassDef):
            continue
        # cur is a function: bind params as symbols, run body unless it is the last
        a = cur.args
        fsc = Scope(sc)
        syms = {}
        for i_, p in enumerate(a.posonlyargs + a.args + a.kwonlyargs):
            s = (bind or {}).get(p.arg) or P(p.arg)
            fsc.vars[p.arg] = s
            syms[p.arg] = s
            syms[f"#{i_}"] = s  # positional access: rules must not depend on parameter names
        if a.vararg:
            s = (bind or {}).get(a.vararg.arg) or T("sym", name=a.vararg.arg, role="param", star=True)
            fsc.vars[a.vararg.arg] = s
            syms[a.vararg.arg] = s
            syms["*"] = s
        if a.kwarg:
            s = (bind or {}).get(a.kwarg.arg) or T("sym", name=a.kwarg.arg, role="param", dstar=True)
            fsc.vars[a.kwarg.arg] = s
            syms[a.kwarg.arg] = s
            syms["**"] = s
        fn = cur
        if i < len(parts):
            # run the outer body so that inner defs become closures whose free variables resolve
            ev.run(_until_def(cur.body, parts[i]), fsc, m)
            sc = fsc
        else:
            saved = ev._ctx
            ev._ctx = (0, (cur,))
            try:
                r = ev.run(cur.body, fsc, m)
            finally:
                ev._ctx = saved
            return r, syms, m, cur, fsc
    raise AnalysisError(f"anchor {modname}:{path} is not a function")


def registered_closure(world, modname, outer, api_suffix):
    """Evaluate the module-level function `outer` symbolically and return the function it hands to the registration
    API whose qualified name ends with `api_suffix` (defvjp -> defvjp_argnums(fun, <dispatcher>)), wherever that
    function is defined (nested def, lambda, or a module-level factory called with the captured values):
    (closure term, outer parameter symbols, module, outer def node, outer scope).  The anchor is the registration
    call, not the name of the nested function."""
    r, syms, m, fn, sc = eval_function(world, modname, outer)
    ev = world.ev
    # (with an early return the effects of each path travel inside the result term: if(c ? seq[..](None) : seq[..](None)))
    regs = [t for e in list(sc.effects) + ([r] if r is not None else []) for t in walk(e) if t.op == "call" and t.fn.op == "ref" and t.fn.ref.qual.endswith(api_suffix)]
    uniq = []
    for t in regs:
        if not any(t is u for u in uniq):
            uniq.append(t)
    regs = uniq
    if not regs or any(len(t.args) < 2 for t in regs):
        raise AnalysisError(f"anchor {modname}:{outer} no longer registers a function with {api_suffix}")
    # several registrations (a special-cased dispatcher on an early-return path next to the general one): the LAST one
    # in program order is the general dispatcher the alignment rules analyse; the others are recorded and have to meet
    # the part of the contract that can be stated for any dispatcher (kernel_core.dispatch, extra-dispatcher clause)
    if not hasattr(world, "extra_dispatchers"):
        world.extra_dispatchers = {}
    extras = []
    for t in regs[:-1]:
        c_, p_, k_ = ev.as_closure(t.args[-1])
        extras.append((t, c_, p_, k_))
    world.extra_dispatchers[(modname, outer)] = extras
    clo, pre, prekw = ev.as_closure(regs[-1].args[-1])
    if clo is None:
        raise AnalysisError(f"anchor {modname}:{outer}: the function handed to {api_suffix} is not inlinable")
    return clo, pre, prekw, syms, m, fn, sc, regs[-1]


def returned_closure(world, modname, outer):
    """the function object a decorator-like `outer` returns: the closure itself or the last argument of a chain of
    wrapping calls (wraps(f)(closure))"""
    r, syms, m, fn, sc = eval_function(world, modname, outer)
    t = strip_seq(r)
    # a decorator with several return paths (if already_wrapped: return f): the wrapping path is the anchor; what the
    # other paths return is recorded for the rule that requires a NEW wrapper on every path (world.alt_returns)
    alts = []
    for _ in range(4):
        if t is None or t.op != "if":
            break
        a_, b_ = strip_seq(t.then), strip_seq(t.other)

        def _wraps_closure(x):
            for _ in range(6):
                if x is None:
                    return False
                if x.op == "closure":
                    return True
                if x.op == "call" and x.args:
                    x = strip_seq(x.args[-1])
                    continue
                return False
            return False

        if _wraps_closure(a_) or (a_ is not None and a_.op == "if"):
            if b_ is not None and b_.op != "raise":
                alts.append((t.cond, False, b_))
            t = a_
        elif _wraps_closure(b_) or (b_ is not None and b_.op == "if"):
            if a_ is not None and a_.op != "raise":
                alts.append((t.cond, True, a_))
            t = b_
        else:
            break
    if not hasattr(world, "alt_returns"):
        world.alt_returns = {}
    world.alt_returns[(modname, outer)] = alts
    top = t
    for _ in range(6):
        if t is None:
            break
        if t.op == "closure":
            return t, top, syms, m, fn, sc
        if t.op == "call" and t.args:
            t = strip_seq(t.args[-1])
            continue
        break
    raise AnalysisError(f"anchor {modname}:{outer} no longer returns a (wrapped) nested function")


def _until_def(body, name):
    """statements of an enclosing function that precede (and do not include returns after) the inner def"""
    out = []
    for st in body:
        if isinstance(st, ast.Return):
            continue
        out.append(st)
    return out


def find_function(world, modname, path):
    m, node = world.repo.find_def(modname, path)
    return m, node


def is_call_to(t, qual_suffix):
    if t is None or t.op != "call":
        return False
    fn = t.fn
    if fn.op == "ref":
        return fn.ref.qual == qual_suffix or fn.ref.qual.endswith("." + qual_suffix)
    return False


def strip_seq(t):
    while t is not None and t.op == "seq":
        t = t.value
    return t


def same(a, b):
    """structural equality of terms (bounded)"""
    return _eq(a, b, 0)


def _eq(a, b, d):
    if a is b:
        return True
    if a is None or b is None or d > 40:
        return False
    if a.op != b.op:
        return False
    o = a.op
    if o == "sym":
        return a.name == b.name
    if o == "const":
        return a.value == b.value and type(a.value) is type(b.value)
    if o == "ref":
        return a.ref.qual == b.ref.qual
    if o == "arg":
        return a.index == b.index and a.get("name") == b.get("name")
    if o == "rest":
        return a.start == b.start
    if o == "attr":
        return a.name == b.name and _eq(a.obj, b.obj, d + 1)
    if o in ("bin", "cmp"):
        return a.opname == b.opname and _eq(a.l, b.l, d + 1) and _eq(a.r, b.r, d + 1)
    if o == "call":
        if len(a.args) != len(b.args) or set(a.kw) != set(b.kw):
            return False
        return _eq(a.fn, b.fn, d + 1) and all(_eq(x, y, d + 1) for x, y in zip(a.args, b.args)) and all(_eq(a.kw[k], b.kw[k], d + 1) for k in a.kw)
    ca, cb = children(a), children(b)
    if len(ca) != len(cb):
        return False
    if o in ("un", "bool"):
        if a.opname != b.opname:
            return False
    if o == "loopvar":
        return a.name == b.name
    if o == "closure":
        return a.fnode is b.fnode
    return all(_eq(x, y, d + 1) for x, y in zip(ca, cb))


def contains(t, pred):
    for x in walk(t):
        if pred(x):
            return True
    return False


# ------------------------------------------------------------------------------------------------ paths
class Ev:
    """one event on a path"""

    def __init__(self, kind, node, extra=None):
        self.kind, self.node, self.extra = kind, node, extra

    def __repr__(self):
        return f"{self.kind}:{norm_text(self.node)[:50] if isinstance(self.node, ast.AST) else self.node}"


def paths(body, limit=4000):
    """All execution paths of a statement list as lists of events.  Loops run 0 or 1 iteration; a `try` runs
    its body normally or jumps (from its start) into each handler.  Each path ends with an event of kind
    'return' / 'raise' / 'fall'."""
    out = []

    def go(stmts, acc, cont):
        if len(out) > limit:
            return
        if not stmts:
            cont(acc)
            return
        st, rest = stmts[0], stmts[1:]
        nxt = lambda a: go(rest, a, cont)
        if isinstance(st, ast.Return):
            out.append(acc + [Ev("return", st)])
        elif isinstance(st, ast.Raise):
            out.append(acc + [Ev("raise", st)])
        elif isinstance(st, ast.If):
            go(list(st.body), acc + [Ev("cond", st.test, True)], nxt)
            go(list(st.orelse), acc + [Ev("cond", st.test, False)], nxt)
        elif isinstance(st, (ast.For, ast.While)):
            hdr = Ev("loop", st)
            go([], acc + [hdr, Ev("loop0", st)], lambda a: go(list(st.orelse), a, nxt))
            go(list(st.body), acc + [hdr, Ev("iter", st)], lambda a: go(list(st.orelse), a + [Ev("endloop", st)], nxt))
        elif isinstance(st, ast.Try):
            fin = list(st.finalbody)
            go(list(st.body), acc + [Ev("try", st)], lambda a: go(list(st.orelse) + fin, a, nxt))
            for h in st.handlers:
                go(list(h.body), acc + [Ev("try", st), Ev("except", h)], lambda a: go(fin, a, nxt))
        elif isinstance(st, ast.With):
            go(list(st.body), acc + [Ev("with", st)], lambda a: go([], a + [Ev("endwith", st)], nxt))
        elif isinstance(st, (ast.FunctionDef, ast.ClassDef)):
            go(rest, acc + [Ev("def", st)], cont)
        else:
            go(rest, acc + [Ev("stmt", st)], cont)

    go(list(body), [], lambda a: out.append(a + [Ev("fall", None)]))
    return out


def calls_in(node):
    """Call nodes inside a statement/expression, not descending into nested defs/lambdas"""
    out = []

    def rec(n):
        for c in ast.iter_child_nodes(n):
            if isinstance(c, (ast.FunctionDef, ast.Lambda, ast.ClassDef)):
                continue
            if isinstance(c, ast.Call):
                out.append(c)
            rec(c)

    if isinstance(node, ast.Call):
        out.append(node)
    rec(node)
    return out
