"""FE2 - environment facts: what the *installed* numpy exports (the role a type stub plays).

Imports numpy (never autograd).  Everything derived here is about NumPy, not about the repo.
"""
import importlib
import inspect
import types


class Env:
    NAMESPACES = ("numpy", "numpy.linalg", "numpy.fft", "numpy.random")

    def __init__(self):
        import numpy

        self.np = numpy
        self.version = numpy.__version__
        self.ns = {}
        for n in self.NAMESPACES:
            try:
                self.ns[n] = importlib.import_module(n)
            except Exception:
                pass
        self._sig_cache = {}

    def is_module(self, dotted):
        if dotted in self.ns:
            return True
        try:
            obj = self.get_dotted(dotted)
        except Exception:
            return False
        return isinstance(obj, types.ModuleType)

    def get_dotted(self, dotted):
        parts = dotted.split(".")
        obj = importlib.import_module(parts[0])
        for p in parts[1:]:
            obj = getattr(obj, p)
        return obj

    def get(self, ns, name):
        m = self.ns.get(ns)
        if m is None:
            try:
                m = importlib.import_module(ns)
            except Exception:
                return None
            self.ns[ns] = m
        return m.__dict__.get(name, None) if name in m.__dict__ else None

    def has(self, ns, name):
        m = self.ns.get(ns)
        return m is not None and name in m.__dict__

    def kind(self, ns, name):
        if not self.has(ns, name):
            return None
        obj = self.ns[ns].__dict__[name]
        np = self.np
        if isinstance(obj, np.ufunc):
            return "ufunc"
        if isinstance(obj, type):
            if obj in (np.int8, np.int16, np.int32, np.int64, np.integer):
                return "inttype"
            return "class"
        if isinstance(obj, types.ModuleType):
            return "module"
        if callable(obj):
            return "function"
        if type(obj) in (float, int, type(None)):
            return "const"
        return "other"

    def same_object_as_any(self, ns, name, quals):
        obj = self.get(ns, name)
        if obj is None:
            return False
        for q in quals:
            try:
                if self.get_dotted(q) is obj:
                    return True
            except Exception:
                pass
        return False

    def ufunc(self, ns, name):
        obj = self.get(ns, name)
        return obj if isinstance(obj, self.np.ufunc) else None

    def exported_callables(self, ns):
        out = []
        for name in sorted(self.ns[ns].__dict__):
            k = self.kind(ns, name)
            if k in ("ufunc", "function"):
                out.append(name)
        return out

    def signature(self, dotted):
        """Positional parameter names (in order), defaults and kw-only names of a numpy function, or None."""
        if dotted in self._sig_cache:
            return self._sig_cache[dotted]
        res = None
        try:
            obj = self.get_dotted(dotted)
            sig = inspect.signature(obj)
            pos, defaults, kwonly, varargs, varkw = [], {}, [], None, None
            for p in sig.parameters.values():
                if p.kind in (p.POSITIONAL_ONLY, p.POSITIONAL_OR_KEYWORD):
                    pos.append(p.name)
                    if p.default is not p.empty:
                        defaults[p.name] = p.default
                elif p.kind == p.KEYWORD_ONLY:
                    kwonly.append(p.name)
                    if p.default is not p.empty:
                        defaults[p.name] = p.default
                elif p.kind == p.VAR_POSITIONAL:
                    varargs = p.name
                elif p.kind == p.VAR_KEYWORD:
                    varkw = p.name
            res = {"pos": pos, "defaults": defaults, "kwonly": kwonly, "varargs": varargs, "varkw": varkw}
        except Exception:
            res = None
        self._sig_cache[dotted] = res
        return res

    # ---- derived ufunc classes (mechanical, from loop signatures)
    def ufunc_is_int_or_bool_valued(self, uf):
        """All loops taking only float/complex inputs return bool/int: locally constant by type."""
        floaty = set("efdgFDG")
        found = False
        for t in uf.types:
            ins, outs = t.split("->")
            if ins and all(c in floaty for c in ins):
                found = True
                if not all(c in "?bBhHiIlLqQpP" for c in outs):
                    return False
        return found

    def ufunc_real_of_complex(self, uf):
        for t in uf.types:
            ins, outs = t.split("->")
            if ins in ("D", "F", "G") and outs in ("d", "f", "g"):
                return True
        return False

    def ufunc_accepts_complex(self, uf):
        return any(set(t.split("->")[0]) & set("FDG") for t in uf.types)
