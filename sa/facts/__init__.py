"""Frozen fact tables about NumPy and the Python data model (never about the repo's text)."""
import hashlib
import json
import os

_D = os.path.dirname(os.path.abspath(__file__))
_cache = {}


def load(name):
    if name not in _cache:
        with open(os.path.join(_D, name + ".json"), "rb") as f:
            raw = f.read()
        _cache[name] = (json.loads(raw), hashlib.sha256(raw).hexdigest()[:12])
    return _cache[name][0]


def digests():
    out = {}
    for f in sorted(os.listdir(_D)):
        if f.endswith(".json"):
            load(f[:-5])
            out[f] = _cache[f[:-5]][1]
    return out
