"""Reporting: obligations, findings, known-findings labelling, evidence files, exit codes."""
import hashlib
import json
import os
import time

VERIF = os.path.dirname(os.path.dirname(os.path.abspath(__file__)))
KNOWN_PATH = os.path.join(VERIF, "known_findings.json")
REVIEWED_PATH = os.path.join(VERIF, "sa", "facts", "reviewed.json")


def _h(s):
    return hashlib.sha256(s.encode()).hexdigest()[:12]


class Finding:
    def __init__(self, prop, rule, construct, loc, why, witness, detail=None):
        self.prop, self.rule, self.construct, self.loc = prop, rule, construct, loc
        self.why, self.witness, self.detail = why, witness, detail or {}

    @property
    def key(self):
        return f"{self.rule}|{self.construct}"

    def to_json(self):
        return {
            "property": self.prop,
            "rule": self.rule,
            "construct": self.construct,
            "key": self.key,
            "loc": self.loc,
            "why": self.why,
            "witness_class": self.witness,
            "detail": self.detail,
        }


def load_known():
    try:
        with open(KNOWN_PATH) as f:
            return json.load(f)
    except FileNotFoundError:
        return {"known": [], "fixed": []}


def load_reviewed():
    try:
        with open(REVIEWED_PATH) as f:
            return json.load(f)
    except FileNotFoundError:
        return []


class Ctx:
    def __init__(self, prop, tier, root):
        self.prop, self.tier, self.root = prop, tier, root
        self.t0 = time.time()
        self.obligations = []  # (rule, instance, status, loc)
        self.findings = []
        self.notes = []
        self.undecided = []
        self.samples = []
        self.rules = {}  # rule -> description
        self.nontrivial = set()
        self.assumptions = []
        self.extra = {}
        self.floors = []  # (name, count, floor)
        self.reviewed = {(r["rule"], r["construct"]): r for r in load_reviewed()}
        self.reviewed_used = []

    # an obligation is one rule instance (a rule applied to one construct)
    def ob(self, rule, instance, ok, loc=None, nontrivial=True, sample=None):
        st = "pass" if ok is True else ("fail" if ok is False else "undecided")
        self.obligations.append((rule, instance, st, loc))
        if nontrivial:
            self.nontrivial.add((rule, instance))
        if sample is not None and len([s for s in self.samples if s.get("rule") == rule]) < 4:
            self.samples.append({"rule": rule, "instance": instance, "loc": loc, "status": st, "normal_form": sample})
        if ok is None:
            self.undecided.append({"rule": rule, "instance": instance, "loc": loc})

    def fail(self, rule, instance, construct, loc, why, witness, detail=None, nontrivial=True, sample=None):
        """Record a failed obligation.  A reviewed exemption (one named construct + reason) downgrades it to a
        NOTE; everything else is a finding (labelled later as KNOWN-FINDING or VIOLATION)."""
        rv = self.reviewed.get((rule, construct))
        if rv is not None:
            self.ob(rule, instance, True, loc, nontrivial, sample)
            self.reviewed_used.append(rv)
            self.note(f"reviewed exemption {rule} {construct}: {rv.get('reason')}")
            return
        self.ob(rule, instance, False, loc, nontrivial, sample)
        self.findings.append(Finding(self.prop, rule, construct, loc, why, witness, detail))

    def note(self, msg):
        self.notes.append(msg)

    def floor(self, name, count, floor):
        self.floors.append((name, count, floor))

    def describe(self, rule, text):
        self.rules[rule] = text


def finish(ctx, level_explanation, trusted_base, files, replay_key=None, quiet=False):
    """Label findings, write evidence + replay files, print the protocol lines, return the exit code."""
    from .model import AnalysisError

    missed = [f"{name} = {count} < {floor}" for name, count, floor in ctx.floors if count < floor]
    known = load_known()
    known_keys = {(k["property"], k["key"]): k for k in known.get("known", [])}
    viol, kf = [], []
    seen = set()
    for f in ctx.findings:
        if (f.prop, f.key) in seen:
            continue
        seen.add((f.prop, f.key))
        if (f.prop, f.key) in known_keys:
            kf.append((f, known_keys[(f.prop, f.key)]))
        else:
            viol.append(f)
    official = os.path.abspath(ctx.root) == "/repo" and replay_key is None and not quiet and not os.environ.get("VERIF_NOEVIDENCE")
    if missed and not viol:
        # nothing was reported and a rule lost its instances: never a silent pass
        raise AnalysisError(f"instance floor missed: {'; '.join(missed)} (a rule matching nothing must not pass)")
    for mline in missed:
        ctx.note(f"instance floor missed while violations were found: {mline}")
    if official:
        fdir = os.path.join(VERIF, "evidence", "findings")
    else:
        import tempfile

        fdir = os.path.join(tempfile.gettempdir(), f"vsa-findings-{os.getpid()}")
    os.makedirs(fdir, exist_ok=True)
    if official:
        for fn_ in os.listdir(fdir):
            if fn_.startswith(ctx.prop + "-"):
                os.remove(os.path.join(fdir, fn_))
    lines = []
    for f, k in kf:
        lines.append(f"KNOWN-FINDING: property={f.prop} {f.rule} {f.construct} -- {k.get('what', f.why)}")
    for f in viol:
        path = os.path.join(fdir, f"{f.prop}-{f.rule}-{_h(f.key)}.json")
        with open(path, "w") as fh:
            json.dump(f.to_json(), fh, indent=1)
        lines.append(f"VIOLATION property={f.prop} replay={path}")
        lines.append(f"  {f.loc}  {f.rule}  {f.construct}\n    why: {f.why}\n    witness class: {f.witness}")
    n_ob = len(ctx.obligations)
    n_pass = sum(1 for o in ctx.obligations if o[2] == "pass")
    per_rule = {}
    for r, inst, st, loc in ctx.obligations:
        d = per_rule.setdefault(r, {"obligations": 0, "pass": 0, "fail": 0, "undecided": 0})
        d["obligations"] += 1
        d[st] += 1
    ev = {
        "property_id": ctx.prop,
        "tier": ctx.tier,
        "seed": int(os.environ.get("VERIF_SEED", "0") or 0),
        "level": "other",
        "coverage": {
            "explanation": level_explanation,
            "obligations": n_ob,
            "discharged": n_pass,
            "evaluations": n_ob,
            "distinct_nontrivial": len(ctx.nontrivial),
            "rule": "one obligation = one static rule applied to one construct of /repo's current source "
            "(rule-table entry, call site, function, path); non-trivial = the rule's precondition matched a real "
            "construct (a sink, a registration, a closure), counted as distinct (rule, construct) pairs",
            "exhaustive": True,
            "samples": ctx.samples[:40],
            "per_rule": per_rule,
            "rules": ctx.rules,
            "undecided": ctx.undecided[:60],
            "n_undecided": len(ctx.undecided),
            "known_findings_reported": [f.key for f, _ in kf],
            "reviewed_exemptions_used": ctx.reviewed_used,
            "notes": ctx.notes[:80],
            "files_analysed": files,
            "floors": [{"name": n, "count": c, "floor": fl} for n, c, fl in ctx.floors],
            "trusted_base": trusted_base,
            "checker_cmd": f"./check {ctx.prop} --tier {ctx.tier}",
            **ctx.extra,
        },
        "assumptions": trusted_base + ctx.assumptions,
        "wall_s": round(time.time() - ctx.t0, 3),
        "violations": len(viol),
    }
    os.makedirs(os.path.join(VERIF, "evidence"), exist_ok=True)
    if official:
        with open(os.path.join(VERIF, "evidence", f"{ctx.prop}.json"), "w") as fh:
            json.dump(ev, fh, indent=1, default=str)
    ctx.result = {"violations": [(f.rule, f.construct, f.loc) for f in viol], "known": [(f.rule, f.construct) for f, _ in kf], "code": 1 if viol else 0}
    if quiet:
        return ctx.result["code"]
    for l in lines:
        print(l)
    for n in ctx.notes:
        print("NOTE", n)
    print(
        f"[{ctx.prop}] tier={ctx.tier} obligations={n_ob} discharged={n_pass} undecided={len(ctx.undecided)} "
        f"known={len(kf)} violations={len(viol)} wall={ev['wall_s']}s"
    )
    if replay_key is not None:
        hit = [f for f in viol if f.key == replay_key] or [f for f, _ in kf if f.key == replay_key]
        print(f"REPLAY {'reproduced' if hit else 'not reproduced'}: {replay_key}")
        return 1 if hit else 0
    return 1 if viol else 0
