"""Rule IR: for every Rule Table entry with a maker, the construction-time term and the backward-time
result term, with maker parameters bound to roles."""
import ast

from .terms import Evaluator, Scope, T, const, unknown, walk

G = lambda: T("sym", name="g", role="g")
ANS = lambda: T("sym", name="ans", role="ans")


class RuleIR:
    def __init__(self, entry, ev):
        self.entry = entry
        self.ev = ev
        self.ok = False
        self.reason = None
        self.made = None  # value returned by the maker (VJP: the backward closure; JVP: the tangent)
        self.result = None  # backward-time result term
        self.maker = None  # closure term of the maker
        self.maker_node = None
        self.pre = []
        try:
            self._build()
        except RecursionError:
            self.reason = "recursion limit"

    def _build(self):
        e = self.entry
        ev = self.ev
        mk = ev.ev(e.maker, Scope(), e.mod)
        clo, pre, prekw = ev.as_closure(mk)
        if clo is None:
            self.reason = f"maker not resolvable: {ast.unparse(e.maker)[:60]}"
            return
        self.maker, self.pre = clo, pre
        self.maker_node = clo.fnode
        rest0 = T("rest", start=0)
        kwrest = T("kwrest")
        g, ans = G(), ANS()
        api = e.api
        if api == "defvjp":
            args, dstar = pre + [ans, T("star", x=rest0)], [kwrest]
        elif api == "defvjp_argnum":
            args, dstar = pre + [self._argnum_sym(), ans, rest0, kwrest], []
        elif api == "defvjp_argnums":
            args, dstar = pre + [T("sym", name="argnums", role="argnums"), ans, rest0, kwrest], []
        elif api == "defjvp":
            args, dstar = pre + [g, ans, T("star", x=rest0)], [kwrest]
        elif api == "defjvp_argnum":
            args, dstar = pre + [self._argnum_sym(), g, ans, rest0, kwrest], []
        elif api == "defjvp_argnums":
            args, dstar = pre + [T("sym", name="argnums", role="argnums"), T("sym", name="gs", role="gs"), ans, rest0, kwrest], []
        else:
            self.reason = f"api {api}"
            return
        self.made = ev.apply(clo, args, prekw, dstar)
        if e.mode == "vjp":
            self.result = apply_value(ev, self.made, [g])
        else:
            self.result = self.made
        self.ok = True

    def _argnum_sym(self):
        return T("sym", name="argnum", role="argnum")

    # maker parameter table: name -> role term
    def maker_params(self):
        if self.maker is None:
            return []
        a = self.maker.fnode.args
        return [p.arg for p in a.posonlyargs + a.args], a.vararg.arg if a.vararg else None, a.kwarg.arg if a.kwarg else None


def apply_value(ev, v, args, depth=0):
    """Apply a value (closure / if-tree of closures / ...) to arguments."""
    if v is None:
        return unknown("no-value")
    if v.op == "if":
        return T("if", v.node, v.mod, cond=v.cond, then=apply_value(ev, v.then, args, depth), other=apply_value(ev, v.other, args, depth))
    if v.op == "seq":
        return T("seq", v.node, v.mod, effects=v.effects, value=apply_value(ev, v.value, args, depth))
    if v.op == "raise":
        return v
    if v.op == "call":
        r = ev.inline(v)
        if r is not None and r is not v:
            return apply_value(ev, r, args, depth + 1)
    if v.op == "partial" and v.fn.op == "ref" and v.fn.ref.qual in SUMMARISED:
        # partial(match_complex, x)(g) is the summarised call match_complex(x, g): keep it as a call
        return T("call", v.node, v.mod, fn=v.fn, args=list(v.args) + list(args), kw=dict(v.kw), dstar=[])
    clo, pre, prekw = ev.as_closure(v)
    if clo is not None:
        return ev.apply(clo, pre + list(args), prekw, [])
    return T("call", v.node, v.mod, fn=v, args=list(args), kw={}, dstar=[])


def leaves(ev, t, depth=0):
    """Flatten if/seq trees: yields (path conditions, value) for every non-raising path."""
    out = []

    def rec(t, conds):
        if t is None:
            return
        if t.op == "if":
            rec(t.then, conds + [(t.cond, True)])
            rec(t.other, conds + [(t.cond, False)])
        elif t.op == "seq":
            rec(t.value, conds)
        elif t.op == "raise":
            return
        else:
            out.append((conds, t))

    rec(t, [])
    return out


SUMMARISED = {
    "autograd.numpy.numpy_vjps.unbroadcast",
    "autograd.numpy.numpy_vjps.match_complex",
    "autograd.numpy.numpy_vjps.repeat_to_match_shape",
    "autograd.numpy.numpy_jvps.broadcast",
}


def deep_leaves(ev, t, limit=64):
    """like leaves(), but a leaf that is a call to an inlinable repo helper is expanded and flattened too"""
    out = []

    def rec(t, conds, depth):
        if t is None or len(out) > limit:
            return
        if t.op == "if":
            rec(t.then, conds + [(t.cond, True)], depth)
            rec(t.other, conds + [(t.cond, False)], depth)
        elif t.op == "seq":
            rec(t.value, conds, depth)
        elif t.op == "raise":
            return
        elif t.op == "call" and depth < 6 and not (t.fn.op == "ref" and t.fn.ref.qual in SUMMARISED):
            r = ev.inline(t)
            if r is not None and r.op in ("if", "seq"):
                rec(r, conds, depth + 1)
            else:
                out.append((conds, t))
        else:
            out.append((conds, t))

    rec(t, [], 0)
    return out


def build_all(repo, table, max_depth=6):
    ev = Evaluator(repo, max_depth)
    out = {}
    for e in table.entries:
        if e.spec == "maker":
            out[id(e)] = RuleIR(e, ev)
    return ev, out
