"""Shared front-end state for one run (one parse of /repo's working tree per process)."""
import os

from .env import Env
from .model import AnalysisError, Repo
from .regs import RuleTable
from .ruleir import build_all

ANCHOR_FILES = [
    "autograd/core.py",
    "autograd/tracer.py",
    "autograd/util.py",
    "autograd/wrap_util.py",
    "autograd/extend.py",
    "autograd/builtins.py",
    "autograd/differential_operators.py",
    "autograd/test_util.py",
    "autograd/misc/flatten.py",
    "autograd/numpy/numpy_vjps.py",
    "autograd/numpy/numpy_jvps.py",
    "autograd/numpy/numpy_boxes.py",
    "autograd/numpy/numpy_wrapper.py",
    "autograd/numpy/numpy_vspaces.py",
    "autograd/numpy/linalg.py",
    "autograd/numpy/fft.py",
]


class World:
    def __init__(self, root, tier="quick"):
        self.root = os.path.abspath(root)
        self.tier = tier
        self.env = Env()
        self.repo = Repo(self.root, self.env)
        for f in ANCHOR_FILES:
            if not os.path.isfile(os.path.join(self.root, f)):
                raise AnalysisError(f"anchor file {f} vanished")
        self._table = None
        self._irs = None
        self._ev = None

    @property
    def table(self):
        if self._table is None:
            self._table = RuleTable(self.repo, both_version_branches=(self.tier == "thorough"))
        return self._table

    @property
    def irs(self):
        if self._irs is None:
            self._ev, self._irs = build_all(self.repo, self.table, max_depth=8 if self.tier == "thorough" else 6)
        return self._irs

    @property
    def ev(self):
        self.irs
        return self._ev

    def ir(self, entry):
        return self.irs.get(id(entry))

    def files(self):
        return sorted(m.relpath for m in self.repo.mods.values())

    def in_numpy_scope(self, entry):
        """Rule entries the numpy-namespace properties quantify over (autograd.numpy*, core, builtins)."""
        return not entry.mod.name.startswith(("autograd.scipy", "autograd.misc"))
