"""A18 - structure of the bundled gradient checker (autograd/test_util.py).  C18 as a whole (detection probability,
freedom from false rejections) is numerical; decided here are the structural clauses without which a wrong rule
cannot be rejected at all:

* A18.modes   - check_grads reaches check_jvp / check_vjp on (f, x) exactly under `"fwd" in modes` / `"rev" in modes`,
                and for order > 1 recurses on the derivative closure OF THE SAME MODE with `modes` unchanged and
                `order - 1`;
* A18.compare - check_vjp asserts scalar_close(<y_v, J_numeric x_v>, <x_v, covector(vjp(covector(y_v)))>) with the same
                two random vectors on both sides, one side derived from make_vjp and the other from
                make_numerical_jvp; check_jvp compares element [1] of make_jvp(f, x)(x_v) with the numerical JVP at the
                same x_v; check_equivalent asserts space equality and projects both values on the same random vector;
* A18.numjvp  - make_numerical_jvp is the symmetric difference (f(x + c v) - f(x - c v)) * s with s * 2c == 1;
* A18.tol     - scalar_close is `|a-b| < TOL or |a-b|/|a+b| < RTOL` with both tolerances positive and <= 1e-4.

All decided on evaluated terms (helpers inlined, conditions as canonical atoms)."""
import ast

from ..kfun import eval_function, is_call_to, returned_closure, same
from ..model import AnalysisError
from ..terms import T, walk
from ..tutil import atom, cases, expand, unseq
from .common import loc_of

TU = "autograd.test_util"
KEEP = {
    f"{TU}.check_vjp",
    f"{TU}.check_jvp",
    f"{TU}.check_grads",
    f"{TU}.check_equivalent",
    f"{TU}.scalar_close",
    f"{TU}.make_numerical_jvp",
    "autograd.core.make_vjp",
    "autograd.core.make_jvp",
    "autograd.core.vspace",
}


def _ok(ctx, rule, inst, ok, loc, construct, why, witness):
    if ok:
        ctx.ob(rule, inst, True, loc)
    else:
        ctx.fail(rule, inst, construct, loc, why, witness)


def _num(t):
    """numeric value of a constant term (constants, + - * / on constants), else None"""
    if t is None:
        return None
    if t.op == "const" and isinstance(t.value, (int, float)) and not isinstance(t.value, bool):
        return float(t.value)
    if t.op == "un" and t.opname == "USub":
        v = _num(t.x)
        return None if v is None else -v
    if t.op == "bin":
        a, b = _num(t.l), _num(t.r)
        if a is None or b is None:
            return None
        try:
            return {"Add": a + b, "Sub": a - b, "Mult": a * b, "Div": a / b}.get(t.opname)
        except ZeroDivisionError:
            return None
    return None


def _effects_with_facts(sc):
    """(facts, effect) for every expression-statement effect of a function scope; facts from enclosing `when`s"""
    out = []
    for e in sc.effects:
        facts = []
        while e.op == "when":
            a, p = atom(e.cond)
            facts.append((a, p if e.pol else not p))
            e = e.eff
        out.append((facts, e))
    return out


def checker(ctx, world):
    ctx.describe("A18", "structure of test_util's gradient checker: check_grads reaches the comparison of each requested mode at each requested order (A18.modes); every comparison pits the rule-derived quantity against the numerically derived one on the same random vectors (A18.compare); the numerical JVP is a symmetric difference with matching scale (A18.numjvp); scalar_close uses small positive tolerances (A18.tol)")
    ev = world.ev
    # ------------------------------------------------------------------ check_grads
    r, sy, m, fn, sc = eval_function(world, TU, "check_grads")
    loc = loc_of(m, fn)
    f, x, modes, order = sy["#0"], sy["#1"], sy["#2"], sy["#3"]
    effs = _effects_with_facts(sc)
    is_mode = lambda a, name: a.op == "cmp" and a.opname == "In" and a.l.op == "const" and a.l.value == name and a.r is modes
    is_deeper = lambda a: a.op == "cmp" and a.opname == "Lt" and a.l.op == "const" and a.l.value == 1 and a.r is order  # order > 1
    for mode, chk, maker, pick in (("fwd", "check_jvp", "autograd.core.make_jvp", "jvp"), ("rev", "check_vjp", "autograd.core.make_vjp", "vjp")):
        import itertools as _it

        def executes(fs, val):
            """does an effect guarded by the facts fs run under the valuation (fwd requested, rev requested, order > 1)?"""
            for a, p in fs:
                if is_mode(a, "fwd"):
                    k = 0
                elif is_mode(a, "rev"):
                    k = 1
                elif is_deeper(a):
                    k = 2
                else:
                    return None
                if val[k] != p:
                    return False
            return True

        mi = 0 if mode == "fwd" else 1
        direct = [(fs, e) for fs, e in effs if is_call_to(e, f"{TU}.{chk}")]
        ok_direct = bool(direct) and all(len(e.args) == 2 and e.args[0] is f and e.args[1] is x and not e.kw for fs, e in direct)
        for val in _it.product((True, False), repeat=3):
            runs = [executes(fs, val) for fs, e in direct]
            if any(r_ is None for r_ in runs) or sum(1 for r_ in runs if r_) != (1 if val[mi] else 0):
                ok_direct = False
        _ok(ctx, "A18.modes", f"check_grads: '{mode}' in modes -> {chk}(f, x)", ok_direct, loc, f"{TU}.check_grads:{mode}:first-order", f"check_grads does not call {chk}(f, x) exactly when '{mode}' is requested", f"a primitive whose {'JVP' if mode == 'fwd' else 'VJP'} rule is wrong: check_grads(f, modes=['{mode}']) passes")
        # recursion: check_grads(<derivative closure of this mode>, (0, 1), modes, order=order - 1)(x, v)
        ok_rec = False
        good_calls = []
        for fs, e in effs:
            if e.op != "call" or not is_call_to(e.fn, f"{TU}.check_grads"):
                continue
            inner = e.fn
            clo, pre, prekw = ev.as_closure(inner.args[0]) if inner.args else (None, None, None)
            if clo is None and inner.args and inner.args[0].op == "call":
                # the derivative closure comes out of a factory: jvp_of(f) / vjp_of(f) -> the function it returns
                made = ev.inline(inner.args[0])
                while made is not None and made.op == "seq":
                    made = made.value
                if made is not None:
                    clo, pre, prekw = ev.as_closure(made)
            if clo is None or pre or prekw:
                continue
            xs, vs = T("sym", name="x", role="param"), T("sym", name="v", role="param")
            body = unseq(expand(ev, ev.apply(clo, [xs, vs], {}, []), KEEP))
            if pick == "jvp":
                # make_jvp(f, x)(v)[1]
                good = body.op == "sub" and body.idx.op == "const" and body.idx.value == 1 and body.obj.op == "call" and is_call_to(body.obj.fn, maker) and body.obj.fn.args[0] is f and body.obj.fn.args[1] is xs and len(body.obj.args) == 1 and body.obj.args[0] is vs
            else:
                # make_vjp(f, x)[0](v)
                good = body.op == "call" and len(body.args) == 1 and body.args[0] is vs and body.fn.op == "sub" and body.fn.idx.op == "const" and body.fn.idx.value == 0 and is_call_to(body.fn.obj, maker) and body.fn.obj.args[0] is f and body.fn.obj.args[1] is xs
            if not good:
                continue
            modes_arg = inner.args[2] if len(inner.args) > 2 else inner.kw.get("modes")
            order_arg = inner.args[3] if len(inner.args) > 3 else inner.kw.get("order")
            argnum_arg = inner.args[1] if len(inner.args) > 1 else inner.kw.get("argnum")
            dec_ok = order_arg is not None and order_arg.op == "bin" and order_arg.opname == "Sub" and order_arg.l is order and order_arg.r.op == "const" and order_arg.r.value == 1
            both_args = argnum_arg is not None and argnum_arg.op in ("tuple", "list") and [getattr(z, "value", None) for z in argnum_arg.elts] == [0, 1]
            at_x = len(e.args) == 2 and e.args[0] is x
            if modes_arg is modes and dec_ok and both_args and at_x:
                good_calls.append(fs)
        ok_rec = bool(good_calls)
        for val in _it.product((True, False), repeat=3):
            runs = [executes(fs, val) for fs in good_calls]
            if any(r_ is None for r_ in runs) or sum(1 for r_ in runs if r_) != (1 if (val[mi] and val[2]) else 0):
                ok_rec = False
        _ok(ctx, "A18.modes", f"check_grads: order > 1 recurses on the {pick} closure with the same modes and order - 1", ok_rec, loc, f"{TU}.check_grads:{mode}:recursion", f"for order > 1 the '{mode}' branch does not recurse with check_grads(<{pick} of f>, (0, 1), modes, order=order - 1)(x, v)", f"a primitive whose rule is right but whose rule's own derivative is wrong: second-order check in mode '{mode}' passes")
    # ------------------------------------------------------------------ check_vjp
    r, sy, m, fn, sc = eval_function(world, TU, "check_vjp")
    loc = loc_of(m, fn)
    f, x = sy["#0"], sy["#1"]
    asserts = [unseq(expand(ev, e.cond, KEEP)) for e in sc.effects if e.op == "assert"]
    cmp_ = [a for a in asserts if is_call_to(a, f"{TU}.scalar_close") and len(a.args) == 2]
    ok = False
    if len(cmp_) == 1:
        A, B = cmp_[0].args
        mv = lambda t: is_call_to(t, "autograd.core.make_vjp") and len(t.args) == 2 and t.args[0] is f and t.args[1] is x
        is_vjp = lambda t: t.op == "sub" and mv(t.obj) and t.idx.op == "const" and t.idx.value == 0
        is_y = lambda t: t.op == "sub" and mv(t.obj) and t.idx.op == "const" and t.idx.value == 1
        vsx = lambda t: is_call_to(t, "autograd.core.vspace") and len(t.args) == 1 and t.args[0] is x
        vsy = lambda t: is_call_to(t, "autograd.core.vspace") and len(t.args) == 1 and is_y(t.args[0])
        meth = lambda t, sp, name, n: t.op == "call" and t.fn.op == "attr" and t.fn.name == name and sp(t.fn.obj) and len(t.args) == n and not t.kw
        is_randn = lambda t, sp: meth(t, sp, "randn", 0)
        numj = lambda t: is_call_to(t, f"{TU}.make_numerical_jvp") and len(t.args) == 2 and t.args[0] is f and t.args[1] is x

        def exact(t):
            # x_vs.inner_prod(x_v, x_vs.covector(vjp(y_vs.covector(y_v))))
            if not meth(t, vsx, "inner_prod", 2) or not is_randn(t.args[0], vsx):
                return None
            c = t.args[1]
            if not meth(c, vsx, "covector", 1):
                return None
            call = c.args[0]
            if not (call.op == "call" and is_vjp(call.fn) and len(call.args) == 1 and meth(call.args[0], vsy, "covector", 1) and is_randn(call.args[0].args[0], vsy)):
                return None
            return t.args[0], call.args[0].args[0]

        def numeric(t):
            # y_vs.inner_prod(y_v, jvp_numeric(x_v))
            if not meth(t, vsy, "inner_prod", 2) or not is_randn(t.args[0], vsy):
                return None
            j = t.args[1]
            if not (j.op == "call" and numj(j.fn) and len(j.args) == 1 and is_randn(j.args[0], vsx)):
                return None
            return j.args[0], t.args[0]

        for E, N in ((A, B), (B, A)):
            e_, n_ = exact(E), numeric(N)
            if e_ is not None and n_ is not None:
                # the SAME draws on both sides: <y_v, J x_v> == <J^T y_v, x_v>
                ok = e_[0] is n_[0] and e_[1] is n_[1]
    _ok(ctx, "A18.compare", "check_vjp: scalar_close(<y_v, J_num x_v>, <x_v, covector(vjp(covector(y_v)))>) on the same draws", ok, loc, f"{TU}.check_vjp:compare", "check_vjp does not assert the adjoint identity between the reverse-mode rule and the numerical JVP on one pair of random vectors", "any wrong VJP rule: the assertion compares a quantity with itself, uses independent draws on the two sides, or is not asserted")
    space_ok = any(a.op == "cmp" and a.opname == "Eq" and {True} == {True for s_ in (a.l, a.r) if is_call_to(s_, "autograd.core.vspace")} and any(is_call_to(s_, "autograd.core.vspace") and len(s_.args) == 1 and s_.args[0] is x for s_ in (a.l, a.r)) for a in asserts)
    _ok(ctx, "A18.compare", "check_vjp: the cotangent lives in the argument's space", space_ok, loc, f"{TU}.check_vjp:space", "check_vjp no longer asserts vspace(vjp result) == vspace(x)", "a VJP that returns the broadcast shape / a complex value for a real argument")
    # ------------------------------------------------------------------ check_jvp / check_equivalent
    r, sy, m, fn, sc = eval_function(world, TU, "check_jvp")
    loc = loc_of(m, fn)
    f, x = sy["#0"], sy["#1"]
    calls = [unseq(expand(ev, e, KEEP)) for e in sc.effects if e.op == "call"]
    ce = [c for c in calls if is_call_to(c, f"{TU}.check_equivalent") and len(c.args) == 2]
    ok = False
    if len(ce) == 1:
        a0, a1 = ce[0].args
        vsx = lambda t: is_call_to(t, "autograd.core.vspace") and len(t.args) == 1 and t.args[0] is x
        is_randn = lambda t: t.op == "call" and t.fn.op == "attr" and t.fn.name == "randn" and vsx(t.fn.obj) and not t.args
        exact = lambda t: t.op == "sub" and t.idx.op == "const" and t.idx.value == 1 and t.obj.op == "call" and is_call_to(t.obj.fn, "autograd.core.make_jvp") and t.obj.fn.args[0] is f and t.obj.fn.args[1] is x and len(t.obj.args) == 1 and is_randn(t.obj.args[0])
        numeric = lambda t: t.op == "call" and is_call_to(t.fn, f"{TU}.make_numerical_jvp") and t.fn.args[0] is f and t.fn.args[1] is x and len(t.args) == 1 and is_randn(t.args[0])
        for E, N in ((a0, a1), (a1, a0)):
            if exact(E) and numeric(N):
                ok = E.obj.args[0] is N.args[0]
    _ok(ctx, "A18.compare", "check_jvp: check_equivalent(make_jvp(f, x)(x_v)[1], jvp_numeric(x_v)) at the same x_v", ok, loc, f"{TU}.check_jvp:compare", "check_jvp does not compare the tangent (element [1]) of the forward-mode rule with the numerical JVP at the same direction", "any wrong JVP rule")
    r, sy, m, fn, sc = eval_function(world, TU, "check_equivalent")
    loc = loc_of(m, fn)
    a_, b_ = sy["#0"], sy["#1"]
    asserts = [unseq(expand(ev, e.cond, KEEP)) for e in sc.effects if e.op == "assert"]
    vs_of = lambda t, o: is_call_to(t, "autograd.core.vspace") and len(t.args) == 1 and t.args[0] is o
    sp = any(a.op == "cmp" and a.opname == "Eq" and ((vs_of(a.l, a_) and vs_of(a.r, b_)) or (vs_of(a.l, b_) and vs_of(a.r, a_))) for a in asserts)
    val = False
    for a in asserts:
        if is_call_to(a, f"{TU}.scalar_close") and len(a.args) == 2:
            p, q = a.args
            ip = lambda t, o: t.op == "call" and t.fn.op == "attr" and t.fn.name == "inner_prod" and len(t.args) == 2 and t.args[0] is o
            for P, Q in ((p, q), (q, p)):
                if ip(P, a_) and ip(Q, b_):
                    val = P.args[1] is Q.args[1] and P.args[1].op == "call" and P.args[1].fn.op == "attr" and P.args[1].fn.name == "randn" and (P.fn.obj is Q.fn.obj or same(P.fn.obj, Q.fn.obj))
    _ok(ctx, "A18.compare", "check_equivalent: equal spaces, and both values projected on the same random vector", sp and val, loc, f"{TU}.check_equivalent", "check_equivalent does not assert vspace(x) == vspace(y) and scalar_close(<x, v>, <y, v>) for one random v", "a wrong tangent of the right shape (value check) / a tangent of the wrong shape or kind (space check)")
    # ------------------------------------------------------------------ make_numerical_jvp
    clo, top, osy, m, ofn, osc = returned_closure(world, TU, "make_numerical_jvp")
    loc = loc_of(m, ofn)
    f, x = osy["#0"], osy["#1"]
    v = T("sym", name="v", role="param")
    body = unseq(expand(ev, ev.apply(clo, [v], {}, []), KEEP))
    ok = False
    why = "structure not recognised"
    meth2 = lambda t, name, n: t.op == "call" and t.fn.op == "attr" and t.fn.name == name and len(t.args) == n and not t.kw
    if meth2(body, "scalar_mul", 2):
        diff, s = body.args
        s_val = _num(s)
        if meth2(diff, "add", 2):
            terms = []
            for part in diff.args:
                sign = 1.0
                if meth2(part, "scalar_mul", 2) and _num(part.args[1]) is not None:
                    sign, part = _num(part.args[1]), part.args[0]
                # f(x_vs.add(x, x_vs.scalar_mul(v, c)))
                if part.op == "call" and part.fn is f and len(part.args) == 1 and meth2(part.args[0], "add", 2) and part.args[0].args[0] is x and meth2(part.args[0].args[1], "scalar_mul", 2) and part.args[0].args[1].args[0] is v:
                    c = _num(part.args[0].args[1].args[1])
                    if c is not None:
                        terms.append((sign, c))
            if len(terms) == 2 and s_val is not None:
                (s1, c1), (s2, c2) = terms
                sym_ok = abs(s1 + s2) < 1e-12 * max(1.0, abs(s1)) and abs(c1 + c2) < 1e-12 * max(1.0, abs(c1)) and c1 != 0
                # s * (s1*c1 + s2*c2) must be 1: the quotient of the symmetric difference
                scale = s_val * (s1 * c1 + s2 * c2)
                ok = bool(sym_ok and abs(scale - 1.0) < 1e-9)
                if not sym_ok:
                    why = f"the two evaluation points are not symmetric about x (offsets {c1}, {c2}; signs {s1}, {s2})"
                elif not ok:
                    why = f"the difference is scaled by {s_val}, which is not 1/(step between the two points) (product {scale})"
    _ok(ctx, "A18.numjvp", "make_numerical_jvp: (f(x + c v) - f(x - c v)) * s with s * 2c == 1", ok, loc, f"{TU}.make_numerical_jvp", f"make_numerical_jvp is not the symmetric difference quotient: {why}", "every check: a one-sided or mis-scaled difference has O(eps) / constant-factor error, so correct rules are rejected or wrong factors accepted")
    # ------------------------------------------------------------------ scalar_close
    r, sy, m, fn, sc = eval_function(world, TU, "scalar_close")
    loc = loc_of(m, fn)
    a_, b_ = sy["#0"], sy["#1"]
    r = unseq(r) if r is not None else None
    tols = []
    good_shape = False
    if r is not None:
        from ..tutil import truth

        absd = lambda t: is_call_to(t, "builtins.abs") and len(t.args) == 1 and t.args[0].op == "bin" and t.args[0].opname == "Sub" and {id(t.args[0].l), id(t.args[0].r)} == {id(a_), id(b_)}
        abss = lambda t: is_call_to(t, "builtins.abs") and len(t.args) == 1 and t.args[0].op == "bin" and t.args[0].opname == "Add" and {id(t.args[0].l), id(t.args[0].r)} == {id(a_), id(b_)}

        def kind(a):
            if a.op == "cmp" and a.opname == "Lt" and _num(a.r) is not None:
                if absd(a.l):
                    return "abs"
                if a.l.op == "bin" and a.l.opname == "Div" and absd(a.l.l) and abss(a.l.r):
                    return "rel"
            return None

        seen = {}
        for t in walk(r):
            if t.op in ("cmp",):
                a0, _p = atom(t)
                k = kind(a0)
                if k is not None:
                    seen[k] = _num(a0.r)
        tols = list(seen.values())

        def value(t, dec):
            if t.op == "if":
                c = truth(t.cond, dec)
                return None if c is None else value(t.then if c else t.other, dec)
            if t.op == "const":
                return bool(t.value) if isinstance(t.value, bool) else None
            return truth(t, dec)

        good_shape = set(seen) == {"abs", "rel"}
        for va in (True, False):
            for vr in (True, False):
                got = value(r, lambda a, va=va, vr=vr: va if kind(a) == "abs" else (vr if kind(a) == "rel" else None))
                good_shape = good_shape and got is (va or vr)
    ok = good_shape and all(0 < t_ <= 1e-4 for t_ in tols)
    _ok(ctx, "A18.tol", "scalar_close: |a-b| < TOL or |a-b|/|a+b| < RTOL with 0 < TOL, RTOL <= 1e-4", ok, loc, f"{TU}.scalar_close", f"scalar_close is not the absolute-or-relative test with small positive tolerances (found tolerances {tols})", "a rule wrong by a relative 1e-3 (test_tests plants 2.001 and 1.001): accepted when a tolerance is loose, and correct rules rejected when a tolerance is <= 0")


RNG_STATE_CALLS = {
    "numpy.random.seed", "numpy.random.set_state", "numpy.random.RandomState", "numpy.random.default_rng", "numpy.random.Generator",
    "numpy.random.SeedSequence", "random.seed", "random.setstate", "random.Random",
}


def rng_independence(ctx, world):
    """A18.rng - the checker's random probes are independent draws from one running stream: nothing inside autograd/
    re-seeds, restores or replaces the generator state (a re-seeded stream hands out THE SAME vector for every probe of
    the same shape: check_vjp then only compares <v, J v> for one fixed v, and is blind to every error that is
    antisymmetric - a transposed rule - and no longer random at all)."""
    import ast

    from ..model import norm_text

    ctx.describe("A18.rng", "no code under autograd/ seeds, restores or replaces a random generator state (numpy.random.seed / set_state / RandomState(..) / default_rng(..), random.seed ..): the probes vs.randn() of check_vjp / check_jvp / check_equivalent are successive draws of one running stream, hence distinct and independent of each other")
    n = 0

    def dotted(e):
        parts = []
        while isinstance(e, ast.Attribute):
            parts.append(e.attr)
            e = e.value
        if not isinstance(e, ast.Name):
            return None, None
        return e.id, list(reversed(parts))

    for mod in world.repo.mods.values():
        # imports anywhere in the module (also function-local ones)
        alias = {}
        for y in ast.walk(mod.tree):
            if isinstance(y, ast.Import):
                for a in y.names:
                    alias[a.asname or a.name.split(".")[0]] = a.name if a.asname else a.name.split(".")[0]
            elif isinstance(y, ast.ImportFrom) and y.module and not y.level:
                for a in y.names:
                    alias[a.asname or a.name] = f"{y.module}.{a.name}"
        for x in ast.walk(mod.tree):
            if not (isinstance(x, ast.Call) and isinstance(x.func, (ast.Name, ast.Attribute))):
                continue
            r = world.repo.resolve_expr(mod, x.func)
            q = getattr(r, "qual", None)
            if q is None or r.kind not in ("ext", "wrapped", "module"):
                root, parts = dotted(x.func)
                if root in alias:
                    q = ".".join([alias[root]] + parts)
            if q is not None and q.startswith("autograd.numpy.numpy_wrapper.random"):
                q = "numpy." + q.split("numpy_wrapper.", 1)[1]
            if q is None or not (q.startswith("numpy.random.") or q.startswith("random.")):
                continue
            n += 1
            inst = f"{mod.name}:{norm_text(x)[:60]}"
            if q in RNG_STATE_CALLS:
                ctx.fail("A18.rng", inst, f"rng:{mod.name}|{q}", loc_of(mod, x), f"`{norm_text(x)[:70]}` sets / replaces the random generator state inside the library: draws made after it repeat", "check_grads on a square linear map with a transposed rule (f(x) = A x with VJP A g): with identical probes for the input and output space only the symmetric part of the Jacobian is compared")
            else:
                ctx.ob("A18.rng", inst, True, loc_of(mod, x))
    ctx.floor("A18.rng random draws found in autograd/", n, 1)


def complex_probes(ctx, world):
    """A18.probe - check_vjp / check_jvp / check_equivalent test a rule along RANDOM directions drawn by the argument's
    and the output's vector space.  For a complex space the directions must range over all 2n real degrees of freedom:
    the real and the imaginary part come from independent draws.  A probe built from ONE draw (`(1+1j) * noise`,
    `noise * ones()`) has a fixed phase: every defect in the imaginary part of a holomorphic factor, or of real size in
    the anti-linear part, is orthogonal to all probes and accepted with probability 1."""
    from ..model import norm_text
    from ..regs import class_lookup, class_mro

    ctx.describe("A18.probe", "the random probe of the complex array space (ComplexArrayVSpace.randn) is built from at least two independent draws (two call sites of a numpy.random draw, of a helper that draws, or of another space's randn; or one site inside a loop / comprehension, or one draw with an extra leading axis of length 2) and contains an imaginary unit: real and imaginary parts vary independently")
    m = world.repo.mod("autograd.numpy.numpy_vspaces")
    cx = world.repo.resolve(m, "ComplexArrayVSpace")
    if cx is None or cx.kind != "repo":
        raise AnalysisError("numpy_vspaces.ComplexArrayVSpace vanished")
    fn = next((st for st in cx.node.body if isinstance(st, ast.FunctionDef) and st.name == "randn"), None)
    loc = loc_of(m, fn if fn is not None else cx.node)
    if fn is None:
        ctx.fail("A18.probe", "ComplexArrayVSpace.randn", "ComplexArrayVSpace.randn|inherited", loc, "ComplexArrayVSpace does not define randn: it inherits the real space's single draw (cast to the complex dtype, imaginary part zero)", "check_grads of a rule with complex arguments whose defect is in the imaginary direction")
        return
    DRAW_NAMES = ("randn", "standard_normal", "normal", "rand", "uniform", "random", "random_sample")

    def callee_def(x, mod):
        """the repo function a call runs: self.helper(..) through the class and its bases, or a module-level def"""
        f = x.func
        if isinstance(f, ast.Attribute) and isinstance(f.value, ast.Name) and f.value.id in ("self", "cls"):
            k, node = class_lookup(world.repo, cx, f.attr)
            if isinstance(node, ast.FunctionDef):
                return node, k.mod
        if isinstance(f, ast.Attribute) and isinstance(f.value, ast.Call) and isinstance(f.value.func, ast.Name) and f.value.func.id == "super":
            for k in class_mro(world.repo, cx)[1:]:
                if k.kind == "repo":
                    for st in k.node.body:
                        if isinstance(st, ast.FunctionDef) and st.name == f.attr:
                            return st, k.mod
        if isinstance(f, (ast.Name, ast.Attribute)):
            r = world.repo.resolve_expr(mod, f)
            if r is not None and r.kind == "repo" and isinstance(getattr(r, "node", None), ast.FunctionDef):
                return r.node, r.mod
        return None, None

    def is_draw(x, mod, depth=0):
        if not isinstance(x, ast.Call):
            return False
        r = world.repo.resolve_expr(mod, x.func) if isinstance(x.func, (ast.Name, ast.Attribute)) else None
        q = getattr(r, "qual", None) or ""
        if q.startswith("numpy.random.") or ".numpy_wrapper.random." in q:
            return True
        d, dm = callee_def(x, mod)
        if d is not None and d is not fn and depth < 4:
            return any(is_draw(y, dm, depth + 1) for y in ast.walk(d))
        return d is None and isinstance(x.func, ast.Attribute) and x.func.attr in DRAW_NAMES

    draws, many = [], False
    for x in ast.walk(fn):
        if not is_draw(x, m):
            continue
        draws.append(x)
        p = getattr(x, "_parent", None)
        while p is not None and p is not fn:
            if isinstance(p, (ast.For, ast.While, ast.ListComp, ast.GeneratorExp, ast.SetComp, ast.DictComp)):
                many = True
            p = getattr(p, "_parent", None)
        consts = [a.value for a in x.args if isinstance(a, ast.Constant)] + [e.value for k in x.keywords if isinstance(k.value, (ast.Tuple, ast.List)) for e in k.value.elts if isinstance(e, ast.Constant)] + [e.value for a in x.args if isinstance(a, (ast.Tuple, ast.List)) for e in a.elts if isinstance(e, ast.Constant)]
        if any(c == 2 and type(c) is int for c in consts):
            many = True  # one draw with an extra axis of length 2: both parts in one call
    has_j = any(isinstance(n, ast.Constant) and isinstance(n.value, complex) and n.value.imag != 0 for n in ast.walk(fn)) or any(isinstance(n, ast.Call) and isinstance(n.func, ast.Name) and n.func.id == "complex" for n in ast.walk(fn))
    inst = "ComplexArrayVSpace.randn"
    if (len(draws) >= 2 or many) and has_j:
        ctx.ob("A18.probe", inst, True, loc, sample=f"{len(draws)} draw site(s){' in a loop / with an extra axis' if many else ''}, imaginary unit present")
    elif not has_j:
        ctx.fail("A18.probe", inst, "ComplexArrayVSpace.randn|no-imaginary-unit", loc, "the complex probe contains no imaginary unit: its imaginary part is zero (or a copy of the real part)", "check_grads of a rule with complex arguments whose defect is in the imaginary direction")
    else:
        ctx.fail("A18.probe", inst, "ComplexArrayVSpace.randn|single-draw", loc, f"the complex probe is built from a single random draw (`{norm_text(draws[0])[:50] if draws else norm_text(fn.body[-1])[:50]}`): real and imaginary part are proportional, every probe has the same phase", "check_grads of f(z) = (2+3j) z with the rule g (2+5j): the defect 2j is orthogonal to every probe (1+1j) t")
