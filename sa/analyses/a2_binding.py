"""A2 - binding conformance between NumPy's call signature and the rule makers / argument parsers, and
between variadic primitives and their per-argnum rules."""
import ast

from .. import facts

from ..model import AnalysisError, norm_text
from ..terms import children
from .common import base_name, construct_of, deep_terms, is_numpy_callable, loc_of, project, resolve_callee


def _has_kwargs(fnode):
    return getattr(fnode, "args", None) is not None and fnode.args.kwarg is not None


def _walk_split(ev, t):
    """(terms reachable through values, terms reachable only through guards/effects)"""
    val, eff = {}, {}

    def rec(x, into, depth=0):
        if x is None or id(x) in into or depth > 400:
            return
        into[id(x)] = x
        if x.op == "seq":
            for e in x.effects:
                rec(e, eff, depth + 1)
            rec(x.value, into, depth + 1)
            return
        if x.op == "if":
            # the condition selects a path: it is a value use (it changes which result is returned)
            rec(x.cond, into, depth + 1)
            rec(x.then, into, depth + 1)
            rec(x.other, into, depth + 1)
            return
        if x.op == "arg":
            return  # defaults are not uses
        for c in children(x):
            rec(c, into, depth + 1)
        if x.op == "call":
            r = ev.inline(x)
            if r is not None:
                rec(r, into, depth + 1)

    rec(t, val)
    return val, eff


def catchall(ctx, world):
    ctx.describe(
        "A2.catchall",
        "a maker / argument parser that swallows unknown keywords (**kwargs) and names NumPy parameters names them with NumPy's name at NumPy's position, for every named parameter whose value reaches the rule's result (guard-only uses are NOTEs)",
    )
    n = 0
    done = set()
    for e in world.table.entries:
        if e.spec != "maker" or not world.in_numpy_scope(e) or not is_numpy_callable(e.prim):
            continue
        ir = world.ir(e)
        if ir is None or not ir.ok:
            continue
        sig = world.env.signature(e.prim.qual)
        if sig is None:
            continue
        val, eff = _walk_split(world.ev, ir.result)
        if ir.made is not None:
            v2, e2 = _walk_split(world.ev, ir.made)
            val.update(v2)
            eff.update(e2)
        shift = 1  # positions are relative to the primitive's arguments
        cands = {}
        for store, live in ((val, True), (eff, False)):
            for x in store.values():
                if x.op != "arg" or x.get("via") != "fwd" or x.get("name") is None or not isinstance(x.index, int):
                    continue
                fnode = x.node
                if not _has_kwargs(fnode):
                    continue
                key = (id(fnode), x.name, x.index)
                cands.setdefault(key, [x, fnode, False])
                cands[key][2] = cands[key][2] or live
        for (fid, pname, idx), (x, fnode, live) in sorted(cands.items(), key=lambda kv: (kv[0][2], kv[0][1])):
            want = sig["pos"][idx] if idx < len(sig["pos"]) else None
            fname = getattr(fnode, "name", "<lambda>")
            inst = f"{e.prim_id}:{fname}.{pname}@{idx}"
            if (e.prim_id, fid, pname, idx) in done:
                continue
            done.add((e.prim_id, fid, pname, idx))
            n += 1
            if want is None or want not in sig["defaults"]:
                # required NumPy parameters are the (positional) array operands: a boxed value can only be
                # traced positionally, and omitting a required positional is a TypeError
                ctx.ob("A2.catchall", inst, True, e.loc, nontrivial=False)
                continue
            if want == pname:
                ctx.ob("A2.catchall", inst, True, e.loc, sample=f"{fname}.{pname} == numpy name at position {idx}")
                continue
            if not live:
                ctx.ob("A2.catchall", inst, True, e.loc, nontrivial=False)
                ctx.note(f"A2.catchall (guard-only): {fname} names NumPy parameter '{want}' of {e.prim_id} as '{pname}'; only a guard reads it")
                continue
            ctx.fail(
                "A2.catchall",
                inst,
                f"{e.mode}:{e.prim_id}|{fname}.{pname}!={want}",
                f"{x.mod.relpath if x.mod else e.mod.relpath}:{getattr(fnode, 'lineno', '?')}",
                f"{fname} binds NumPy's parameter '{want}' (position {idx} of {e.prim_id}) to its own parameter '{pname}' and swallows unknown keywords: the keyword form {want}=... never reaches '{pname}', the positional form does",
                f"the same call written with the keyword form: {base_name(e.prim)}(x, {want}=...)",
            )
    ctx.floor("A2.catchall parameters checked", n, 20)


# ------------------------------------------------------------------------------------------ variadic offsets
def _fixed_params(ref):
    node = ref.node
    if isinstance(node, ast.FunctionDef) and node.args.vararg is not None:
        return len(node.args.posonlyargs) + len(node.args.args)
    return None


def _argnum_offsets(ev, t):
    """constants c such that the term contains  argnum - c  (or an additive chain  ... + argnum - c)"""
    out = []
    for x in deep_terms(ev, t):
        if x.op == "bin" and x.opname in ("Sub", "Add"):
            # flatten additive chain at its root only
            terms = []

            def flat(y, sign):
                if y.op == "bin" and y.opname in ("Add", "Sub"):
                    flat(y.l, sign)
                    flat(y.r, sign if y.opname == "Add" else -sign)
                else:
                    terms.append((sign, y))

            flat(x, 1)
            has = [s for s, y in terms if y.op == "sym" and y.get("role") == "argnum"]
            if has and has[0] == 1:
                c = 0
                ok = True
                for s, y in terms:
                    if y.op == "const" and isinstance(y.value, int):
                        c += s * y.value
                out.append((-c, x))
    # keep only maximal chains: drop offsets computed from sub-chains of a reported chain
    res = []
    for c, x in out:
        par = getattr(x.node, "_parent", None)
        if isinstance(par, ast.BinOp) and isinstance(par.op, (ast.Add, ast.Sub)):
            continue
        res.append((c, x))
    return res


def variadic(ctx, world):
    ctx.describe("A2.variadic", "for a variadic primitive def P(f1..fm, *rest) with per-argnum rules, every index of the form argnum - c has c == m, and every slice of the argument tuple starts at m")
    n = 0
    for e in world.table.entries:
        if e.api not in ("defvjp_argnum", "defjvp_argnum") or e.spec != "maker" or not world.in_numpy_scope(e):
            continue
        m = _fixed_params(e.prim) if e.prim.kind in ("repo", "classattr") else None
        if m is None:
            continue
        ir = world.ir(e)
        if ir is None or not ir.ok:
            ctx.ob("A2.variadic", construct_of(e), None, e.loc)
            continue
        offs = _argnum_offsets(world.ev, ir.result)
        # a chain used as the EXCLUSIVE upper bound of a slice of the argument tuple (args[s:][: argnum - c]) denotes the
        # last included absolute position s + argnum - c - 1, which has to be argnum itself: c == s - 1
        hi_ok = []
        for x in deep_terms(world.ev, ir.result):
            if x.op == "sub" and x.idx.op == "slice" and x.obj.op == "rest":
                for c_, ch in offs:
                    if x.idx.hi is ch:
                        hi_ok.append((ch, c_ == x.obj.start - 1))
        if hi_ok:
            offs = [(c_, ch) for c_, ch in offs if not any(h is ch and good for h, good in hi_ok)]
        starts = []
        for x in deep_terms(world.ev, ir.result):
            if x.op == "rest" and x.start > 0:
                starts.append((x.start, x))
        inst = construct_of(e)
        if not offs and not starts:
            ctx.ob("A2.variadic", inst, True, e.loc, nontrivial=False)
            continue
        n += 1
        bad = [(c, x) for c, x in offs if c != m] + [(s, x) for s, x in starts if s != m]
        if bad:
            c, x = bad[0]
            ctx.fail(
                "A2.variadic",
                inst,
                f"{e.mode}:{e.prim_id}|offset",
                e.loc,
                f"{e.prim_id} has {m} fixed leading parameter(s) but the rule selects with offset {c} (`{norm_text(x.node) if x.node is not None else '?'}`): the cotangent/tangent of a neighbouring argument is routed to this one",
                "two or more differentiated variadic arguments with different values",
            )
        else:
            ctx.ob("A2.variadic", inst, True, e.loc, sample=f"m={m}; offsets {[c for c, _ in offs]} slice starts {[s for s, _ in starts]}")
    ctx.floor("A2.variadic instances", n, 5)


# ------------------------------------------------------------------------------------------ whole-argnums rules
def argnums_rules(ctx, world):
    """defvjp_argnums / defjvp_argnums hand the rule the WHOLE tuple of differentiated positions, which is an
    arbitrary increasing subsequence of the argument positions (a constant may sit between two traced arguments).
    A VJP rule must return one cotangent per entry, in that order: its result has to be an element-wise mapping
    over `argnums` (comprehension / loop / map over argnums, possibly zipped).  Reading argnums[0] / argnums[-1]
    / len(argnums) to cut a contiguous span out of g assumes the positions are adjacent."""
    from ..tutil import unseq
    from ..terms import walk as _walk

    ctx.describe("A2.argnums", "a rule registered with defvjp_argnums maps over the tuple of differentiated positions element-wise (one cotangent per entry, in order); it does not derive a span from argnums[0]/argnums[-1]/len(argnums); a defjvp_argnums rule sums one contribution per (argnum, tangent) pair of zip(argnums, gs)")
    n = 0
    for e in world.table.entries:
        if e.api not in ("defvjp_argnums", "defjvp_argnums") or e.spec != "maker" or not world.in_numpy_scope(e):
            continue
        ir = world.ir(e)
        inst = construct_of(e)
        if ir is None or not ir.ok:
            ctx.ob("A2.argnums", inst, None, e.loc)
            continue
        n += 1
        res = unseq(ir.result) if ir.result is not None else None
        is_argnums = lambda t: t.op == "sym" and t.get("role") == "argnums"

        def over_argnums(src):
            if is_argnums(src):
                return True
            if src.op == "call" and src.fn.op == "ref" and src.fn.ref.qual in ("builtins.zip", "builtins.enumerate") and any(is_argnums(a) for a in src.args):
                return True
            return False

        t = res
        while t is not None and t.op == "call" and t.fn.op == "ref" and t.fn.ref.qual in ("builtins.tuple", "builtins.list", "autograd.core.sum_outgrads") and len(t.args) == 1:
            t = t.args[0]
        ok = t is not None and ((t.op == "comp" and over_argnums(t.src) and not t.conds) or (t.op == "call" and t.fn.op == "ref" and t.fn.ref.qual == "builtins.map" and any(is_argnums(a) for a in t.args[1:])))
        positional = [x for x in (_walk(res) if res is not None else []) if x.op == "sub" and is_argnums(x.obj) and x.idx.op == "const"]
        if ok and not positional:
            ctx.ob("A2.argnums", inst, True, e.loc)
        else:
            why = (f"it reads `argnums[{positional[0].idx.value}]` to address the cotangents" if positional else "its result is not an element-wise mapping over argnums")
            ctx.fail("A2.argnums", inst, f"{e.mode}:{e.prim_id}|argnums-span", e.loc, f"the whole-argnums rule of {e.prim_id} does not produce one result per differentiated position: {why} (the differentiated positions need not be adjacent)", "a call in which a constant (or a value of an outer differentiation level) sits between two traced arguments")
    ctx.ob("A2.argnums", "every whole-argnums rule maps over argnums", True, "autograd/*", nontrivial=False)


# ------------------------------------------------------------------------------------------ layout of sequence_extend
def layout(ctx, world):
    ctx.describe("A2.layout", "sequence_extend_right/left: the primitive's body fixes the segment layout ([SEQ, ELTS] or [ELTS, SEQ]); the VJP slice for argnum 0 and the element index for argnum k select exactly those segments (linear index forms over len(seq), len(elts), argnum)")
    m = world.repo.mod("autograd.builtins")
    found = 0
    for name in ("sequence_extend_right", "sequence_extend_left"):
        ref = world.repo.resolve(m, name)
        if ref is None or ref.kind != "repo" or not isinstance(ref.node, ast.FunctionDef):
            continue  # concatenation is implemented by other primitives: their wiring is decided by A14.containers
        found += 1
        fn = ref.node
        seqp = fn.args.args[0].arg
        rets = [s for s in ast.walk(fn) if isinstance(s, ast.Return)]
        if len(rets) != 1 or not isinstance(rets[0].value, ast.BinOp) or not isinstance(rets[0].value.op, ast.Add):
            ctx.ob("A2.layout", name, None, loc_of(m, fn))
            continue
        l, r = rets[0].value.left, rets[0].value.right
        if isinstance(l, ast.Name) and l.id == seqp:
            lay = "SEQ,ELTS"
        elif isinstance(r, ast.Name) and r.id == seqp:
            lay = "ELTS,SEQ"
        else:
            ctx.ob("A2.layout", name, None, loc_of(m, fn))
            continue
        ents = [e for e in world.table.entries if e.prim_id == ref.qual and e.mode == "vjp" and e.spec == "maker"]
        if not ents:
            ctx.fail("A2.layout", name, f"layout:{name}:norule", loc_of(m, fn), f"{name} has no VJP rule", "grad through tuple/list concatenation")
            continue
        jents = [e for e in world.table.entries if e.prim_id == ref.qual and e.mode == "jvp" and e.spec == "maker"]
        for e, tag in [(ents[-1], "")] + ([(jents[-1], ":jvp")] if jents else []):
            _layout_one(ctx, world, name + tag, name, lay, e)
    if not found:
        ctx.ob("A2.layout", "no variadic sequence_extend primitive in builtins (concatenation wiring: A14.containers)", True, "autograd/builtins.py", nontrivial=False)


def _layout_one(ctx, world, name, prim_name, lay, e):
    """one rule (the gather g[idx] of the VJP, or the scatter untake(g, idx, space) of a JVP) against the layout"""
    for _ in (0,):
        ir = world.ir(e)
        if ir is None or not ir.ok:
            ctx.ob("A2.layout", name, None, e.loc)
            continue
        forms = _index_forms(world.ev, ir.result)
        if forms is None:
            ctx.ob("A2.layout", name, None, e.loc)
            continue
        f0, fk = forms
        if lay == "SEQ,ELTS":
            want0, wantk = ("slice", (0, 0, 0, 0), (1, 0, 0, 0)), ("index", (1, 0, 1, -1))
        else:
            want0, wantk = ("slice", (0, 1, 0, 0), None), ("index", (0, 0, 1, -1))
        # an element INDEX counted from the end (form - (len(seq)+len(elts))) denotes the same element; a slice
        # BOUND counted from the end does not (g[:-0] is empty), so slices must match exactly
        if fk[0] == "index" and isinstance(fk[1], tuple) and isinstance(wantk[1], tuple) and tuple(a + b for a, b in zip(fk[1], (1, 1, 0, 0))) == wantk[1]:
            fk = wantk
        ok = f0 == want0 and fk == wantk
        if not ok and ("?" in str(f0) or "?" in str(fk)):
            ctx.ob("A2.layout", name, None, e.loc, sample=f"index forms not linear in len(seq), len(elts), argnum: {f0} {fk}")
            continue
        if ok:
            ctx.ob("A2.layout", name, True, e.loc, sample=f"layout [{lay}] argnum0={f0} argnumk={fk}")
        else:
            ctx.fail(
                "A2.layout",
                name,
                f"layout:{name}",
                e.loc,
                f"the primitive lays its result out as [{lay}] but the rule selects argnum 0 with {f0} and element k with {fk} (expected {want0} / {wantk}); forms are (a*len(seq) + b*len(elts) + c*argnum + d)",
                "a sequence of length >= 2 extended by >= 2 elements, all differentiated",
            )


def _lin(t, names):
    """linear form (S, E, A, const) of an index term or None"""
    if t.op == "const":
        if t.value is None:
            return None
        if isinstance(t.value, int):
            return (0, 0, 0, t.value)
        return "?"
    if t.op == "sym" and t.get("role") == "argnum":
        return (0, 0, 1, 0)
    if t.op == "call" and t.fn.op == "ref" and t.fn.ref.qual == "builtins.len" and len(t.args) == 1:
        a = t.args[0]
        if a.op == "arg" and a.index == 0:
            return (1, 0, 0, 0)
        if a.op == "rest" and a.start == 1:
            return (0, 1, 0, 0)
        if a.op == "sym" and a.get("role") == "g":
            return (1, 1, 0, 0)  # the cotangent has the structure of the result: len(seq) + len(elts)
        return "?"
    if t.op == "un" and t.opname == "USub":
        a = _lin(t.x, names)
        if a in (None, "?"):
            return "?"
        return tuple(-x for x in a)
    if t.op == "bin" and t.opname in ("Add", "Sub"):
        a, b = _lin(t.l, names), _lin(t.r, names)
        if a in (None, "?") or b in (None, "?"):
            return "?"
        s = 1 if t.opname == "Add" else -1
        return tuple(x + s * y for x, y in zip(a, b))
    return "?"


def _index_forms(ev, result):
    """(form for argnum == 0, form for argnum != 0) from  if(argnum == 0 ? g[slice] : g[index])"""
    from ..terms import T

    t = result
    while t.op == "seq":
        t = t.value

    def is_g(x):
        return x.op == "sym" and x.get("role") == "g"

    def untake_idx(x):
        """the index of a scatter container_untake(g, idx, space) (the forward-mode twin of g[idx])"""
        if x.op == "call" and len(x.args) >= 2 and is_g(x.args[0]):
            r, _ = resolve_callee(ev, x)
            if r is not None and r.qual.rsplit(".", 1)[-1] in ("container_untake", "untake"):
                return x.args[1]
        return None

    ui = untake_idx(t)
    if t.op != "if" and ui is not None:
        while ui.op == "seq":
            ui = ui.value
        if ui.op == "if":
            # untake(g, i0 if argnum == 0 else ik, ..)  ==  untake(g, i0, ..) if argnum == 0 else untake(g, ik, ..)
            mk = lambda i_: T("call", t.node, t.mod, fn=t.fn, args=[t.args[0], i_] + list(t.args[2:]), kw=t.kw, dstar=t.get("dstar", []))
            t = T("if", ui.node, ui.mod, cond=ui.cond, then=mk(ui.then), other=mk(ui.other))
    if t.op != "if":
        return None
    c = t.cond
    if not (c.op == "cmp" and c.opname == "Eq" and c.l.op == "sym" and c.l.get("role") == "argnum" and c.r.op == "const" and c.r.value == 0):
        return None

    def form(x):
        while x.op == "seq":
            x = x.value
        ui_ = untake_idx(x)
        if ui_ is not None:
            i = ui_
        elif x.op != "sub" or not is_g(x.obj):
            return ("?",)
        else:
            i = x.idx
        while i.op == "seq":
            i = i.value
        if i.op == "call" and i.fn.op == "ref" and i.fn.ref.qual == "builtins.slice" and 1 <= len(i.args) <= 3 and not i.kw:
            # slice(hi) / slice(lo, hi[, step]) written as a call
            none_ = T("const", i.node, i.mod, value=None)
            lo_, hi_ = (none_, i.args[0]) if len(i.args) == 1 else (i.args[0], i.args[1])
            i = T("slice", i.node, i.mod, lo=lo_, hi=hi_, step=i.args[2] if len(i.args) == 3 else none_)
        if i.op == "slice":
            lo, hi = _lin(i.lo, None), _lin(i.hi, None)
            lo = (0, 0, 0, 0) if lo is None else lo
            return ("slice", lo, hi)
        return ("index", _lin(i, None))

    return form(t.then), form(t.other)


def positional_selection(ctx, world):
    """A2.slot-by-position: a rule of a variadic primitive (defvjp_argnum / defjvp_argnum and the whole-argnums
    forms) finds "its" operand by POSITION (an index compared with argnum).  Selecting it by identity or equality of
    operand values (`arr is args[argnum]`, `arr == target`) also matches every other position that holds the same
    object - f(x, x), or a constant that happens to be the evaluation point."""
    from ..terms import walk as _walk
    from ..tutil import expand, unseq

    ctx.describe("A2.position", "inside the rule of a variadic primitive no comparison by identity / equality has operand values on BOTH sides (`arr is args[argnum]`): the differentiated slot is addressed by its index; a call such as concatenate((x, x)) holds one object in two positions")
    n = 0
    for e in world.table.entries:
        if e.api not in ("defvjp_argnum", "defjvp_argnum", "defvjp_argnums", "defjvp_argnums") or e.spec != "maker" or not world.in_numpy_scope(e):
            continue
        ir = world.ir(e)
        inst = construct_of(e)
        if ir is None or not ir.ok:
            continue
        n += 1
        res = unseq(expand(world.ev, ir.result, ())) if ir.result is not None else None
        made = unseq(expand(world.ev, ir.made, ())) if ir.made is not None and ir.made is not ir.result else None

        def operand(t):
            """a value taken from the primitive's positional arguments (not an index, length, shape or constant)"""
            if t.op in ("const", "sym"):
                return False
            if t.op == "call" or t.op == "attr":
                return False  # len(..), shape(..), x.ndim ...: derived scalars
            has_args = False
            for x in _walk(t):
                if x.op in ("rest", "arg") or (x.op == "sym" and x.get("role") in ("args",)):
                    has_args = True
            return has_args

        bad = None
        for root in (res, made):
            if root is None:
                continue
            for x in _walk(root):
                if x.op == "cmp" and x.opname in ("Is", "IsNot", "Eq", "NotEq") and operand(x.l) and operand(x.r) and bad is None:
                    bad = x
        if bad is None:
            ctx.ob("A2.position", inst, True, e.loc)
        else:
            from ..model import norm_text

            txt = norm_text(bad.node)[:60] if bad.node is not None else str(bad)[:60]
            ctx.fail("A2.position", inst, f"{e.mode}:{e.prim_id}|operand-identity", e.loc, f"the rule decides with `{txt}`, a comparison of two operand VALUES, which slot it differentiates: every position holding the same object is selected", "the primitive called with the same array in two positions (concatenate((x, x)), vstack((X, X))) or with a constant that is the evaluation point itself")
    ctx.floor("A2.position variadic rules", n, 4)


def forwarded_defaults(ctx, world):
    """A2.fwd - a rule that hands the primitive's own remaining arguments (*args, **kwargs) on to ANOTHER NumPy
    function binds them by position and by name in that function's signature.  Whatever the caller left at its
    default is defaulted by the callee instead: the two signatures have to agree on the name and the default of every
    parameter that can be reached that way (rfft2(x) forwards to irfft2, whose axes default is (-2, -1) too; irfftn's
    is None = all axes)."""
    from ..terms import walk as _walk
    from ..tutil import expand, unseq

    ctx.describe("A2.fwd", "where a rule forwards the primitive's remaining positional arguments and keywords (*args, **kwargs) to another NumPy function, every forwarded position has the same parameter name in both signatures and every parameter the two signatures share has the same default (NumPy's real signatures, by introspection)")
    n = 0
    for e in world.table.entries:
        if e.spec != "maker" or not world.in_numpy_scope(e) or not is_numpy_callable(e.prim):
            continue
        psig = world.env.signature(e.prim.qual)
        if not psig:
            continue
        ir = world.ir(e)
        if ir is None or not ir.ok:
            continue
        seen_calls = []
        for root in (ir.made, ir.result):
            if root is None:
                continue
            for t in _walk(unseq(expand(world.ev, root, ()))):
                if t.op != "call" or any(t is c for c in seen_calls):
                    continue
                stars = [(i, a) for i, a in enumerate(t.args) if a.op == "star" and a.x.op == "rest"]
                fwd_kw = any(d.op == "kwrest" for d in t.get("dstar", []))
                if not stars and not fwd_kw:
                    continue
                ref, pre = resolve_callee(world.ev, t)
                if ref is None or not is_numpy_callable(ref) or ref.qual == e.prim.qual:
                    continue
                qsig = world.env.signature(ref.qual)
                if not qsig:
                    continue
                seen_calls.append(t)
                n += 1
                inst = f"{construct_of(e)} -> {base_name(ref)}"
                bad = None
                npre = len(pre)
                for i, a in stars:
                    # P's positional index k >= start arrives at Q's positional index (npre + i) + (k - start)
                    for k in range(a.x.start, len(psig["pos"])):
                        j = npre + i + (k - a.x.start)
                        pn = psig["pos"][k]
                        if j >= len(qsig["pos"]):
                            break
                        qn = qsig["pos"][j]
                        if pn != qn and bad is None:
                            bad = f"positional argument {k} (`{pn}`) of {base_name(e.prim)} arrives as `{qn}` of {base_name(ref)}"
                if fwd_kw or stars:
                    for pn in psig["pos"] + psig["kwonly"]:
                        if pn in (qsig["pos"] + qsig["kwonly"]) and pn in psig["defaults"] and pn in qsig["defaults"]:
                            dp, dq = psig["defaults"][pn], qsig["defaults"][pn]
                            same = (dp is dq) or (type(dp) is type(dq) and repr(dp) == repr(dq))
                            if not same and bad is None:
                                bad = f"`{pn}` defaults to {dp!r} in {base_name(e.prim)} but to {dq!r} in {base_name(ref)}: a caller who leaves it out gets the callee's default"
                if bad is None:
                    ctx.ob("A2.fwd", inst, True, e.loc)
                else:
                    ctx.fail("A2.fwd", inst, f"{e.mode}:{e.prim_id}|fwd:{base_name(ref)}", e.loc, f"the rule forwards (*args, **kwargs) of {base_name(e.prim)} to {base_name(ref)}, but {bad}", f"{base_name(e.prim)} called with the affected parameter left at its default on an input where the two defaults differ (e.g. a stack of 2-D signals for rfft2)")
    ctx.floor("A2.fwd forwarding calls", n, 4)


def dropped_options(ctx, world, modes=("vjp", "jvp")):
    """A2.drop - an option of the primitive that a rule hands on to a NumPy function at all must be handed on
    completely: when the rule passes some of the primitive's optional parameters to the same-named parameters of a
    callee, every other optional parameter the two signatures share (and the rule receives) has to be passed too -
    otherwise the callee runs with ITS default while the forward pass ran with the caller's value
    (sort(x, kind="stable") differentiated through argsort(x, axis=axis, order=order))."""
    from ..terms import walk as _walk
    from ..tutil import expand, unseq

    ctx.describe("A2.drop", "a call inside a rule that receives at least one optional parameter of the primitive under the same name in the callee's signature also receives every other optional parameter the two NumPy signatures share, unless the rule consults that parameter elsewhere: an option that the rule binds, that the callee takes and that the rule never looks at has been dropped")
    n = 0
    for e in world.table.entries:
        if e.mode not in modes or e.spec != "maker" or not world.in_numpy_scope(e) or not is_numpy_callable(e.prim):
            continue
        psig = world.env.signature(e.prim.qual)
        ir = world.ir(e)
        if not psig or ir is None or not ir.ok or ir.maker is None:
            continue
        popt = [p for p in psig["pos"] + psig["kwonly"] if p in psig["defaults"]]
        if not popt:
            continue
        ma = ir.maker.fnode.args
        bound = {a.arg for a in ma.posonlyargs + ma.args + ma.kwonlyargs}
        # an option the rule consults anywhere (a recursion count, a guard, another call) is not "dropped": only an
        # option the rule never looks at, although the callee takes it, is
        used_anywhere = set()
        for root in (ir.made, ir.result):
            if root is not None:
                for x in _walk(unseq(expand(world.ev, root, ()))):
                    if x.op == "arg" and x.get("name"):
                        used_anywhere.add(x.name)
        for root in (ir.made, ir.result):
            if root is None:
                continue
            for t in _walk(unseq(expand(world.ev, root, ()))):
                if t.op != "call":
                    continue
                ref, pre = resolve_callee(world.ev, t)
                if ref is None or not is_numpy_callable(ref):
                    continue
                qsig = world.env.signature(ref.qual)
                if not qsig:
                    continue
                if any(a.op == "star" for a in t.args) or t.get("dstar"):
                    continue  # forwarding of the whole argument list: A2.fwd
                # which parameters of the callee are bound by this call, and by what
                binding = {}
                for i, a in enumerate(list(pre) + list(t.args)):
                    if i < len(qsig["pos"]):
                        binding[qsig["pos"][i]] = a
                for k, v in t.kw.items():
                    binding[k] = v
                is_popt = lambda a, name: a.op == "arg" and a.get("name") == name
                handed = [p for p in popt if p in binding and is_popt(binding[p], p)]
                if not handed:
                    continue
                n += 1
                additive = set(facts.load("linear_in").get("affine_options", {}).get(base_name(ref), []))  # must NOT be handed on to a call on the (co)tangent
                shared = [p for p in popt if p in (qsig["pos"] + qsig["kwonly"]) and p in qsig["defaults"] and p in bound and p not in ("out", "dtype", "where", "casting", "subok") and p not in additive]
                missing = [p for p in shared if p not in binding and p not in used_anywhere]
                inst = f"{construct_of(e)} -> {base_name(ref)}({', '.join(handed)})"
                if not missing:
                    ctx.ob("A2.drop", inst, True, e.loc)
                else:
                    ctx.fail("A2.drop", inst, f"{e.mode}:{e.prim_id}|drop:{base_name(ref)}:{missing[0]}", e.loc, f"the rule hands `{', '.join(handed)}` of {base_name(e.prim)} on to {base_name(ref)} but not `{missing[0]}`, which both functions take: the callee uses its own default ({qsig['defaults'][missing[0]]!r})", f"{base_name(e.prim)} called with {missing[0]}= a value other than the default")
    ctx.floor(f"A2.drop option-forwarding calls ({'+'.join(modes)})", n, 10 if "vjp" in modes else 4)


# option names that cannot change the linear map a rule has to implement (storage / precision of the forward result)
_MAP_NEUTRAL_OPTIONS = {"out", "dtype", "subok", "casting", "like"}
# (primitive base name, parameter) pairs confirmed by reading: the rule is right although it never looks at the option
_IGNORED_OK = {
    ("*", "keepdims"): "the shape of the cotangent under both keepdims values is decided by A3.reduce; the rules reshape it to the keepdims=True shape computed from the argument's shape and axis",
    ("squeeze", "axis"): "the cotangent is reshaped to the argument's own shape, which undoes every squeeze",
    ("pad", "**"): "constant_values / end_values shift the result by a constant: the derivative w.r.t. the padded array does not depend on them (mode itself is asserted)",
    ("sum", "initial"): "an additive constant (facts/linear_in.json affine_options): the derivative does not depend on it, and it must NOT reach the sum of the tangents",
}


def ignored_options(ctx, world, modes=("vjp", "jvp")):
    """A2.ignored - a rule that NAMES an optional parameter of its primitive accepts calls that set it.  A named option
    that no path of the rule ever reads (no guard, no call, no shape arithmetic) is accepted and ignored: the forward
    pass ran with the caller's value, the derivative is computed as if it had its default.  The same holds for a
    **kwargs catch-all that is never forwarded or inspected."""
    from ..terms import walk as _walk
    from ..tutil import expand

    ctx.describe("A2.ignored", "every optional NumPy parameter that a rule binds by name (or swallows in **kwargs) is read somewhere in the rule - in a guard, a call or an index computation - unless it is another differentiable operand, a storage/precision option (out, dtype, subok, casting, like) or a confirmed exception; a rule that accepts an option and never looks at it differentiates a different call than the one that ran")
    n = 0
    diff_pos = {}
    for e in world.table.entries:
        if isinstance(e.argnum, int):
            diff_pos.setdefault(e.prim_id, set()).add(e.argnum)
    for e in world.table.entries:
        if e.mode not in modes or e.spec != "maker" or not world.in_numpy_scope(e) or not is_numpy_callable(e.prim):
            continue
        if e.api not in ("defvjp", "defjvp"):
            continue
        psig = world.env.signature(e.prim.qual)
        ir = world.ir(e)
        if not psig or ir is None or not ir.ok or ir.maker is None or not isinstance(ir.maker.fnode, (ast.FunctionDef, ast.Lambda)):
            continue
        ma = ir.maker.fnode.args
        names = [a.arg for a in ma.posonlyargs + ma.args]
        skip = len(ir.pre) + (1 if e.mode == "vjp" else 2)
        mpos = names[skip:]
        kwonly = [a.arg for a in ma.kwonlyargs]
        popt = {p for p in psig["pos"] + psig["kwonly"] if p in psig["defaults"]}
        used_names, used_idx, kwrest_seen = set(), set(), False
        for root in (ir.made, ir.result):
            if root is None:
                continue
            for x in _walk(expand(world.ev, root, ())):
                if x.op == "arg":
                    if x.get("name"):
                        used_names.add(x.name)
                    if x.get("index") is not None:
                        used_idx.add(x.index)
                elif x.op == "kwrest":
                    kwrest_seen = True
        bn = base_name(e.prim)
        cands = []
        for k, m_ in enumerate(mpos):
            pk = psig["pos"][k] if k < len(psig["pos"]) else None
            if (m_ in popt or (pk is not None and pk in popt)) and k not in diff_pos.get(e.prim_id, ()):
                # keyword calls reach the parameter under the maker's own name, positional calls under NumPy's
                cands.append((m_, m_ if m_ in popt else pk, k))
        for m_ in kwonly:
            if m_ in popt:
                cands.append((m_, m_, None))
        for m_, p, k in cands:
            inst = f"{construct_of(e)}:{p}"
            n += 1
            if m_ in used_names or (k is not None and k in used_idx):
                ctx.ob("A2.ignored", inst, True, e.loc)
            elif p in _MAP_NEUTRAL_OPTIONS or m_ in _MAP_NEUTRAL_OPTIONS or (bn, p) in _IGNORED_OK or ("*", p) in _IGNORED_OK:
                ctx.ob("A2.ignored", inst, True, e.loc, nontrivial=False, sample="exempt: " + (_IGNORED_OK.get((bn, p)) or _IGNORED_OK.get(("*", p)) or "storage / precision option"))
            else:
                ctx.fail("A2.ignored", inst, f"{e.mode}:{e.prim_id}|ignored:{p}", e.loc, f"the rule accepts `{m_}` (NumPy's `{p}` of {bn}) but no path of it reads the value: a call that sets it is differentiated as if it had been left at its default", f"{bn} called with {p}= a value other than the default")
        if ma.kwarg is not None:
            inst = f"{construct_of(e)}:**{ma.kwarg.arg}"
            n += 1
            if kwrest_seen or (bn, "**") in _IGNORED_OK:
                ctx.ob("A2.ignored", inst, True, e.loc, nontrivial=kwrest_seen)
            else:
                ctx.fail("A2.ignored", inst, f"{e.mode}:{e.prim_id}|ignored:**", e.loc, f"the rule swallows every remaining keyword of {bn} in **{ma.kwarg.arg} and never forwards or inspects them", f"{bn} called with any further option")
    ctx.floor(f"A2.ignored named options ({'+'.join(modes)})", n, 40 if "vjp" in modes else 15)
