"""A3.reduce - shape classes for rules of axis reductions (sum, mean, prod, var, std, max/min, linalg.norm).
Classes: S (scalar / broadcast-safe), F (full: the shape of the reduced argument), R (reduced: the shape of the
result when an axis is given without keepdims), T (unknown / differs between paths).  An elementwise
combination of a definitely-F with a definitely-R operand is a hazard: NumPy aligns the reduced array on the
right, which raises for most shapes and silently mis-pairs entries when dimensions coincide.  The accepted ways
from R to F are expand_dims, repeat_to_match_shape and reductions with keepdims=True; under the path fact
`axis is None` an R value is a scalar."""
from .. import facts
from ..model import norm_text
from .common import base_name, construct_of, is_numpy_callable, project, resolve_callee

REDUCTIONS = {"sum", "mean", "prod", "var", "std", "max", "min", "amax", "amin", "linalg.norm", "nansum", "nanmean", "any", "all", "median", "ptp"}
REINDEX = {"swapaxes", "moveaxis", "rollaxis", "transpose", "flip", "roll", "conj", "conjugate", "real", "imag", "negative", "copy", "abs", "absolute"}


def jn(a, b):
    if a == b:
        return a
    if a == "S":
        return b
    if b == "S":
        return a
    return "T"


class ShapeClass:
    def __init__(self, world, mode, axis_names):
        self.world, self.ev, self.mode = world, world.ev, mode
        self.axis_names = axis_names
        self.memo = {}
        self.hazards = []
        self.scalar = False  # path fact: the reduced argument is a 0-d value (isscalar(x) / ndim(x) == 0 holds)
        self.kd = None  # path fact: the primitive was called with keepdims=True / False (None: not known on this path)
        self.elem = set(facts.load("broadcasting")["elementwise_functions"]) - {"_doc"}

    def of(self, t, none=False):
        if t is None:
            return "S"
        k = (id(t), none, self.scalar, self.kd)
        if k in self.memo:
            return self.memo[k][1]
        self.memo[k] = (t, "T")
        r = self._of(t, none)
        self.memo[k] = (t, r)
        return r

    def mix(self, t, cs):
        cs = [c for c in cs if c != "S"]
        if not cs:
            return "S"
        if "T" not in cs and "R" not in cs and "K" in cs:
            return "F" if "F" in cs else "K"  # size-1 axes broadcast against the full shape
        if ("F" in cs or "K" in cs) and "R" in cs:
            txt = norm_text(t.node) if t.node is not None else "?"
            if txt not in [h[0] for h in self.hazards]:
                self.hazards.append((txt, t.line))
            return "T"
        if "T" in cs:
            return "T"
        return cs[0]

    def is_axis(self, t):
        return t.op == "arg" and t.get("name") in self.axis_names

    def _is_keepdims(self, c):
        while c.op == "seq":
            c = c.value
        return c.op == "arg" and c.get("name") == "keepdims"

    def _project(self, u, i, depth=0):
        """component i of a pair-valued term, through conditionals (a helper that returns (array, count) on every path)"""
        from ..terms import T

        while u is not None and u.op == "seq":
            u = u.value
        if u is None or depth > 6:
            return None
        if u.op in ("tuple", "list"):
            return u.elts[i] if i < len(u.elts) and not any(e_.op == "star" for e_ in u.elts) else None
        if u.op == "if":
            a, b = self._project(u.then, i, depth + 1), self._project(u.other, i, depth + 1)
            if u.then.op == "raise":
                return b
            if u.other.op == "raise":
                return a
            if a is not None and b is not None:
                return T("if", u.node, u.mod, cond=u.cond, then=a, other=b)
        return None

    def _option_array(self, t):
        """name of the array-valued option (a parameter other than the reduced argument, the axis and the flags) a
        term is, looking through conj / astype / asarray; None otherwise"""
        for _ in range(4):
            if t.op == "seq":
                t = t.value
            elif t.op == "call" and (t.args or t.fn.op == "attr"):
                r, _p = resolve_callee(self.ev, t)
                if r is not None and is_numpy_callable(r) and base_name(r) in ("asarray", "array", "conj", "logical_not", "invert", "astype", "_astype"):
                    t = t.args[0]
                elif t.fn.op == "attr" and t.fn.name in ("astype", "conj", "copy"):
                    t = t.fn.obj
                else:
                    return None
            else:
                break
        if t.op == "arg" and isinstance(t.get("index"), int) and t.index != 0 and t.get("name") in ("where", "weights", "mask"):
            return t.name
        return None

    def is_scalar_test(self, c):
        """(polarity) when the condition says that the reduced argument is a 0-d value: isscalar(x), ndim(x) == 0,
        shape(x) == ()"""
        from ..tutil import atom

        a, pol = atom(c)
        x0 = lambda v: v.op == "arg" and v.get("index") == 0
        if a.op == "call" and len(a.args) == 1 and x0(a.args[0]):
            r, _ = resolve_callee(self.ev, a)
            if r is not None and is_numpy_callable(r) and base_name(r) == "isscalar":
                return pol
        if a.op == "cmp" and a.opname == "Eq":
            for l, r_ in ((a.l, a.r), (a.r, a.l)):
                nd = (l.op == "attr" and l.name == "ndim" and x0(l.obj)) or (l.op == "call" and len(l.args) == 1 and x0(l.args[0]) and (lambda rr: rr is not None and is_numpy_callable(rr) and base_name(rr) == "ndim")(resolve_callee(self.ev, l)[0]))
                if nd and r_.op == "const" and type(r_.value) is int and r_.value == 0:
                    return pol
                sh = (l.op == "attr" and l.name == "shape" and x0(l.obj)) or (l.op == "call" and len(l.args) == 1 and x0(l.args[0]) and (lambda rr: rr is not None and is_numpy_callable(rr) and base_name(rr) == "shape")(resolve_callee(self.ev, l)[0]))
                if sh and r_.op == "tuple" and not r_.elts:
                    return pol
        return None

    def leaves(self, t, none=False):
        """(class, term) of every control-flow leaf of a rule's result, each under the facts of its own path"""
        if t is None:
            return []
        if t.op == "seq":
            return self.leaves(t.value, none)
        if t.op == "if":
            c = t.cond
            if t.then.op == "raise":
                return self.leaves(t.other, none)
            if t.other.op == "raise":
                return self.leaves(t.then, none)
            if c.op == "cmp" and c.opname in ("Is", "Eq", "IsNot", "NotEq") and c.r.op == "const" and c.r.value is None and self.is_axis(c.l):
                none_then = c.opname in ("Is", "Eq")
                return self.leaves(t.then, none or none_then) + self.leaves(t.other, none or (not none_then))
            sp = self.is_scalar_test(c)
            if sp is not None:
                saved = self.scalar
                out = []
                for br, holds in ((t.then, sp), (t.other, not sp)):
                    self.scalar = saved or holds
                    try:
                        out += self.leaves(br, none)
                    finally:
                        self.scalar = saved
                return out
            return self.leaves(t.then, none) + self.leaves(t.other, none)
        if t.op == "raise":
            return []
        cl = self.of(t, none)
        return [("S0" if (cl == "S" and self.scalar) else cl, t)]

    def _of(self, t, none):
        o = t.op
        if self.scalar and ((o == "sym" and t.get("role") in ("ans", "g")) or (o == "arg" and t.get("index") == 0)):
            return "S"
        if o == "sym":
            role = t.get("role")
            if role == "ans":
                return "S" if (none and not self.kd) else ("K" if self.kd else "R")
            if role == "g":
                if self.mode == "vjp":
                    return "S" if (none and not self.kd) else ("K" if self.kd else "R")
                return "F"
            return "S"
        if o == "arg":
            return "F" if t.index == 0 else "S"
        if o in ("const", "ref", "rest", "kwrest", "fstr", "slice"):
            return "S"
        if o == "bin":
            return self.mix(t, [self.of(t.l, none), self.of(t.r, none)])
        if o == "un":
            return self.of(t.x, none)
        if o == "cmp":
            return self.mix(t, [self.of(t.l, none), self.of(t.r, none)])
        if o == "bool":
            return "S"
        if o == "if":
            c = t.cond
            if c.op == "cmp" and c.opname in ("Is", "Eq", "IsNot", "NotEq") and c.r.op == "const" and c.r.value is None and self.is_axis(c.l):
                none_then = c.opname in ("Is", "Eq")
                a = self.of(t.then, none or none_then)
                b = self.of(t.other, none or (not none_then))
            elif self._is_keepdims(c) and self.kd is None:
                saved = self.kd
                try:
                    self.kd = True
                    a = self.of(t.then, none)
                    self.kd = False
                    b = self.of(t.other, none)
                finally:
                    self.kd = saved
            else:
                a, b = self.of(t.then, none), self.of(t.other, none)
            if t.then.op == "raise":
                return b
            if t.other.op == "raise":
                return a
            return jn(a, b)
        if o == "seq":
            return self.of(t.value, none)
        if o == "attr":
            if t.name in ("shape", "ndim", "dtype", "size"):
                return "S"
            if t.name in ("T", "real", "imag"):
                return self.of(t.obj, none)
            return "T"
        if o == "sub":
            if t.idx.op == "const" and isinstance(t.idx.value, int):
                if t.obj.op == "call":
                    r, _ = resolve_callee(self.ev, t.obj)
                    if r is not None and r.qual.endswith(".repeat_to_match_shape"):
                        self.of(t.obj.args[0], none) if t.obj.args else None
                        return "F" if t.idx.value == 0 else "S"
                pr = project(self.ev, t.obj, t.idx.value)
                if pr is not None:
                    return self.of(pr, none)
                if t.obj.op == "call" and t.idx.value >= 0:
                    pr = self._project(self.ev.inline(t.obj), t.idx.value)
                    if pr is not None:
                        return self.of(pr, none)
            return "T"
        if o in ("tuple", "list"):
            return "T"
        if o in ("loop", "loopvar", "iterelem", "comp", "store", "grow", "closure", "partial", "unknown", "raise", "dict", "star"):
            return "T"
        if o == "call":
            return self._call(t, none)
        return "T"

    def _call(self, t, none):
        fn = t.fn
        if fn.op == "attr":
            if fn.name in ("conj", "conjugate", "copy", "astype"):
                return self.of(fn.obj, none)
            return "T"
        ref, pre = resolve_callee(self.ev, t)
        args = list(pre) + list(t.args)
        if ref is not None and is_numpy_callable(ref):
            bn = base_name(ref)
            ns, _, name = ref.qual.rpartition(".")
            uf = self.world.env.ufunc(ns, name)
            if (uf is not None and uf.signature is None) or bn in self.elem:
                n = uf.nin if uf is not None else len(args)
                return self.mix(t, [self.of(a, none) for a in args[:n]])
            if bn in REDUCTIONS and args:
                src = self.of(args[0], none)
                kd = t.kw.get("keepdims")
                ax = t.kw.get("axis") or (args[1] if len(args) > 1 and bn != "linalg.norm" else (args[2] if len(args) > 2 else None))
                if ax is not None and self.is_axis(ax) and src == "S" and self._option_array(args[0]) is not None:
                    # the primitive's axis numbers the axes of the REDUCED ARGUMENT: applied to another array - a
                    # mask / weight option that NumPy broadcasts against the argument - it addresses other axes (or
                    # size-1 ones) whenever that array has not been brought to the argument's shape first
                    txt = norm_text(t.node) if t.node is not None else "?"
                    nm = self._option_array(args[0])
                    if txt not in [h[0] for h in self.hazards]:
                        self.hazards.append((txt, t.line, f"`{txt[:60]}` reduces the option `{nm}` over the primitive's axis although `{nm}` is only broadcastable against the reduced argument (fewer dimensions, size-1 axes): the axis numbers refer to the argument's shape"))
                    return "T"
                if kd is not None and kd.op == "const" and kd.value is True:
                    return "K" if src in ("F", "K") else ("S" if src == "S" else "T")
                if ax is None or (ax.op == "const" and ax.value is None):
                    return "S"  # full reduction
                if src == "F" and self.is_axis(ax):
                    return "S" if none else "R"
                return "T"
            if bn == "broadcast_to" and len(args) >= 2:
                return "F"  # (the target is checked by A3.vjp-style rules; here: no longer a bare option)
            if bn == "expand_dims" and args:
                # the reduced axes put back with length 1: broadcastable against the full shape, not the full shape
                return "K" if self.of(args[0], none) in ("R", "K") else ("F" if self.of(args[0], none) == "F" else "T")
            if bn in REINDEX and args:
                return self.of(args[0], none)
            if bn in ("zeros_like", "ones_like", "empty_like") and args:
                return self.of(args[0], none)
            if bn in ("shape", "ndim", "size", "result_type", "isscalar", "iscomplexobj"):
                return "S"
            if bn == "where" and len(args) == 3:
                return self.mix(t, [self.of(a, none) for a in args])
            return "T"
        if ref is not None and ref.kind in ("repo", "classattr"):
            q = ref.qual
            if q.endswith(".repeat_to_match_shape"):
                return "T"  # a (array, count) pair: only its components have a class
            if q.endswith(".match_complex") and len(args) >= 2:
                return self.of(args[1], none)
            if q.endswith(".metadata") or q.endswith(".vspace"):
                return "S"
        r = self.ev.inline(t)
        if r is not None:
            return self.of(r, none)
        return "T"


def reductions(ctx, world, modes=("vjp", "jvp")):
    ctx.describe("A3.reduce", "in the VJP/JVP rules of axis reductions (sum, mean, prod, var, std, max/min/amax/amin, linalg.norm) no elementwise operation combines a definitely full-shaped operand with a definitely reduced-shaped one; reduced values reach full shape only through expand_dims / repeat_to_match_shape / keepdims=True (or are scalars under `axis is None`); the primitive's axis is applied only to arrays of the argument's shape - never to a mask / weight option (where=, weights=) that is merely broadcastable against it")
    fx = set(facts.load("axis_params")["names"])
    n = 0
    for e in world.table.entries:
        if e.spec != "maker" or e.mode not in modes or not world.in_numpy_scope(e) or not is_numpy_callable(e.prim):
            continue
        if base_name(e.prim) not in REDUCTIONS or e.argnum != 0:
            continue
        ir = world.ir(e)
        if ir is None or not ir.ok:
            ctx.ob("A3.reduce", construct_of(e), None, e.loc)
            continue
        n += 1
        S = ShapeClass(world, e.mode, fx)
        S.of(ir.result)
        inst = construct_of(e)
        # the class of what the rule returns, path by path: a tangent lives in the RESULT's space (reduced), a
        # cotangent in the ARGUMENT's (full)
        wrong = ("F",) if e.mode == "jvp" else ("R", "K", "S")  # (S: a scalar although the argument is not known to be 0-d)
        bad_leaf = next((lt for cl, lt in S.leaves(ir.result) if cl in wrong), None)
        if bad_leaf is None:
            ctx.ob("A3.reduce", inst + ":result", True, e.loc)
        else:
            txt_ = norm_text(bad_leaf.node) if bad_leaf.node is not None else str(bad_leaf)
            what = "a tangent in the shape of the reduced ARGUMENT (the reduction's result has fewer axes)" if e.mode == "jvp" else "a cotangent in the shape of the reduction's RESULT, of the result with size-1 axes put back, or a scalar (the argument has more axes / larger axes: a value that merely broadcasts against the argument is not in its space)"
            ctx.fail("A3.reduce", inst + ":result", f"{e.mode}:{e.prim_id}|result-class", e.loc, f"on some path the rule returns `{txt_[:80]}`: {what}", "the reduction of an array with ndim >= 1 (also one with a single element) along an axis without keepdims")
        if not S.hazards:
            ctx.ob("A3.reduce", inst, True, e.loc)
            continue
        fnode = ir.maker.fnode if ir.maker is not None else None
        owner = getattr(fnode, "name", None) or e.prim_id
        for hz in S.hazards:
            txt, line = hz[0], hz[1]
            if len(hz) > 2:
                ctx.fail("A3.reduce", inst + "|" + txt[:60], f"{e.mode}:{owner}|option-reduced|{txt[:80]}", f"{e.mod.relpath}:{line}", hz[2], "the reduction called with a mask / weight that is broadcast along a reduced axis (shape (3,) against (4, 3) with axis=0 or None; shape (4, 1) against (2, 4, 3) with axis=1)")
                continue
            ctx.fail(
                "A3.reduce",
                inst + "|" + txt[:60],
                f"{e.mode}:{owner}|{txt[:100]}",
                f"{e.mod.relpath}:{line}",
                f"`{txt[:90]}` combines a full-shaped array with a reduced-shaped one (the result / cotangent of the reduction) that was not expanded along the reduced axis",
                "the reduction called with an integer axis that is not the last one on an array whose dimensions coincide (e.g. a square matrix): NumPy right-aligns the reduced array and pairs the wrong entries silently; other shapes raise",
            )
    ctx.floor(f"A3.reduce reduction rules ({'+'.join(modes)})", n, (8 if "vjp" in modes else 0) + (6 if "jvp" in modes else 0))


def _value_dependent(ev, t, seen=None):
    """does the term carry VALUES of the primitive's arguments, its answer or the (co)tangent (as opposed to their
    shapes / ranks / dtypes only)?"""
    from ..terms import children

    seen = seen if seen is not None else set()
    if t is None or id(t) in seen:
        return False
    seen.add(id(t))
    if t.op == "attr" and t.name in ("shape", "ndim", "size", "dtype"):
        return False
    if t.op == "call":
        r, _ = resolve_callee(ev, t)
        if r is not None and ((is_numpy_callable(r) and base_name(r) in ("shape", "ndim", "size", "result_type", "iscomplexobj", "isscalar")) or r.qual in ("builtins.len", "builtins.range", "builtins.isinstance", "builtins.type") or r.qual.endswith((".vspace", ".metadata"))):
            return False
    if (t.op == "sym" and t.get("role") in ("g", "gs", "ans")) or t.op == "arg":
        return True
    return any(_value_dependent(ev, c, seen) for c in children(t))


def stacked_batches(ctx, world, modes=("vjp", "jvp")):
    """A3.batch - det / inv / solve / cholesky / eigh / svd ... act on the last two axes and treat the leading axes as
    a batch.  A rule that reduces over ALL axes (sum(x) without axis), takes trace with its default axes (0, 1) or
    contracts with dot / inner / tensordot mixes the members of a stack: exact for one matrix, silently wrong for
    (k, n, n)."""
    from ..terms import walk as _walk
    from ..tutil import expand

    fx = facts.load("stacked_matrix_functions")
    stacked, reds, nba = set(fx["stacked"]), set(fx["reductions"]), set(fx["not_batch_aware"])
    ctx.describe("A3.batch", "in the rules of the stacked-matrix functions of numpy.linalg (det, slogdet, inv, pinv, solve, cholesky, eig, eigh, svd, ...) no call reduces over all axes (a reduction without an explicit axis), takes np.trace over its default axes (0, 1), or contracts with a function that is not batch-aware (dot, vdot, inner, outer, kron, tensordot): each would combine different members of a stack")
    n = 0
    for e in world.table.entries:
        if e.spec != "maker" or e.mode not in modes or not world.in_numpy_scope(e) or not is_numpy_callable(e.prim) or base_name(e.prim) not in stacked:
            continue
        ir = world.ir(e)
        if ir is None or not ir.ok:
            ctx.ob("A3.batch", construct_of(e), None, e.loc)
            continue
        n += 1
        bad = None
        for root in (ir.made, ir.result):
            if root is None or bad is not None:
                continue
            for t in _walk(expand(world.ev, root, ())):
                if t.op != "call":
                    continue
                ref, pre = resolve_callee(world.ev, t)
                if ref is None or not is_numpy_callable(ref):
                    continue
                bn = base_name(ref)
                args = list(pre) + list(t.args)
                sig = world.env.signature(ref.qual) or {"pos": []}

                def bound(name):
                    if name in t.kw:
                        return t.kw[name]
                    if name in sig["pos"] and sig["pos"].index(name) < len(args):
                        return args[sig["pos"].index(name)]
                    return None

                if any(a.op == "star" for a in args) or t.get("dstar"):
                    continue
                if not args or not _value_dependent(world.ev, args[0]):
                    continue  # min((m, n)) of two dimensions, sums over index ranges ...: no array of the stack involved
                if bn in reds:
                    ax = bound("axis")
                    if ax is None or (ax.op == "const" and ax.value is None):
                        bad = (t, f"{bn}(...) without an axis reduces over the batch axes as well")
                elif bn == "trace":
                    a1, a2 = bound("axis1"), bound("axis2")
                    neg = lambda v: v is not None and v.op == "const" and type(v.value) is int and v.value < 0
                    if not (neg(a1) and neg(a2)):
                        bad = (t, "trace over its default axes (0, 1) takes the trace across the batch axis of a stack")
                elif bn in nba:
                    bad = (t, f"{bn} is not batch-aware: on stacks it contracts / pairs entries of different members")
                if bad is not None:
                    break
        inst = construct_of(e)
        if bad is None:
            ctx.ob("A3.batch", inst, True, e.loc)
        else:
            txt = norm_text(bad[0].node) if bad[0].node is not None else str(bad[0])
            ctx.fail("A3.batch", inst, f"{e.mode}:{e.prim_id}|batch:{txt[:60]}", e.loc, f"`{txt[:80]}`: {bad[1]}", f"{base_name(e.prim)} of a stack of matrices, shape (k, n, n) with k > 1: exact for a single matrix, wrong for every member of the stack")
    ctx.floor(f"A3.batch rules of stacked-matrix functions ({'+'.join(modes)})", n, 8 if "vjp" in modes else 0)


def axis_loops_fold(ctx, world, modes=("vjp", "jvp")):
    """A3.fold - a rule that walks over the axes it was given (`for ax in axis`, `for ax, rep in enumerate(reps)`) to
    compute one quantity for the whole reduction - the number of reduced elements, a shape, the cotangent itself - has
    to COMBINE the per-axis values: each iteration reads the value carried from the previous one.  A loop whose body
    overwrites the carried variable without reading it yields the LAST axis' value only (`num_reps = shape[ax]` for
    `num_reps *= shape[ax]`): right for a single axis, wrong for every axis tuple."""
    from ..terms import children, walk
    from ..tutil import expand

    ctx.describe("A3.fold", "in a rule, a loop over a collection derived from an axis parameter carries its state: the value of an iteration is computed from the value of the previous one (accumulation); a loop whose step ignores the carried value returns the last axis' contribution only")
    names = set(facts.load("axis_params")["names"])
    n = n_rules = 0
    for e in world.table.entries:
        if e.spec != "maker" or e.mode not in modes or not world.in_numpy_scope(e):
            continue
        ir = world.ir(e)
        if ir is None or not ir.ok:
            continue
        n_rules += 1
        seen = set()
        for root in (ir.made, ir.result):
            if root is None:
                continue
            for t in walk(expand(world.ev, root, ())):
                if t.op != "loop" or id(t) in seen:
                    continue
                seen.add(id(t))
                ch = children(t)
                step = ch[1:]
                srcs = [x.src for c in step for x in walk(c) if x.op == "iterelem"]
                if not any(a.op == "arg" and a.get("name") in names for s_ in srcs for a in walk(s_)):
                    continue
                n += 1
                txt = (norm_text(t.node) if t.node is not None else str(t))[:60]
                inst = f"{construct_of(e)}|{txt}"
                if any(x.op == "loopvar" for c in step for x in walk(c)):
                    ctx.ob("A3.fold", inst, True, e.loc)
                else:
                    ctx.fail("A3.fold", inst, f"{e.mode}:{e.prim_id}|last-axis-only", e.loc, f"the loop `{txt}` over the given axes overwrites its result in every iteration without reading the previous value: the rule uses the contribution of the LAST axis only", "the same call with a tuple of two or more axes (axis=(0, 1)): the quantity must combine all of them")
    # (how many loops a tree has is a matter of style - a comprehension or reduce() is the same computation in another
    # normal form - so the floor is on the rules searched, not on the loops found; the matcher itself is exercised by the
    # self-test mutant `mean-count-from-the-last-axis-only` and its benign twin)
    ctx.ob("A3.fold", f"{n} loop(s) over axis collections in {n_rules} {'+'.join(modes)} rules", True, "autograd/numpy/*", nontrivial=n > 0)
    ctx.floor(f"A3.fold rules searched ({'+'.join(modes)})", n_rules, (150 if "vjp" in modes else 0) + (50 if "jvp" in modes else 0))
