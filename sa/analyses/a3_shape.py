"""A3 - shape-support abstract interpretation (broadcast discipline).

Abstract value of an array-valued term = the set of *shape sources* whose broadcast it has: a frozenset
of primitive-argument positions.  `ans` and (in a VJP) `g` have the support of all broadcasting
arguments.  None = TOP (unknown)."""
from .. import facts
from ..terms import walk,  T
from ..model import norm_text
from .common import base_name, callee_ref, construct_of, is_numpy_callable, project, resolve_callee

TOP = None


def broadcasting_args(world, ref):
    """Positions of the arguments of primitive `ref` that broadcast against each other, or None."""
    if not is_numpy_callable(ref):
        return None
    bn = base_name(ref)
    ns, _, name = ref.qual.rpartition(".")
    uf = world.env.ufunc(ns, name)
    if uf is not None and uf.nin >= 2:
        return list(range(uf.nin))
    ex = facts.load("broadcasting")["broadcasting_extra"].get(bn)
    if ex:
        return ex["args"]
    return None


class Supp:
    def __init__(self, world, ansset, g_supp, argnum_sym=None):
        self.world, self.ev = world, world.ev
        self.ans = frozenset(ansset)
        self.g = frozenset(g_supp)
        self.memo = {}
        self.why = []
        self.elem = set(facts.load("broadcasting")["elementwise_functions"]) - {"_doc"}

    def blame(self, t, msg):
        if len(self.why) < 4:
            self.why.append(f"{msg} (line {t.line})")

    def of(self, t):
        if t is None:
            return frozenset()
        k = id(t)
        if k in self.memo:
            return self.memo[k][1]
        self.memo[k] = (t, TOP)
        r = self._of(t)
        self.memo[k] = (t, r)
        return r

    def union(self, xs):
        out = frozenset()
        for x in xs:
            if x is TOP:
                return TOP
            out |= x
        return out

    def _meta_target(self, m):
        """Which source does a metadata / shape term describe?"""
        if m is None:
            return TOP
        if m.op == "call":
            r, _ = resolve_callee(self.ev, m)
            if r is not None and r.qual.rsplit(".", 1)[-1] in ("metadata", "shape", "vspace") and m.args:
                return self._source(m.args[0])
            rr = self.ev.inline(m)
            if rr is not None:
                return self._meta_target(rr)
        if m.op == "attr" and m.name == "shape":
            return self._source(m.obj)
        if m.op == "call" and m.fn.op == "ref" and m.fn.ref.qual.rsplit(".", 1)[-1] in ("array", "asarray", "tuple", "list") and m.args:
            return self._meta_target(m.args[0])
        if m.op == "sub" and m.idx.op != "const":
            # a selection of the entries of a shape: still sized by that source
            return self._meta_target(m.obj)
        if m.op == "sub" and m.idx.op == "const" and m.idx.value == 0:
            # metadata(x)[0] is the shape
            return self._meta_target(m.obj)
        if m.op == "if":
            a, b = self._meta_target(m.then), self._meta_target(m.other)
            return a if a == b else TOP
        return TOP

    def _source(self, x):
        if "others" in self.ans and x.op == "sub":
            return self.of(x)
        if x.op == "arg" and isinstance(x.index, int):
            return frozenset([x.index])
        if x.op == "sym" and x.get("role") == "ans":
            return self.ans
        if x.op == "sym" and x.get("role") == "g":
            return self.g
        if x.op == "sub" and x.obj.op == "rest" and x.idx.op == "sym" and x.idx.get("role") == "argnum":
            return frozenset(["argnum"])
        return self.of(x)

    def _of(self, t):
        o = t.op
        if o == "sym":
            role = t.get("role")
            if role == "g":
                return self.g
            if role == "ans":
                return self.ans
            return frozenset()
        if o == "arg":
            if isinstance(t.index, int):
                return frozenset([t.index])
            return frozenset()
        if o == "const":
            return frozenset()
        if o == "rest":
            return frozenset(["others"]) if "others" in self.ans else TOP
        if o == "star":
            return self.of(t.x)
        if o in ("tuple", "list") and "others" in self.ans:
            return self.union([self.of(e) for e in t.elts])
        if o == "bin":
            return self.union([self.of(t.l), self.of(t.r)])
        if o == "un":
            return self.of(t.x)
        if o in ("cmp",):
            return self.union([self.of(t.l), self.of(t.r)])
        if o == "bool":
            return self.union([self.of(v) for v in t.vals])
        if o == "if":
            a, b = self.of(t.then), self.of(t.other)
            if t.then.op == "raise":
                return b
            if t.other.op == "raise":
                return a
            if a == b:
                return a
            if a is not TOP and b is not TOP:
                return a | b  # an upper bound: whichever branch is taken, the support is within the union
            self.blame(t, "branches with different shape support")
            return TOP
        if o == "seq":
            return self.of(t.value)
        if o == "attr":
            if t.name in ("T", "real", "imag"):
                return self.of(t.obj)
            return TOP
        if o == "sub":
            if t.idx.op == "const" and isinstance(t.idx.value, int):
                pr = project(self.ev, t.obj, t.idx.value)
                if pr is not None:
                    return self.of(pr)
            ix = t.idx.elts if t.idx.op == "tuple" else [t.idx]
            if ix and all((i_.op == "const" and i_.value is None) or (i_.op == "ref" and i_.ref.qual == "builtins.Ellipsis") or (i_.op == "const" and i_.value is Ellipsis) or (i_.op == "slice" and all(b_ is None or (b_.op == "const" and b_.value is None) for b_ in (i_.lo, i_.hi, i_.step))) for i_ in ix):
                return self.of(t.obj)  # x[..., None], x[None], x[:, None]: axes of length 1 added, no shape source changes
            if "others" in self.ans:
                # operands of a variadic contraction: args[argnum] is the differentiated one, slices are the others
                base = t.obj
                while base.op == "sub":
                    base = base.obj
                if base.op == "rest":
                    from ..terms import walk as _walk

                    if t.idx.op != "slice" and any(x.op == "sym" and x.get("role") == "argnum" for x in _walk(t.idx)):
                        return frozenset(["argnum"])
                    if t.idx.op == "slice":
                        return frozenset(["others"])
            return TOP
        if o == "loop":
            a = self.of(t.init)
            return a  # loops used in rules keep the shape class of their accumulator (checked: next is elementwise on it) - conservative: TOP unless equal
        if o == "call":
            return self._call(t)
        return TOP

    def _call(self, t):
        fn = t.fn
        if fn.op == "attr":
            # methods: x.conj() etc keep shape
            if fn.name in ("conj", "conjugate", "copy", "astype"):
                return self.of(fn.obj)
            if fn.name == "zeros" and not t.args:
                # vspace(x).zeros()
                return self._meta_target(fn.obj)
            return TOP
        ref, pre = resolve_callee(self.ev, t)
        args = list(pre) + list(t.args)
        if ref is not None and is_numpy_callable(ref):
            bn = base_name(ref)
            ns, _, name = ref.qual.rpartition(".")
            uf = self.world.env.ufunc(ns, name)
            if uf is not None or bn in self.elem:
                n = uf.nin if uf is not None else len(args)
                return self.union([self.of(a) for a in args[:n]])
            if bn in ("expand_dims", "swapaxes", "squeeze", "transpose", "moveaxis", "rollaxis", "flip", "roll", "negative", "copy") and args:
                # re-indexing keeps the set of shape sources (not the layout; that is not tracked here)
                return self.of(args[0])
            if bn == "einsum" and "others" in self.ans:
                ops = [self.of(a) for a in args[1:]]
                return self.union([o for o in ops])
            if bn in ("cross", "matmul", "linalg.solve") and len(args) >= 2:
                # leading (batch) dimensions of both operands broadcast into the result
                return self.union([self.of(args[0]), self.of(args[1])])
            if bn == "einsum" and args and args[0].op == "const" and isinstance(args[0].value, str) and "..." in args[0].value and not t.kw:
                # a contraction written with an ellipsis: the ellipsis (batch) dimensions of the operands broadcast
                return self.union([self.of(a) for a in args[1:]])
            if bn in ("dot", "tensordot", "inner", "outer", "kron", "vdot") and len(args) >= 2:
                # a contraction removes axes, it never adds a shape source: the union is an upper bound of the support
                return self.union([self.of(args[0]), self.of(args[1])])
            if bn == "linspace" and len(args) >= 2:
                return self.union([self.of(args[0]), self.of(args[1])])  # (num,) + broadcast(start, stop)
            if bn in ("linalg.inv", "linalg.pinv", "conj", "conjugate", "real", "imag") and args:
                return self.of(args[0])
            if bn in ("sum", "mean", "prod", "max", "min", "amax", "amin", "any", "all", "nansum"):
                if len(args) == 1 and not ({"axis", "keepdims"} & set(t.kw)):
                    return frozenset()  # full reduction: a scalar
                return TOP
            if bn == "reshape" and len(args) >= 2:
                return self._meta_target(args[1])
            if bn == "broadcast_to" and len(args) >= 2:
                return self._meta_target(args[1])
            if bn in ("zeros", "ones", "empty", "full") and args:
                return self._meta_target(args[0])
            if bn in ("zeros_like", "ones_like", "empty_like", "full_like") and args:
                return self.of(args[0])
            if bn in ("asarray", "array", "copy", "ascontiguousarray") and args:
                return self.of(args[0])
            if bn in ("shape", "ndim", "size"):
                return frozenset()
            return TOP
        if ref is not None and ref.kind in ("repo", "classattr"):
            q = ref.qual
            if q == "autograd.numpy.numpy_vjps.unbroadcast" and len(args) >= 2:
                return self._meta_target(args[1])
            if q == "autograd.numpy.numpy_jvps.broadcast" and len(args) >= 2:
                return self._source(args[1])
            if q == "autograd.numpy.numpy_vjps.match_complex" and len(args) >= 2:
                return self.of(args[1])
            if q == "autograd.numpy.numpy_vjps.repeat_to_match_shape" and len(args) >= 2:
                return TOP
        r = self.ev.inline(t)
        if r is not None:
            return self.of(r)
        return TOP


def fmt(s, ansset=None):
    if s is TOP:
        return "TOP"
    return "{" + ",".join(str(x) for x in sorted(s, key=str)) + "}"


W_VJP = "argument {k} of shape (1,) or a Python scalar against the other argument(s) of shape (3,): the returned cotangent has the broadcast shape, not the argument's"
W_JVP = "the differentiated argument smaller than the broadcast result (e.g. shape () against (2,3)): the tangent does not have the output's shape"


def vjp_locally_constant(ctx, world):
    """C14: an argument the function depends on only piecewise-constantly (the condition of where, ...) must get an
    exact zero OF ITS OWN SPACE; when the rule is written out instead of the declarative None, its result must
    have the shape support of that argument."""
    from .common import locally_constant_arg

    vjp(ctx, world, only=lambda e: e.argnum is not None and locally_constant_arg(world, e.prim, e.argnum)[0], floor=False)


def vjp(ctx, world, only=None, floor=True):
    ctx.describe("A3.vjp", "for every VJP rule of a broadcasting primitive (binary ufuncs by metadata + where/clip/cross/full/matmul/einsum) the backward-time result has shape support exactly {the differentiated argument}: it passes through unbroadcast (or an equivalent reduction) aimed at that argument on every path")
    n = 0
    for e in world.table.entries:
        if e.mode != "vjp" or e.spec != "maker" or not world.in_numpy_scope(e):
            continue
        if only is not None and not only(e):
            continue
        ba = broadcasting_args(world, e.prim)
        if ba is None:
            continue
        ir = world.ir(e)
        if ir is None or not ir.ok:
            ctx.ob("A3.vjp", construct_of(e), None, e.loc)
            continue
        if ba == "operands":
            k = "argnum" if e.argnum is None else e.argnum
            ansset = {"argnum", "others"}
        else:
            if e.argnum is None or e.argnum not in ba:
                continue
            k = e.argnum
            ansset = set(ba)
        n += 1
        S = Supp(world, ansset, ansset)
        from ..ruleir import deep_leaves

        verdicts = []
        for conds, leaf in deep_leaves(world.ev, ir.result):
            if any(c.op == "cmp" and c.opname == "NotIn" and pol and c.l.op == "ref" and c.l.ref.qual == "builtins.Ellipsis" for c, pol in conds):
                continue  # sublist convention without an ellipsis: einsum cannot broadcast, nothing to reduce
            verdicts.append((S.of(leaf), leaf))
        bad = [(s, l) for s, l in verdicts if s is not TOP and s != frozenset([k])]
        und = [(s, l) for s, l in verdicts if s is TOP]
        nf = "; ".join(sorted({fmt(s) for s, _ in verdicts}))
        if bad:
            s, l = bad[0]
            ctx.fail(
                "A3.vjp",
                construct_of(e),
                construct_of(e) + "|support=" + fmt(s),  # (what fails is part of the identity: a rule reduced to ANOTHER argument's shape is a different finding than one not reduced at all)
                e.loc,
                f"cotangent for argument {k} has shape support {fmt(s)} (broadcast of arguments {fmt(s)}), expected {{{k}}}: no unbroadcast aimed at argument {k} on this path",
                W_VJP.format(k=k),
                sample=nf,
            )
        elif und:
            ctx.ob("A3.vjp", construct_of(e), None, e.loc, sample=nf + " " + "; ".join(S.why))
        else:
            ctx.ob("A3.vjp", construct_of(e), True, e.loc, sample=nf)
    if floor:
        ctx.floor("A3.vjp instances", n, 32)
    else:
        ctx.ob("A3.vjp", "written-out rules of locally constant arguments have the argument's shape support", True, "autograd/numpy/*", nontrivial=False)


def jvp(ctx, world):
    ctx.describe("A3.jvp", "for every custom JVP rule of a broadcasting primitive the tangent has the support of the output (contains every broadcasting argument, or passes through broadcast(., ans))")
    n = 0
    for e in world.table.entries:
        if e.mode != "jvp" or e.spec != "maker" or not world.in_numpy_scope(e):
            continue
        ba = broadcasting_args(world, e.prim)
        if ba is None or ba == "operands" or e.argnum is None or e.argnum not in ba:
            continue
        ir = world.ir(e)
        if ir is None or not ir.ok:
            ctx.ob("A3.jvp", construct_of(e), None, e.loc)
            continue
        n += 1
        ansset = frozenset(ba)
        S = Supp(world, ansset, {e.argnum})
        from ..ruleir import leaves

        verdicts = [(S.of(leaf), leaf) for _, leaf in leaves(world.ev, ir.result)]
        bad = [(s, l) for s, l in verdicts if s is not TOP and not (s >= ansset)]
        und = [1 for s, _ in verdicts if s is TOP]
        nf = "; ".join(sorted({fmt(s) for s, _ in verdicts}))
        if bad:
            s = bad[0][0]
            ctx.fail(
                "A3.jvp",
                construct_of(e),
                construct_of(e),
                e.loc,
                f"tangent has shape support {fmt(s)} but the output is the broadcast of arguments {fmt(ansset)}",
                W_JVP,
                sample=nf,
            )
        elif und:
            ctx.ob("A3.jvp", construct_of(e), None, e.loc, sample=nf)
        else:
            ctx.ob("A3.jvp", construct_of(e), True, e.loc, sample=nf)
    ctx.floor("A3.jvp instances", n, 24)


# ------------------------------------------------------------------------------------------- A3.helper
def helpers(ctx, world):
    """The summarised helpers themselves: unbroadcast reduces exactly by the TARGET's metadata.  Decided on
    the evaluated function terms (loop-carried values, canonical condition atoms, exhaustive valuations of the
    kind tests), so the spelling of loops, guards (`continue`, flipped tests) and temporaries is irrelevant."""
    from ..kfun import eval_function, is_call_to
    from ..model import AnalysisError
    from ..tutil import atom, cases, specialise, unseq
    from .common import loc_of, resolve_callee

    ctx.describe("A3.helper", "unbroadcast(x, target_meta): (1) sums leading axes while ndim(x) > target_ndim, (2) for every axis where the TARGET's size is 1 sums that axis with keepdims=True - decided by the target's metadata only, never by x's own shape -, (3) casts complex to real only when the target is real; broadcast(x, target) mirrors it (expand to target_ndim, repeat size-1 axes to the target's size, real -> complex only when the target is complex)")
    ev = world.ev

    def np_call(t, name):
        if t is None or t.op != "call":
            return False
        r, pre = resolve_callee(ev, t)
        if r is None or pre:
            return False
        return (r.kind == "wrapped" and r.name == name) or r.qual in (f"numpy.{name}", f"autograd.numpy.numpy_wrapper.{name}")

    def arg(t, i, name):
        if len(t.args) > i:
            return t.args[i]
        return t.kw.get(name)

    def ndim_of(t, what):
        return (np_call(t, "ndim") and len(t.args) == 1 and what(t.args[0])) or (t.op == "attr" and t.name == "ndim" and what(t.obj)) or (is_call_to(t, "builtins.len") and len(t.args) == 1 and ((t.args[0].op == "attr" and t.args[0].name == "shape" and what(t.args[0].obj)) or (np_call(t.args[0], "shape") and what(t.args[0].args[0]))))

    def shape_of(t, what):
        return (np_call(t, "shape") and len(t.args) == 1 and what(t.args[0])) or (t.op == "attr" and t.name == "shape" and what(t.obj))

    def me(lp):
        return lambda t: t.op == "loopvar" and t.name == lp.name and t.node is lp.node

    def comp(src, i):
        return lambda t: t.op == "sub" and t.obj.op == "iterelem" and t.obj.src is src and t.idx.op == "const" and t.idx.value == i

    def is_true(t):
        return t is not None and t.op == "const" and t.value is True

    # ---------------------------------------------------------------- unbroadcast
    r, syms, m, fn, sc = eval_function(world, "autograd.numpy.numpy_vjps", "unbroadcast")
    loc = loc_of(m, fn)
    q = "autograd.numpy.numpy_vjps.unbroadcast"
    ps = [a.arg for a in fn.args.args]
    if len(ps) < 2:
        raise AnalysisError("unbroadcast no longer takes (x, target_meta, ...)")
    x, meta = syms[ps[0]], syms[ps[1]]
    bidx = syms.get(ps[2]) if len(ps) > 2 else None
    m_shape = lambda t: t.op == "sub" and t.obj is meta and t.idx.op == "const" and t.idx.value == 0
    m_ndim = lambda t: t.op == "sub" and t.obj is meta and t.idx.op == "const" and t.idx.value == 1
    m_cplx = lambda t: t.op == "sub" and t.obj is meta and t.idx.op == "const" and t.idx.value == 3
    r = unseq(r) if r is not None else None
    # (3) kind cast: exhaustive valuations of (iscomplexobj(value), target_iscomplex)
    is_cx_test = lambda a: np_call(a, "iscomplexobj") and len(a.args) == 1
    ok3, okr = True, True
    V = None
    if r is None:
        ok3 = okr = False
    else:
        for xc in (True, False):
            for tc in (True, False):
                dec = lambda a, xc=xc, tc=tc: xc if is_cx_test(a) else (tc if m_cplx(a) else None)
                cs = cases(specialise(r, dec))
                if len(cs) != 1 or cs[0].facts:
                    okr = False
                    continue
                leaf = cs[0].leaf
                if xc and not tc:
                    if not (np_call(leaf, "real") and len(leaf.args) == 1):
                        ok3 = False
                        continue
                    leaf = leaf.args[0]
                if V is None:
                    V = leaf
                elif leaf is not V:
                    ok3 = False
        tests = [t.cond for t in walk(r) if t.op == "if"]
        if V is not None and not any(is_cx_test(a) and a.args[0] is V for c in tests for a in walk(c)):
            ok3 = False
    # (2) V = loop over enumerate(target_shape) summing the target's size-1 axes with keepdims
    ok2 = False
    why2 = "no `for axis, size in enumerate(target_shape)` loop"
    L1 = None
    if V is not None and V.op == "loop" and V.get("it") is not None:
        it = V.it
        flt = it.args[0] if (it.op == "call" and it.fn.op == "ref" and it.fn.ref.qual in ("builtins.list", "builtins.tuple") and len(it.args) == 1) else it
        if flt.op == "comp" and flt.get("kind") != "DictComp" and is_call_to(flt.src, "builtins.enumerate") and len(flt.src.args) == 1 and m_shape(flt.src.args[0]):
            # unit_axes = [axis for axis, size in enumerate(target_shape) if size == 1]; for axis in unit_axes: x = sum(x, axis, keepdims=True)
            L1 = V.init
            src = flt.src
            conds_ok = len(flt.conds) == 1 and atom(flt.conds[0])[1] and (lambda a: a.op == "cmp" and a.opname == "Eq" and ((comp(src, 1)(a.l) and a.r.op == "const" and a.r.value == 1) or (comp(src, 1)(a.r) and a.l.op == "const" and a.l.value == 1)))(atom(flt.conds[0])[0])
            lf = V.next
            elem_ax = lambda t: t.op == "iterelem" and t.src is it
            body_ok = comp(src, 0)(flt.elt) and np_call(lf, "sum") and len(lf.args) >= 1 and me(V)(lf.args[0]) and arg(lf, 1, "axis") is not None and elem_ax(arg(lf, 1, "axis")) and is_true(lf.kw.get("keepdims") if "keepdims" in lf.kw else (lf.args[3] if len(lf.args) > 3 else None))
            ok2 = bool(conds_ok and body_ok)
            if not conds_ok:
                why2 = "the size-1 axes are not selected by just `size == 1` on the TARGET's shape"
            elif not body_ok:
                why2 = "the size-1 reduction is not `x = sum(x, axis=axis, keepdims=True)`"
        elif is_call_to(it, "builtins.enumerate") and len(it.args) == 1 and m_shape(it.args[0]):
            L1 = V.init
            is_size1 = lambda a: a.op == "cmp" and a.opname == "Eq" and ((comp(it, 1)(a.l) and a.r.op == "const" and a.r.value == 1) or (comp(it, 1)(a.r) and a.l.op == "const" and a.l.value == 1))
            ok2 = True
            saw = set()
            for c in cases(V.next):
                extra = [a for a, p_ in c.facts if not is_size1(a)]
                pol = c.pol(is_size1)
                if extra or pol is None:
                    ok2 = False
                    why2 = f"the size-1 reduction is guarded by `{extra[0] if extra else c.leaf}`, which is not just `size == 1` on the TARGET's shape" + (" (it also reads x)" if any(y is x or me(V)(y) for e_ in extra for y in walk(e_)) else "")
                    continue
                saw.add(pol)
                if pol:
                    lf = c.leaf
                    good = np_call(lf, "sum") and len(lf.args) >= 1 and me(V)(lf.args[0]) and arg(lf, 1, "axis") is not None and comp(it, 0)(arg(lf, 1, "axis")) and is_true(lf.kw.get("keepdims") if "keepdims" in lf.kw else (lf.args[3] if len(lf.args) > 3 else None))
                    if not good:
                        ok2 = False
                        why2 = "the size-1 reduction is not `x = sum(x, axis=axis, keepdims=True)`"
                elif not me(V)(c.leaf):
                    ok2 = False
                    why2 = "an axis whose target size is not 1 is modified"
            if saw != {True, False}:
                ok2 = False
    # (1) L1 = while ndim(x) > target_ndim: x = sum(x, axis=broadcast_idx)
    ok1 = False
    if L1 is not None and L1.op == "loop" and L1.init is x:
        nx = L1.next
        body_ok = np_call(nx, "sum") and len(nx.args) >= 1 and me(L1)(nx.args[0]) and arg(nx, 1, "axis") is not None and (bidx is None or arg(nx, 1, "axis") is bidx) and not is_true(nx.kw.get("keepdims"))
        cnd = L1.get("cond")
        if cnd is not None:
            a, pol = atom(cnd)
            cond_ok = pol and a.op == "cmp" and a.opname == "Lt" and m_ndim(a.l) and ndim_of(a.r, me(L1))
        else:
            itr = L1.get("it")
            cond_ok = itr is not None and is_call_to(itr, "builtins.range") and len(itr.args) == 1 and itr.args[0].op == "bin" and itr.args[0].opname == "Sub" and ndim_of(itr.args[0].l, lambda t: t is x) and m_ndim(itr.args[0].r)
        ok1 = bool(body_ok and cond_ok)
    _ok(ctx, "A3.helper", "unbroadcast: sum leading axes while ndim(x) > target_ndim", ok1, loc, f"{q}:leading", "the leading-axes reduction of unbroadcast is not `while ndim(x) > target_ndim: x = sum(x, axis=broadcast_idx)`", "a scalar or lower-rank argument broadcast against a higher-rank one")
    _ok(ctx, "A3.helper", "unbroadcast: every target axis of size 1 is summed with keepdims, decided by the target only", ok2, loc, f"{q}:size1", why2, "an argument with a size-1 axis broadcast against an array whose matching axis has length 0 (empty batch) or 1")
    _ok(ctx, "A3.helper", "unbroadcast: complex -> real only when the target is real", ok3 and V is not None, loc, f"{q}:kind", "the kind cast of unbroadcast is not `if iscomplexobj(x) and not target_iscomplex: x = real(x)`", "a real argument combined with a complex one")
    _ok(ctx, "A3.helper", "unbroadcast: single return of the reduced value", okr, loc, f"{q}:return", "unbroadcast has an early / different return", "any broadcasting binary operation")
    # ---------------------------------------------------------------- broadcast (numpy_jvps)
    r, syms, m2, fn2, sc2 = eval_function(world, "autograd.numpy.numpy_jvps", "broadcast")
    loc2 = loc_of(m2, fn2)
    q2 = "autograd.numpy.numpy_jvps.broadcast"
    ps2 = [a.arg for a in fn2.args.args]
    x2, tgt = syms[ps2[0]], syms[ps2[1]]
    is_meta = lambda t: t.op == "call" and t.fn.op == "ref" and t.fn.ref.qual.endswith(".metadata") and len(t.args) == 1 and t.args[0] is tgt
    t_shape = lambda t: (t.op == "sub" and is_meta(t.obj) and t.idx.op == "const" and t.idx.value == 0) or shape_of(t, lambda y: y is tgt)
    t_ndim = lambda t: (t.op == "sub" and is_meta(t.obj) and t.idx.op == "const" and t.idx.value == 1) or ndim_of(t, lambda y: y is tgt)
    t_cplx = lambda t: (t.op == "sub" and is_meta(t.obj) and t.idx.op == "const" and t.idx.value == 3) or (np_call(t, "iscomplexobj") and len(t.args) == 1 and t.args[0] is tgt)
    r = unseq(r) if r is not None else None
    okb = r is not None
    W = None
    if okb:
        is_xcx = lambda a: np_call(a, "iscomplexobj") and len(a.args) == 1 and a.args[0] is not tgt
        for tc in (True, False):
            for xc in (True, False):
                dec = lambda a, xc=xc, tc=tc: tc if t_cplx(a) else (xc if is_xcx(a) else None)
                cs = cases(specialise(r, dec))
                if len(cs) != 1 or cs[0].facts:
                    okb = False
                    continue
                leaf = cs[0].leaf
                if tc and not xc:
                    # promoted to complex: value + 0j / value * (1+0j) / astype(complex)
                    if leaf.op == "bin" and leaf.opname == "Add" and leaf.r.op == "const" and isinstance(leaf.r.value, complex) and leaf.r.value == 0:
                        leaf = leaf.l
                    elif leaf.op == "bin" and leaf.opname == "Add" and leaf.l.op == "const" and isinstance(leaf.l.value, complex) and leaf.l.value == 0:
                        leaf = leaf.r
                    else:
                        okb = False
                        continue
                if W is None:
                    W = leaf
                elif leaf is not W:
                    okb = False
    okb2 = okb1 = False
    if okb and W is not None and W.op == "loop" and W.get("it") is not None:
        it = W.it
        B1 = W.init
        if is_call_to(it, "builtins.enumerate") and len(it.args) == 1 and shape_of(it.args[0], lambda y: y is B1):
            is_size1 = lambda a: a.op == "cmp" and a.opname == "Eq" and ((comp(it, 1)(a.l) and a.r.op == "const" and a.r.value == 1) or (comp(it, 1)(a.r) and a.l.op == "const" and a.l.value == 1))
            okb2 = True
            saw = set()
            for c in cases(W.next):
                pol = c.pol(is_size1)
                if pol is None or any(not is_size1(a) for a, _ in c.facts):
                    okb2 = False
                    continue
                saw.add(pol)
                if pol:
                    lf = c.leaf
                    rep = arg(lf, 1, "repeats") if lf.op == "call" else None
                    good = np_call(lf, "repeat") and me(W)(lf.args[0]) and rep is not None and rep.op == "sub" and t_shape(rep.obj) and comp(it, 0)(rep.idx) and arg(lf, 2, "axis") is not None and comp(it, 0)(arg(lf, 2, "axis"))
                    okb2 = okb2 and bool(good)
                elif not me(W)(c.leaf):
                    okb2 = False
            okb2 = okb2 and saw == {True, False}
            if B1 is not None and B1.op == "loop" and B1.init is x2:
                nx = B1.next
                body_ok = np_call(nx, "expand_dims") and me(B1)(nx.args[0]) and arg(nx, 1, "axis") is not None and arg(nx, 1, "axis").op == "const" and arg(nx, 1, "axis").value == 0
                cnd = B1.get("cond")
                if cnd is not None:
                    a, pol = atom(cnd)
                    cond_ok = pol and a.op == "cmp" and a.opname == "Lt" and ndim_of(a.l, me(B1)) and t_ndim(a.r)
                else:
                    itr = B1.get("it")
                    cond_ok = itr is not None and is_call_to(itr, "builtins.range") and len(itr.args) == 1 and itr.args[0].op == "bin" and itr.args[0].opname == "Sub" and t_ndim(itr.args[0].l) and ndim_of(itr.args[0].r, lambda t: t is x2)
                okb1 = bool(body_ok and cond_ok)
    _ok(ctx, "A3.helper", "broadcast: expand to target_ndim, repeat size-1 axes to the target's size, return it", okb and okb1 and okb2, loc2, f"{q2}:structure", "broadcast(x, target) no longer expands leading axes and repeats size-1 axes up to the target's shape", "forward mode through add/subtract/mod with a smaller differentiated argument")


def _is_sum_of(assign, xp, keepdims, axis_name=None):
    import ast

    v = assign.value
    if not (isinstance(assign.targets[0], ast.Name) and assign.targets[0].id == xp and isinstance(v, ast.Call)):
        return False
    if getattr(v.func, "attr", getattr(v.func, "id", "")) != "sum":
        return False
    if not (v.args and isinstance(v.args[0], ast.Name) and v.args[0].id == xp):
        return False
    kws = {k.arg: k.value for k in v.keywords}
    if "axis" not in kws:
        return False
    if axis_name is not None and not (isinstance(kws["axis"], ast.Name) and kws["axis"].id == axis_name):
        return False
    kd = kws.get("keepdims")
    has_kd = isinstance(kd, ast.Constant) and kd.value is True
    return has_kd if keepdims else (kd is None or (isinstance(kd, ast.Constant) and kd.value is False))


def _ok(ctx, rule, inst, ok, loc, construct, why, witness):
    if ok:
        ctx.ob(rule, inst, True, loc)
    else:
        ctx.fail(rule, inst, construct, loc, why, witness)


def einsum_sublist_target(ctx, world):
    """A3.einsum - list-format einsum: the adjoint contraction einsum(g, sublist_out, <others...>, S) produces an
    array laid out by the sublist S it is given as ITS output, and unbroadcast_einsum(., meta, S') sums the broadcast
    (Ellipsis) axes at the position the Ellipsis has in S'.  Both must be the same sublist (the differentiated
    operand's own)."""
    from ..kfun import is_call_to, same
    from ..terms import walk
    from ..tutil import expand, unseq

    ctx.describe("A3.einsum", "in the VJP of list-format einsum the sublist handed to unbroadcast_einsum is the output sublist of the adjoint einsum whose result it reduces (the Ellipsis position that decides which axes are summed is the one of that array)")
    n = 0
    for e in world.table.entries:
        if e.mode != "vjp" or e.spec != "maker" or e.prim_id != "numpy.einsum":
            continue
        ir = world.ir(e)
        if ir is None or not ir.ok:
            continue
        res = unseq(expand(world.ev, ir.result, {"autograd.numpy.numpy_vjps.unbroadcast_einsum"}))
        for t in walk(res):
            if not (is_call_to(t, "autograd.numpy.numpy_vjps.unbroadcast_einsum") and len(t.args) == 3):
                continue
            E, M, S = t.args
            if not (E.op == "call" and len(E.args) >= 2 and any(a.op == "star" for a in E.args[1:])):
                continue
            # the output sublist is the LAST positional argument of the adjoint einsum: written out, or the last
            # element of a starred concatenation  *(... + [X])
            last = None
            if E.args[-1].op != "star":
                last = E.args[-1]
            cur = E.args[-1].x if E.args[-1].op == "star" else None
            for _ in range(8 if cur is not None else 0):
                while cur.op == "seq":
                    cur = cur.value
                if cur.op == "bin" and cur.opname == "Add":
                    cur = cur.r
                    continue
                if cur.op in ("list", "tuple") and cur.elts and cur.elts[-1].op != "star":
                    last = cur.elts[-1]
                break
            n += 1
            inst = "vjp:numpy.einsum (list format)"
            if last is None:
                ctx.ob("A3.einsum", inst, None, e.loc)
            elif last is S or same(last, S):
                ctx.ob("A3.einsum", inst, True, e.loc)
            else:
                ctx.fail("A3.einsum", inst, "vjp:numpy.einsum|sublist-target", e.loc, f"the adjoint einsum writes its result in the layout of `{str(last)[:50]}` but unbroadcast_einsum is told the layout `{str(S)[:50]}`: the Ellipsis (broadcast) axes are summed at the wrong position", "np.einsum(A, [..., 0, 1], B, [..., 1, 2], [0, 2, ...]) with A of shape (2, 3) and B of shape (5, 3, 4): the gradient for A has shape (5, 2)")
    ctx.floor("A3.einsum list-format adjoint", n, 1)


def rank_alignment(ctx, world, modes=("vjp", "jvp")):
    """A3.rank - NumPy aligns the shapes of broadcast operands from the RIGHT.  A rule that pairs the entries of two
    shapes with zip(shape(a), shape(b)) pairs them from the left: right only when both have the same rank.  Unless
    the rule establishes equal ranks (an assert / raising guard on len() or ndim) or aligns explicitly (reversed(..),
    a slice of one shape), the pairing is off by the rank difference - exactly in the configurations with prepended
    axes."""
    from ..kfun import same
    from ..terms import walk
    from ..tutil import expand

    ctx.describe("A3.rank", "a rule that pairs the entries of the shapes of two different arrays with zip(...) either establishes that both have the same rank (assert / raising guard comparing len() or ndim of the two) or aligns them from the right (reversed(...), a slice taken from the end): zip alone aligns from the left, NumPy broadcasting from the right")

    def shape_of(t):
        """the array whose shape the term is, or None"""
        while t.op == "seq":
            t = t.value
        if t.op == "attr" and t.name == "shape":
            o = t.obj
            if o.op == "call":
                r, _ = resolve_callee(world.ev, o)
                if r is not None and r.qual.endswith(".vspace") and o.args:
                    return o.args[0]
            return o
        if t.op == "call" and len(t.args) == 1:
            r, _ = resolve_callee(world.ev, t)
            if r is not None and is_numpy_callable(r) and base_name(r) == "shape":
                return t.args[0]
        return None

    n = 0
    for e in world.table.entries:
        if e.spec != "maker" or e.mode not in modes or not world.in_numpy_scope(e):
            continue
        ir = world.ir(e)
        if ir is None or not ir.ok:
            continue
        terms = [x for root in (ir.made, ir.result) if root is not None for x in walk(expand(world.ev, root, ("autograd.core.vspace",)))]
        zips = []
        for t in terms:
            if t.op == "call" and t.fn.op == "ref" and t.fn.ref.qual == "builtins.zip" and len(t.args) >= 2 and not any(t is z for z in zips):
                owners = [shape_of(a) for a in t.args]
                plain = [o for o in owners if o is not None]
                if len(plain) >= 2 and any(not (plain[0] is o or same(plain[0], o)) for o in plain[1:]):
                    zips.append(t)
        if not zips:
            continue
        # rank equality established somewhere in the rule: len(shape a) == len(shape b) / ndim(a) == ndim(b) in an
        # assertion or a condition
        def rank_eq(c):
            if c.op != "cmp" or c.opname not in ("Eq", "NotEq"):
                return False
            def rank_term(v):
                """0: not a rank; 1: the length of some sequence (a shape given as a parameter); 2: the rank of an array"""
                if v.op == "call" and v.fn.op == "ref" and v.fn.ref.qual == "builtins.len" and len(v.args) == 1:
                    return 2 if shape_of(v.args[0]) is not None else 1
                if v.op == "attr" and v.name == "ndim":
                    return 2
                if v.op == "call" and len(v.args) == 1:
                    r, _ = resolve_callee(world.ev, v)
                    return 2 if (r is not None and is_numpy_callable(r) and base_name(r) == "ndim") else 0
                return 0
            a_, b_ = rank_term(c.l), rank_term(c.r)
            return a_ and b_ and max(a_, b_) == 2

        established = any((t.op in ("assert", "when", "if") and any(rank_eq(x) for x in walk(t.cond))) for t in terms)
        for z in zips:
            n += 1
            inst = f"{construct_of(e)}|{(norm_text(z.node) if z.node is not None else str(z))[:50]}"
            if established:
                ctx.ob("A3.rank", inst, True, e.loc)
            else:
                ctx.fail("A3.rank", inst, f"{e.mode}:{e.prim_id}|zip-of-shapes", e.loc, f"`{(norm_text(z.node) if z.node is not None else str(z))[:70]}` pairs the entries of two shapes from the left and nothing in the rule establishes that the two arrays have the same rank: with prepended (broadcast) axes the pairs are shifted", "the operand with fewer dimensions than the result (axes prepended by broadcasting), with a size-1 axis that lines up - left-aligned - with a size-1 entry of the longer shape")
    if n == 0:
        ctx.ob("A3.rank", "no rule pairs the shapes of two different arrays entry by entry with zip()", True, "autograd/numpy/*", nontrivial=False)
    # common-rank promotion: kron.  The operands are brought to max(ndim a, ndim b) dimensions by PREPENDING ones; a
    # rule that promotes each operand on its own (atleast_2d(a), atleast_2d(b)) and never looks at the common rank
    # lays the axes out for operands of equal rank only.
    crp = set(facts.load("common_rank_promotion")["functions"])
    for e in world.table.entries:
        if e.spec != "maker" or e.mode not in modes or not world.in_numpy_scope(e) or not is_numpy_callable(e.prim) or base_name(e.prim) not in crp or e.argnum not in (0, 1):
            continue
        ir = world.ir(e)
        inst = f"{construct_of(e)}|common rank"
        if ir is None or not ir.ok:
            ctx.ob("A3.rank", inst, None, e.loc)
            continue
        terms = [x for root in (ir.made, ir.result) if root is not None for x in walk(expand(world.ev, root, ("autograd.core.vspace",)))]

        def rank_of(x):
            """0 / 1: the operand whose rank the term reads, 'ans', or None"""
            tgt = None
            if x.op == "attr" and x.name == "ndim":
                tgt = x.obj
            elif x.op == "call" and len(x.args) == 1:
                r_, _ = resolve_callee(world.ev, x)
                if r_ is not None and is_numpy_callable(r_) and base_name(r_) == "ndim":
                    tgt = x.args[0]
                elif r_ is not None and r_.qual == "builtins.len":
                    tgt = shape_of(x.args[0])
            if tgt is None:
                return None
            if tgt.op == "arg" and tgt.get("index") in (0, 1):
                return tgt.index
            if tgt.op == "sym" and tgt.get("role") == "ans":
                return "ans"
            return None

        knows = False
        for t in terms:
            if t.op not in ("bin", "cmp", "call", "bool", "if"):
                continue
            direct = [rank_of(c) for c in ([t.l, t.r] if t.op in ("bin", "cmp") else (list(t.args) if t.op == "call" else []))]
            if 0 in direct and 1 in direct:
                knows = True
        if any(rank_of(t) == "ans" for t in terms):
            knows = True
        if knows:
            ctx.ob("A3.rank", inst, True, e.loc)
        else:
            ctx.fail("A3.rank", inst, f"{e.mode}:{e.prim_id}|common-rank-never-read", e.loc, f"the rule of {base_name(e.prim)} never reads the rank the operands are promoted to (the answer's rank, or both operands' ranks in one expression such as max(ndim(a), ndim(b))): promoting each operand on its own is right only when both have the same rank", f"{base_name(e.prim)}(a, b) with b of three or more dimensions and a of fewer (a (3, 3), b (2, 3, 3)): the cotangent's axes are paired with the wrong operand axes")
    # trailing-aligned options: tile's reps.  `for axis, rep in enumerate(reps)` numbers the entries from axis 0; NumPy
    # aligns a short reps with the LAST axes.  The numbering has to start at (rank of the operand - len(reps)) - any
    # start expression that reads the operand's rank - unless the rule establishes equal lengths.
    opts = facts.load("trailing_aligned_options")["options"]
    for e in world.table.entries:
        if e.spec != "maker" or e.mode not in modes or not world.in_numpy_scope(e) or not is_numpy_callable(e.prim) or base_name(e.prim) not in opts or e.argnum != 0:
            continue
        oname = opts[base_name(e.prim)]
        ir = world.ir(e)
        if ir is None or not ir.ok:
            ctx.ob("A3.rank", f"{construct_of(e)}|{oname}", None, e.loc)
            continue
        terms = [x for root in (ir.made, ir.result) if root is not None for x in walk(expand(world.ev, root, ("autograd.core.vspace",)))]
        is_opt = lambda t: t.op == "arg" and t.get("name") == oname
        # (the rank of the operand, or of the answer: ndim(ans) - len(reps) is the same offset - 0 when reps is longer)
        is_arr = lambda v: (v.op == "arg" and v.get("index") == 0) or (v.op == "sym" and v.get("role") == "ans")
        reads_rank = lambda t: any((x.op == "attr" and x.name in ("ndim", "shape") and is_arr(x.obj)) or (x.op == "call" and len(x.args) == 1 and is_arr(x.args[0]) and (lambda r_: r_ is not None and is_numpy_callable(r_) and base_name(r_) in ("ndim", "shape"))(resolve_callee(world.ev, x)[0])) for x in walk(t))
        enums = []
        for t in terms:
            if t.op == "call" and t.fn.op == "ref" and t.fn.ref.qual == "builtins.enumerate" and t.args and any(is_opt(x) for x in walk(t.args[0])) and not any(t is z for z in enums):
                enums.append(t)
        guarded = any((t.op in ("assert", "when", "if") and any(c.op == "cmp" and c.opname in ("Eq", "NotEq", "Lt", "LtE", "Gt", "GtE") and any(is_opt(x) for x in walk(c)) and reads_rank(c) for c in walk(t.cond))) for t in terms)
        if not enums:
            uses = any(is_opt(x) for x in terms)
            ctx.ob("A3.rank", f"{construct_of(e)}|{oname}: no enumeration of the option by axis number", True if not uses else None, e.loc, nontrivial=False)
            continue
        for z in enums:
            start = z.args[1] if len(z.args) > 1 else z.kw.get("start")
            inst = f"{construct_of(e)}|{(norm_text(z.node) if z.node is not None else str(z))[:50]}"
            if (start is not None and reads_rank(start)) or guarded:
                ctx.ob("A3.rank", inst, True, e.loc)
            else:
                ctx.fail("A3.rank", inst, f"{e.mode}:{e.prim_id}|{oname}-numbered-from-axis-0", e.loc, f"`{(norm_text(z.node) if z.node is not None else str(z))[:60]}` numbers the entries of `{oname}` from axis 0; NumPy aligns a `{oname}` with fewer entries than the operand has axes with the TRAILING axes (prepends 1s): the entries are applied to the wrong axes", f"{base_name(e.prim)}(x, 2) on an array with ndim >= 2 whose leading axis has even length (the cotangent is split along axis 0 instead of the last axis)")


def restored_rank(ctx, world, modes=("vjp",)):
    """A3.restore - for the NumPy functions whose result does not have the operand's rank on some path (cumsum & co
    turn a 0-d operand into a length-1 vector; cumsum / repeat / sort / partition return the flattened, 1-D result
    when axis=None) the cotangent arrives with the RESULT's shape.  On those paths the value the VJP returns has to be
    brought to the operand's shape: its root is a reshape whose target is the operand's own shape."""
    from ..terms import walk as _walk
    from ..tutil import expand, specialise, truth, unseq

    tab = facts.load("rank_changing_results")
    prom, flat = set(tab["promotes_0d"]), set(tab["flattens_to_1d"])
    flat_args = {k_: set(v_) for k_, v_ in tab.get("flattens_arguments", {}).items()}
    prom2d, diagm = set(tab.get("promotes_1d_to_2d", [])), set(tab.get("diagonal_of_matrix", []))
    ctx.describe("A3.restore", "the VJP of a NumPy function whose result does not keep the operand's rank (cumsum family: a 0-d operand becomes a length-1 vector for every axis; cumsum / repeat / sort / partition: 1-D result when axis=None; outer: both arguments flattened; tril / triu: a 1-D operand broadcast to a square matrix; diag: the diagonal of a matrix of any aspect ratio) returns, on every such path, a value brought to the operand's own shape (reshape(., shape(x)) / .reshape(x.shape) / vspace(x).shape, unbroadcast(., metadata(x)), a crop .[:rows, :cols] with shape(x)'s entries; also under match_complex)")

    def shape_owner(t):
        while t.op == "seq":
            t = t.value
        if t.op == "attr" and t.name == "shape":
            o = t.obj
            if o.op == "call":
                r, _ = resolve_callee(world.ev, o)
                if r is not None and r.qual.endswith(".vspace") and o.args:
                    return o.args[0]
            return o
        if t.op == "call" and len(t.args) == 1:
            r, _ = resolve_callee(world.ev, t)
            if r is not None and is_numpy_callable(r) and base_name(r) == "shape":
                return t.args[0]
            if r is not None and r.qual in ("builtins.tuple", "builtins.list"):
                return shape_owner(t.args[0])
        if t.op == "sub" and t.idx.op == "const" and t.idx.value == 0 and t.obj.op == "call":
            r, _ = resolve_callee(world.ev, t.obj)
            if r is not None and r.qual.endswith(".metadata") and t.obj.args:
                return t.obj.args[0]
        return None

    def shape_entry_of(t, k):
        """is t an entry (or a slice bound built from an entry) of the shape of argument k?"""
        while t is not None and t.op == "seq":
            t = t.value
        if t is None:
            return False
        if t.op == "sub" and t.idx.op == "const" and isinstance(t.idx.value, int):
            o = shape_owner(t.obj)
            return o is not None and o.op == "arg" and o.get("index") == k
        return False

    def restoring(leaf, k, depth=0):
        """is the leaf brought to the shape of argument k: reshape(., shape(arg k)), unbroadcast(., metadata(arg k)),
        a crop `.[:rows, :cols]` with bounds taken from shape(arg k) - possibly under match_complex?"""
        while leaf.op == "seq":
            leaf = leaf.value
        if depth > 4:
            return False
        if leaf.op == "if":
            return restoring(leaf.then, k, depth + 1) and restoring(leaf.other, k, depth + 1)
        def crop_to_entry(i_):
            """`:n` / slice(None, n) / slice(n) with n an entry of shape(arg k)"""
            if i_.op == "slice":
                return i_.hi is not None and shape_entry_of(i_.hi, k)
            if i_.op == "call" and i_.fn.op == "ref" and i_.fn.ref.qual == "builtins.slice" and not i_.kw and 1 <= len(i_.args) <= 2:
                return shape_entry_of(i_.args[-1], k)
            return False

        if leaf.op == "sub" and leaf.idx.op == "tuple" and leaf.idx.elts and all(crop_to_entry(i_) for i_ in leaf.idx.elts):
            return True
        if leaf.op == "sub":
            # x[tuple(slice(0, n) for n in shape(arg k))]: one crop per entry of the argument's shape
            ix = leaf.idx
            while ix.op == "seq":
                ix = ix.value
            if ix.op == "call" and ix.fn.op == "ref" and ix.fn.ref.qual in ("builtins.tuple", "builtins.list") and len(ix.args) == 1:
                ix = ix.args[0]
            if ix.op == "comp" and not ix.conds:
                so = shape_owner(ix.src)
                el = ix.elt
                hi = el.hi if el.op == "slice" else (el.args[-1] if (el.op == "call" and el.fn.op == "ref" and el.fn.ref.qual == "builtins.slice" and 1 <= len(el.args) <= 2 and not el.kw) else None)
                if so is not None and so.op == "arg" and so.get("index") == k and hi is not None and hi.op == "iterelem" and hi.src is ix.src:
                    return True
        if leaf.op != "call":
            return False
        r0, pre0 = resolve_callee(world.ev, leaf)
        if r0 is not None and r0.kind in ("repo", "classattr"):
            a0 = list(pre0) + list(leaf.args)
            if r0.qual.endswith(".match_complex") and len(a0) >= 2:
                return restoring(a0[1], k, depth + 1)
            if r0.qual.endswith(".unbroadcast") and len(a0) >= 2:
                m_ = a0[1]
                while m_.op == "seq":
                    m_ = m_.value
                if m_.op == "call" and m_.args:
                    rm, _ = resolve_callee(world.ev, m_)
                    if rm is not None and rm.qual.endswith(".metadata") and m_.args[0].op == "arg" and m_.args[0].get("index") == k:
                        return True
                return False
        target = None
        r, pre = resolve_callee(world.ev, leaf)
        if r is not None and is_numpy_callable(r) and base_name(r) == "reshape":
            allargs = list(pre) + list(leaf.args)
            target = leaf.kw.get("shape") or leaf.kw.get("newshape") or (allargs[1] if len(allargs) >= 2 else None)
        elif leaf.fn.op == "attr" and leaf.fn.name == "reshape" and leaf.args:
            target = leaf.args[0] if len(leaf.args) == 1 else None
        if target is None:
            return False
        o = shape_owner(target)
        return o is not None and o.op == "arg" and o.get("index") == k

    def leaves(t, open_conds=()):
        """(leaf, the undecided conditions above it)"""
        if t.op == "seq":
            yield from leaves(t.value, open_conds)
        elif t.op == "if":
            yield from leaves(t.then, open_conds + (t.cond,))
            yield from leaves(t.other, open_conds + (t.cond,))
        elif t.op != "raise":
            yield t, open_conds

    n = 0
    for e in world.table.entries:
        if e.spec != "maker" or e.mode not in modes or not world.in_numpy_scope(e) or not is_numpy_callable(e.prim) or not isinstance(e.argnum, int):
            continue
        bn = base_name(e.prim)
        if not ((e.argnum == 0 and (bn in prom or bn in flat or bn in prom2d or bn in diagm)) or e.argnum in flat_args.get(bn, ())):
            continue
        ir = world.ir(e)
        if ir is None or not ir.ok or ir.result is None:
            continue
        psig = world.env.signature(e.prim.qual)
        k_axis = psig["pos"].index("axis") if psig and "axis" in psig["pos"] else None

        def is_axis_arg(t):
            return t.op == "arg" and (t.get("name") == "axis" or (k_axis is not None and t.get("index") == k_axis))

        UNK = object()

        def val(t, depth=0):
            """the value of a term when the primitive was called with axis=None (UNK: not a known constant)"""
            while t.op == "seq":
                t = t.value
            if depth > 12:
                return UNK
            if is_axis_arg(t):
                return None
            if t.op == "const":
                return t.value
            if t.op == "if":
                d = truth(t.cond, decide)
                return UNK if d is None else val(t.then if d else t.other, depth + 1)
            return UNK

        def decide(a):
            if a.op == "cmp" and a.opname in ("Is", "Eq", "IsNot", "NotEq"):
                l, r = val(a.l), val(a.r)
                if l is not UNK and r is not UNK and (l is None or r is None):
                    eq = l is None and r is None
                    return eq if a.opname in ("Is", "Eq") else not eq
                return None
            v = val(a)
            if v is None:
                return False  # truthiness of None
            return None

        def axis_dependent(c):
            return any(is_axis_arg(x) for x in _walk(c))

        res = expand(world.ev, ir.result, ("autograd.core.vspace", "autograd.numpy.numpy_vjps.unbroadcast", "autograd.numpy.numpy_vjps.match_complex"))
        paths = []
        if e.argnum in flat_args.get(bn, ()):
            paths.append(("flattened argument", res, f"an argument of {bn} with ndim != 1 (a matrix, a 0-d value): {bn} works on the flattened argument, the cotangent computed for it is 1-D"))
        elif bn in prom2d:
            paths.append(("1-D operand", res, f"a 1-D operand: {bn} broadcasts it to a square matrix, the cotangent is 2-D"))
        elif bn in diagm:
            def decide_2d(a_):
                # the valuation "the operand is a matrix": ndim(x) == 2
                if a_.op == "cmp" and a_.opname in ("Eq", "NotEq"):
                    for l_, r_ in ((a_.l, a_.r), (a_.r, a_.l)):
                        nd_ = (l_.op == "attr" and l_.name == "ndim" and l_.obj.op == "arg" and l_.obj.get("index") == 0) or (l_.op == "call" and len(l_.args) == 1 and l_.args[0].op == "arg" and l_.args[0].get("index") == 0 and (lambda rr: rr is not None and is_numpy_callable(rr) and base_name(rr) == "ndim")(resolve_callee(world.ev, l_)[0]))
                        if nd_ and r_.op == "const" and type(r_.value) is int:
                            return (r_.value == 2) if a_.opname == "Eq" else (r_.value != 2)
                return None
            paths.append(("2-D operand", specialise(res, decide_2d), "a non-square matrix: np.diag(g, k) of the 1-D cotangent is square, the operand is not"))
        elif bn in prom:
            paths.append(("every axis (0-d operand)", res, "a 0-d operand (NumPy scalar, 0-d array) with axis=0 or axis=-1: the result and the cotangent have shape (1,), the operand has shape ()"))
        elif bn in flat:
            paths.append(("axis=None", specialise(res, decide), "a 0-d (or, where accepted, n-d) operand with axis=None: the result is the flattened, 1-D array"))
        for label, root, witness in paths:
            for leaf, open_conds in leaves(root):
                n += 1
                txt = (norm_text(leaf.node) if leaf.node is not None else str(leaf))[:60]
                inst = f"{construct_of(e)}|{label}|{txt}"
                if restoring(leaf, e.argnum):
                    ctx.ob("A3.restore", inst, True, e.loc)
                elif label == "axis=None" and any(axis_dependent(c) for c in open_conds):
                    # whether this leaf lies on the axis=None path hangs on a condition computed from the axis in a
                    # way the valuation does not decide: not a report
                    ctx.ob("A3.restore", inst, None, e.loc)
                else:
                    ctx.fail("A3.restore", inst, f"{e.mode}:{e.prim_id}|not-restored|{label}", e.loc, f"on the path `{label}` the rule of {bn} returns `{txt}` without reshaping it to the operand's shape: {bn}'s result (and so the cotangent) does not have the operand's rank there", witness)
    ctx.floor("A3.restore leaves", n, 3)
