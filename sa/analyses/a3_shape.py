"""A3 - shape-support abstract interpretation (broadcast discipline).

Abstract value of an array-valued term = the set of *shape sources* whose broadcast it has: a frozenset
of primitive-argument positions.  `ans` and (in a VJP) `g` have the support of all broadcasting
arguments.  None = TOP (unknown)."""
from .. import facts
from ..terms import T
from .common import base_name, callee_ref, construct_of, is_numpy_callable, project, resolve_callee

TOP = None


def broadcasting_args(world, ref):
    """Positions of the arguments of primitive `ref` that broadcast against each other, or None."""
    if not is_numpy_callable(ref):
        return None
    bn = base_name(ref)
    ns, _, name = ref.qual.rpartition(".")
    uf = world.env.ufunc(ns, name)
    if uf is not None and uf.nin >= 2:
        return list(range(uf.nin))
    ex = facts.load("broadcasting")["broadcasting_extra"].get(bn)
    if ex:
        return ex["args"]
    return None


class Supp:
    def __init__(self, world, ansset, g_supp, argnum_sym=None):
        self.world, self.ev = world, world.ev
        self.ans = frozenset(ansset)
        self.g = frozenset(g_supp)
        self.memo = {}
        self.why = []
        self.elem = set(facts.load("broadcasting")["elementwise_functions"]) - {"_doc"}

    def blame(self, t, msg):
        if len(self.why) < 4:
            self.why.append(f"{msg} (line {t.line})")

    def of(self, t):
        if t is None:
            return frozenset()
        k = id(t)
        if k in self.memo:
            return self.memo[k][1]
        self.memo[k] = (t, TOP)
        r = self._of(t)
        self.memo[k] = (t, r)
        return r

    def union(self, xs):
        out = frozenset()
        for x in xs:
            if x is TOP:
                return TOP
            out |= x
        return out

    def _meta_target(self, m):
        """Which source does a metadata / shape term describe?"""
        if m is None:
            return TOP
        if m.op == "call":
            r, _ = resolve_callee(self.ev, m)
            if r is not None and r.qual.rsplit(".", 1)[-1] in ("metadata", "shape", "vspace") and m.args:
                return self._source(m.args[0])
            rr = self.ev.inline(m)
            if rr is not None:
                return self._meta_target(rr)
        if m.op == "attr" and m.name == "shape":
            return self._source(m.obj)
        if m.op == "call" and m.fn.op == "ref" and m.fn.ref.qual.rsplit(".", 1)[-1] in ("array", "asarray", "tuple", "list") and m.args:
            return self._meta_target(m.args[0])
        if m.op == "sub" and m.idx.op != "const":
            # a selection of the entries of a shape: still sized by that source
            return self._meta_target(m.obj)
        if m.op == "sub" and m.idx.op == "const" and m.idx.value == 0:
            # metadata(x)[0] is the shape
            return self._meta_target(m.obj)
        if m.op == "if":
            a, b = self._meta_target(m.then), self._meta_target(m.other)
            return a if a == b else TOP
        return TOP

    def _source(self, x):
        if "others" in self.ans and x.op == "sub":
            return self.of(x)
        if x.op == "arg" and isinstance(x.index, int):
            return frozenset([x.index])
        if x.op == "sym" and x.get("role") == "ans":
            return self.ans
        if x.op == "sym" and x.get("role") == "g":
            return self.g
        if x.op == "sub" and x.obj.op == "rest" and x.idx.op == "sym" and x.idx.get("role") == "argnum":
            return frozenset(["argnum"])
        return self.of(x)

    def _of(self, t):
        o = t.op
        if o == "sym":
            role = t.get("role")
            if role == "g":
                return self.g
            if role == "ans":
                return self.ans
            return frozenset()
        if o == "arg":
            if isinstance(t.index, int):
                return frozenset([t.index])
            return frozenset()
        if o == "const":
            return frozenset()
        if o == "rest":
            return frozenset(["others"]) if "others" in self.ans else TOP
        if o == "star":
            return self.of(t.x)
        if o in ("tuple", "list") and "others" in self.ans:
            return self.union([self.of(e) for e in t.elts])
        if o == "bin":
            return self.union([self.of(t.l), self.of(t.r)])
        if o == "un":
            return self.of(t.x)
        if o in ("cmp",):
            return self.union([self.of(t.l), self.of(t.r)])
        if o == "bool":
            return self.union([self.of(v) for v in t.vals])
        if o == "if":
            a, b = self.of(t.then), self.of(t.other)
            if t.then.op == "raise":
                return b
            if t.other.op == "raise":
                return a
            if a == b:
                return a
            if a is not TOP and b is not TOP:
                return a | b  # an upper bound: whichever branch is taken, the support is within the union
            self.blame(t, "branches with different shape support")
            return TOP
        if o == "seq":
            return self.of(t.value)
        if o == "attr":
            if t.name in ("T", "real", "imag"):
                return self.of(t.obj)
            return TOP
        if o == "sub":
            if t.idx.op == "const" and isinstance(t.idx.value, int):
                pr = project(self.ev, t.obj, t.idx.value)
                if pr is not None:
                    return self.of(pr)
            if "others" in self.ans:
                # operands of a variadic contraction: args[argnum] is the differentiated one, slices are the others
                base = t.obj
                while base.op == "sub":
                    base = base.obj
                if base.op == "rest":
                    from ..terms import walk as _walk

                    if t.idx.op != "slice" and any(x.op == "sym" and x.get("role") == "argnum" for x in _walk(t.idx)):
                        return frozenset(["argnum"])
                    if t.idx.op == "slice":
                        return frozenset(["others"])
            return TOP
        if o == "loop":
            a = self.of(t.init)
            return a  # loops used in rules keep the shape class of their accumulator (checked: next is elementwise on it) - conservative: TOP unless equal
        if o == "call":
            return self._call(t)
        return TOP

    def _call(self, t):
        fn = t.fn
        if fn.op == "attr":
            # methods: x.conj() etc keep shape
            if fn.name in ("conj", "conjugate", "copy", "astype"):
                return self.of(fn.obj)
            if fn.name == "zeros" and not t.args:
                # vspace(x).zeros()
                return self._meta_target(fn.obj)
            return TOP
        ref, pre = resolve_callee(self.ev, t)
        args = list(pre) + list(t.args)
        if ref is not None and is_numpy_callable(ref):
            bn = base_name(ref)
            ns, _, name = ref.qual.rpartition(".")
            uf = self.world.env.ufunc(ns, name)
            if uf is not None or bn in self.elem:
                n = uf.nin if uf is not None else len(args)
                return self.union([self.of(a) for a in args[:n]])
            if bn in ("expand_dims", "swapaxes", "squeeze", "transpose", "moveaxis", "rollaxis", "flip", "roll", "negative", "copy") and args:
                # re-indexing keeps the set of shape sources (not the layout; that is not tracked here)
                return self.of(args[0])
            if bn == "einsum" and "others" in self.ans:
                ops = [self.of(a) for a in args[1:]]
                return self.union([o for o in ops])
            if bn in ("cross", "matmul") and len(args) >= 2:
                # leading (batch) dimensions of both operands broadcast into the result
                return self.union([self.of(args[0]), self.of(args[1])])
            if bn in ("sum", "mean", "prod", "max", "min", "amax", "amin", "any", "all", "nansum"):
                if len(args) == 1 and not ({"axis", "keepdims"} & set(t.kw)):
                    return frozenset()  # full reduction: a scalar
                return TOP
            if bn == "reshape" and len(args) >= 2:
                return self._meta_target(args[1])
            if bn == "broadcast_to" and len(args) >= 2:
                return self._meta_target(args[1])
            if bn in ("zeros", "ones", "empty", "full") and args:
                return self._meta_target(args[0])
            if bn in ("zeros_like", "ones_like", "empty_like", "full_like") and args:
                return self.of(args[0])
            if bn in ("asarray", "array", "copy", "ascontiguousarray") and args:
                return self.of(args[0])
            if bn in ("shape", "ndim", "size"):
                return frozenset()
            return TOP
        if ref is not None and ref.kind in ("repo", "classattr"):
            q = ref.qual
            if q == "autograd.numpy.numpy_vjps.unbroadcast" and len(args) >= 2:
                return self._meta_target(args[1])
            if q == "autograd.numpy.numpy_jvps.broadcast" and len(args) >= 2:
                return self._source(args[1])
            if q == "autograd.numpy.numpy_vjps.match_complex" and len(args) >= 2:
                return self.of(args[1])
            if q == "autograd.numpy.numpy_vjps.repeat_to_match_shape" and len(args) >= 2:
                return TOP
        r = self.ev.inline(t)
        if r is not None:
            return self.of(r)
        return TOP


def fmt(s, ansset=None):
    if s is TOP:
        return "TOP"
    return "{" + ",".join(str(x) for x in sorted(s, key=str)) + "}"


W_VJP = "argument {k} of shape (1,) or a Python scalar against the other argument(s) of shape (3,): the returned cotangent has the broadcast shape, not the argument's"
W_JVP = "the differentiated argument smaller than the broadcast result (e.g. shape () against (2,3)): the tangent does not have the output's shape"


def vjp(ctx, world):
    ctx.describe("A3.vjp", "for every VJP rule of a broadcasting primitive (binary ufuncs by metadata + where/clip/cross/full/matmul/einsum) the backward-time result has shape support exactly {the differentiated argument}: it passes through unbroadcast (or an equivalent reduction) aimed at that argument on every path")
    n = 0
    for e in world.table.entries:
        if e.mode != "vjp" or e.spec != "maker" or not world.in_numpy_scope(e):
            continue
        ba = broadcasting_args(world, e.prim)
        if ba is None:
            continue
        ir = world.ir(e)
        if ir is None or not ir.ok:
            ctx.ob("A3.vjp", construct_of(e), None, e.loc)
            continue
        if ba == "operands":
            k = "argnum" if e.argnum is None else e.argnum
            ansset = {"argnum", "others"}
        else:
            if e.argnum is None or e.argnum not in ba:
                continue
            k = e.argnum
            ansset = set(ba)
        n += 1
        S = Supp(world, ansset, ansset)
        from ..ruleir import deep_leaves

        verdicts = []
        for conds, leaf in deep_leaves(world.ev, ir.result):
            if any(c.op == "cmp" and c.opname == "NotIn" and pol and c.l.op == "ref" and c.l.ref.qual == "builtins.Ellipsis" for c, pol in conds):
                continue  # sublist convention without an ellipsis: einsum cannot broadcast, nothing to reduce
            verdicts.append((S.of(leaf), leaf))
        bad = [(s, l) for s, l in verdicts if s is not TOP and s != frozenset([k])]
        und = [(s, l) for s, l in verdicts if s is TOP]
        nf = "; ".join(sorted({fmt(s) for s, _ in verdicts}))
        if bad:
            s, l = bad[0]
            ctx.fail(
                "A3.vjp",
                construct_of(e),
                construct_of(e),
                e.loc,
                f"cotangent for argument {k} has shape support {fmt(s)} (broadcast of arguments {fmt(s)}), expected {{{k}}}: no unbroadcast aimed at argument {k} on this path",
                W_VJP.format(k=k),
                sample=nf,
            )
        elif und:
            ctx.ob("A3.vjp", construct_of(e), None, e.loc, sample=nf + " " + "; ".join(S.why))
        else:
            ctx.ob("A3.vjp", construct_of(e), True, e.loc, sample=nf)
    ctx.floor("A3.vjp instances", n, 32)


def jvp(ctx, world):
    ctx.describe("A3.jvp", "for every custom JVP rule of a broadcasting primitive the tangent has the support of the output (contains every broadcasting argument, or passes through broadcast(., ans))")
    n = 0
    for e in world.table.entries:
        if e.mode != "jvp" or e.spec != "maker" or not world.in_numpy_scope(e):
            continue
        ba = broadcasting_args(world, e.prim)
        if ba is None or ba == "operands" or e.argnum is None or e.argnum not in ba:
            continue
        ir = world.ir(e)
        if ir is None or not ir.ok:
            ctx.ob("A3.jvp", construct_of(e), None, e.loc)
            continue
        n += 1
        ansset = frozenset(ba)
        S = Supp(world, ansset, {e.argnum})
        from ..ruleir import leaves

        verdicts = [(S.of(leaf), leaf) for _, leaf in leaves(world.ev, ir.result)]
        bad = [(s, l) for s, l in verdicts if s is not TOP and not (s >= ansset)]
        und = [1 for s, _ in verdicts if s is TOP]
        nf = "; ".join(sorted({fmt(s) for s, _ in verdicts}))
        if bad:
            s = bad[0][0]
            ctx.fail(
                "A3.jvp",
                construct_of(e),
                construct_of(e),
                e.loc,
                f"tangent has shape support {fmt(s)} but the output is the broadcast of arguments {fmt(ansset)}",
                W_JVP,
                sample=nf,
            )
        elif und:
            ctx.ob("A3.jvp", construct_of(e), None, e.loc, sample=nf)
        else:
            ctx.ob("A3.jvp", construct_of(e), True, e.loc, sample=nf)
    ctx.floor("A3.jvp instances", n, 24)


# ------------------------------------------------------------------------------------------- A3.helper
def helpers(ctx, world):
    """The summarised helpers themselves: unbroadcast reduces exactly by the TARGET's metadata."""
    import ast

    from ..model import AnalysisError, norm_text
    from .common import loc_of

    ctx.describe("A3.helper", "unbroadcast(x, target_meta): (1) sums leading axes while ndim(x) > target_ndim, (2) for every axis where the TARGET's size is 1 sums that axis with keepdims=True - decided by the target's metadata only, never by x's own shape -, (3) casts complex to real only when the target is real; broadcast(x, target) mirrors it (expand to target_ndim, repeat size-1 axes to the target's size, real -> complex only when the target is complex)")
    m, fn = world.repo.find_def("autograd.numpy.numpy_vjps", "unbroadcast")
    loc = loc_of(m, fn)
    q = "autograd.numpy.numpy_vjps.unbroadcast"
    xp = fn.args.args[0].arg
    metap = fn.args.args[1].arg
    # names unpacked from the metadata tuple
    unpack = None
    for st in fn.body:
        if isinstance(st, ast.Assign) and isinstance(st.targets[0], ast.Tuple) and isinstance(st.value, ast.Name) and st.value.id == metap and len(st.targets[0].elts) == 4:
            unpack = [e.id for e in st.targets[0].elts]
    if unpack is None:
        raise AnalysisError("unbroadcast no longer unpacks (shape, ndim, dtype, iscomplex) from its metadata argument")
    t_shape, t_ndim, _, t_cplx = unpack
    whiles = [s for s in fn.body if isinstance(s, ast.While)]
    fors = [s for s in fn.body if isinstance(s, ast.For)]
    ifs = [s for s in fn.body if isinstance(s, ast.If)]

    def names(n):
        return {x.id for x in ast.walk(n) if isinstance(x, ast.Name)}

    # (1)
    ok1 = False
    if len(whiles) == 1:
        w = whiles[0]
        c = w.test
        ok1 = isinstance(c, ast.Compare) and len(c.ops) == 1 and isinstance(c.ops[0], ast.Gt) and isinstance(c.comparators[0], ast.Name) and c.comparators[0].id == t_ndim and xp in names(c.left) and len(w.body) == 1 and isinstance(w.body[0], ast.Assign) and _is_sum_of(w.body[0], xp, keepdims=False)
    _ok(ctx, "A3.helper", "unbroadcast: sum leading axes while ndim(x) > target_ndim", ok1, loc, f"{q}:leading", "the leading-axes reduction of unbroadcast is not `while ndim(x) > target_ndim: x = sum(x, axis=broadcast_idx)`", "a scalar or lower-rank argument broadcast against a higher-rank one")
    # (2)
    ok2 = False
    why2 = "no `for axis, size in enumerate(target_shape)` loop"
    if len(fors) == 1:
        f = fors[0]
        it = f.iter
        if isinstance(it, ast.Call) and isinstance(it.func, ast.Name) and it.func.id == "enumerate" and len(it.args) == 1 and isinstance(it.args[0], ast.Name) and it.args[0].id == t_shape and isinstance(f.target, ast.Tuple) and len(f.target.elts) == 2:
            axv, szv = [e.id for e in f.target.elts]
            if len(f.body) == 1 and isinstance(f.body[0], ast.If) and not f.body[0].orelse:
                cond = f.body[0].test
                cn = names(cond)
                cond_ok = isinstance(cond, ast.Compare) and len(cond.ops) == 1 and isinstance(cond.ops[0], ast.Eq) and isinstance(cond.left, ast.Name) and cond.left.id == szv and isinstance(cond.comparators[0], ast.Constant) and cond.comparators[0].value == 1
                body_ok = len(f.body[0].body) == 1 and isinstance(f.body[0].body[0], ast.Assign) and _is_sum_of(f.body[0].body[0], xp, keepdims=True, axis_name=axv)
                if not cond_ok:
                    why2 = f"the size-1 reduction is guarded by `{norm_text(cond)}`, which is not just `size == 1` on the TARGET's shape" + (" (it also reads x)" if xp in cn else "")
                elif not body_ok:
                    why2 = "the size-1 reduction is not `x = sum(x, axis=axis, keepdims=True)`"
                ok2 = cond_ok and body_ok
    _ok(ctx, "A3.helper", "unbroadcast: every target axis of size 1 is summed with keepdims, decided by the target only", ok2, loc, f"{q}:size1", why2, "an argument with a size-1 axis broadcast against an array whose matching axis has length 0 (empty batch) or 1")
    # (3)
    ok3 = False
    for i in ifs:
        c = i.test
        if isinstance(c, ast.BoolOp) and isinstance(c.op, ast.And) and len(c.values) == 2:
            a, b = c.values
            a_ok = isinstance(a, ast.Call) and getattr(a.func, "attr", getattr(a.func, "id", "")) == "iscomplexobj" and xp in names(a)
            b_ok = isinstance(b, ast.UnaryOp) and isinstance(b.op, ast.Not) and isinstance(b.operand, ast.Name) and b.operand.id == t_cplx
            body_ok = len(i.body) == 1 and isinstance(i.body[0], ast.Assign) and isinstance(i.body[0].value, ast.Call) and getattr(i.body[0].value.func, "attr", "") == "real"
            ok3 = a_ok and b_ok and body_ok and not i.orelse
    _ok(ctx, "A3.helper", "unbroadcast: complex -> real only when the target is real", ok3, loc, f"{q}:kind", "the kind cast of unbroadcast is not `if iscomplexobj(x) and not target_iscomplex: x = real(x)`", "a real argument combined with a complex one")
    rets = [s for s in fn.body if isinstance(s, ast.Return)]
    okr = len(rets) == 1 and isinstance(rets[0].value, ast.Name) and rets[0].value.id == xp and fn.body[-1] is rets[0]
    _ok(ctx, "A3.helper", "unbroadcast: single return of the reduced value", okr, loc, f"{q}:return", "unbroadcast has an early / different return", "any broadcasting binary operation")
    # broadcast (numpy_jvps)
    m2, fn2 = world.repo.find_def("autograd.numpy.numpy_jvps", "broadcast")
    loc2 = loc_of(m2, fn2)
    q2 = "autograd.numpy.numpy_jvps.broadcast"
    xp2, tp2 = fn2.args.args[0].arg, fn2.args.args[1].arg
    wh = [s for s in fn2.body if isinstance(s, ast.While)]
    fo = [s for s in fn2.body if isinstance(s, ast.For)]
    okb1 = len(wh) == 1 and isinstance(wh[0].test, ast.Compare) and isinstance(wh[0].test.ops[0], ast.Lt) and any(isinstance(c, ast.Call) and getattr(c.func, "attr", "") == "expand_dims" for c in ast.walk(wh[0]))
    okb2 = False
    if len(fo) == 1 and len(fo[0].body) == 1 and isinstance(fo[0].body[0], ast.If):
        c = fo[0].body[0].test
        okb2 = isinstance(c, ast.Compare) and isinstance(c.ops[0], ast.Eq) and isinstance(c.comparators[0], ast.Constant) and c.comparators[0].value == 1 and any(isinstance(x, ast.Call) and getattr(x.func, "attr", "") == "repeat" for x in ast.walk(fo[0].body[0]))
    okb3 = isinstance(fn2.body[-1], ast.Return) and isinstance(fn2.body[-1].value, ast.Name) and fn2.body[-1].value.id == xp2
    _ok(ctx, "A3.helper", "broadcast: expand to target_ndim, repeat size-1 axes to the target's size, return it", okb1 and okb2 and okb3, loc2, f"{q2}:structure", "broadcast(x, target) no longer expands leading axes and repeats size-1 axes up to the target's shape", "forward mode through add/subtract/mod with a smaller differentiated argument")


def _is_sum_of(assign, xp, keepdims, axis_name=None):
    import ast

    v = assign.value
    if not (isinstance(assign.targets[0], ast.Name) and assign.targets[0].id == xp and isinstance(v, ast.Call)):
        return False
    if getattr(v.func, "attr", getattr(v.func, "id", "")) != "sum":
        return False
    if not (v.args and isinstance(v.args[0], ast.Name) and v.args[0].id == xp):
        return False
    kws = {k.arg: k.value for k in v.keywords}
    if "axis" not in kws:
        return False
    if axis_name is not None and not (isinstance(kws["axis"], ast.Name) and kws["axis"].id == axis_name):
        return False
    kd = kws.get("keepdims")
    has_kd = isinstance(kd, ast.Constant) and kd.value is True
    return has_kd if keepdims else (kd is None or (isinstance(kd, ast.Constant) and kd.value is False))


def _ok(ctx, rule, inst, ok, loc, construct, why, witness):
    if ok:
        ctx.ob(rule, inst, True, loc)
    else:
        ctx.fail(rule, inst, construct, loc, why, witness)
