"""A14 (delegation tables of Box subclasses), A15 (differential-operator wiring), A6 (guards, error
discipline, wrapper signatures, raw calls)."""
import ast

from .. import facts
from ..kfun import calls_in, contains, eval_function, is_call_to, paths, same, strip_seq
from ..model import AnalysisError, norm_text
from ..regs import class_lookup, class_mro
from ..ruleir import leaves
from ..terms import Scope, T, children, walk
from .common import base_name, construct_of, deep_terms, is_numpy_callable, loc_of, locally_constant, resolve_callee

BOXES = "autograd.numpy.numpy_boxes"


def _ret_expr(fn):
    if isinstance(fn, ast.Lambda):
        return fn.body
    body = [s for s in fn.body if not (isinstance(s, ast.Expr) and isinstance(s.value, ast.Constant))]
    if len(body) == 1 and isinstance(body[0], ast.Return):
        return body[0].value
    return None


# --------------------------------------------------------------------------------------------- A14
def arraybox_table(ctx, world):
    ctx.describe("A14", "every special method of ArrayBox maps to the NumPy function and operand order the Python data model assigns to it; comparison methods map to untraced (notrace) functions; shape/ndim/size/dtype return the same-named attribute of the raw value; __len__/__bool__ read the raw value; no in-place/assignment special method exists")
    ops = facts.load("operator_table")
    m = world.repo.mod(BOXES)
    ab = world.repo.resolve(m, "ArrayBox")
    if ab is None or ab.kind != "repo":
        raise AnalysisError("ArrayBox vanished")
    cls = ab.node
    methods = {st.name: st for st in cls.body if isinstance(st, ast.FunctionDef)}
    assigns = {}
    for st in cls.body:
        if isinstance(st, ast.Assign):
            for t in st.targets:
                if isinstance(t, ast.Name):
                    assigns[t.id] = st.value
                    if isinstance(st.value, ast.Lambda) and t.id.startswith("__") and t.id.endswith("__"):
                        methods[t.id] = st.value  # __eq__ = lambda self, other: ...
                    elif isinstance(st.value, (ast.Call, ast.Subscript, ast.Name, ast.Attribute)) and t.id.startswith("__") and t.id.endswith("__") and t.id not in ("__slots__", "__array_priority__", "__doc__", "__module__", "__qualname__"):
                        methods[t.id] = (st.value, m)  # __neg__ = _unary_method("negative")
                elif isinstance(t, (ast.Tuple, ast.List)) and all(isinstance(x, ast.Name) for x in t.elts):
                    # __add__, __radd__ = _operator_pair("add"): component i of the value
                    from ..model import static_sequence

                    seq_ = static_sequence(st.value)
                    for i_, x in enumerate(t.elts):
                        if x.id.startswith("__") and x.id.endswith("__"):
                            comp_ = seq_[i_] if (seq_ is not None and len(seq_) == len(t.elts)) else ast.Subscript(value=st.value, slice=ast.Constant(value=i_), ctx=ast.Load())
                            methods[x.id] = (ast.fix_missing_locations(ast.copy_location(comp_, st.value)) if not hasattr(comp_, "lineno") else comp_, m)
    # special methods attached after the class body (setattr / attribute assignment, possibly in a loop over a table)
    for cq, aname, tgt, sm, site, expr in world.table.setattrs:
        if cq == ab.qual and aname.startswith("__") and aname.endswith("__") and expr is not None:
            methods[aname] = (expr, sm)
    nt_v = world.table.notrace_quals("autograd.core.VJPNode")
    nt_j = world.table.notrace_quals("autograd.core.JVPNode")
    n = 0
    from ..tutil import expand, unseq

    ev = world.ev

    def body_term(fn, owner="ArrayBox", mod=BOXES):
        """(evaluated body with local helpers inlined, [parameter symbols]) of a method given as a def in the
        class body, a lambda assigned in the class body, or an expression attached with setattr / attribute
        assignment after the class (possibly the result of a factory call)"""
        if isinstance(fn, ast.FunctionDef) and getattr(fn, "_parent", None) is not None and isinstance(fn._parent, ast.ClassDef):
            res, sy, m_, fn_, sc_ = eval_function(world, mod, f"{owner}.{fn.name}")
            res = unseq(expand(ev, res, ("autograd.numpy.numpy_wrapper._astype",))) if res is not None else None
            return res, [sy[a.arg] for a in fn.args.args]
        if isinstance(fn, tuple):
            expr, emod = fn
            v = ev.ev(expr, Scope(), emod)
        else:
            v = T("closure", fn, m, fnode=fn, scope=Scope(), bound=[], boundkw={})
        v = unseq(expand(ev, v, ())) if v.op != "closure" else v
        clo, pre, prekw = ev.as_closure(v)
        if clo is None or pre or prekw:
            return None, []
        a = clo.fnode.args
        names = [p.arg for p in a.posonlyargs + a.args]
        ps = [T("sym", name=nm_, role="param") for nm_ in names]
        res = ev.apply(clo, list(ps), {}, [])
        res = unseq(expand(ev, res, ("autograd.numpy.numpy_wrapper._astype",))) if res is not None else None
        return res, ps

    def wrapped_of(t):
        if t is None or t.op != "call":
            return None
        r, pre = resolve_callee(ev, t)
        return r if (r is not None and r.kind == "wrapped" and not pre) else None

    def value_of(t, selfs):
        return t.op == "attr" and t.name == "_value" and t.obj is selfs

    for name, fn in sorted(methods.items()):
        loc = loc_of(m, fn) if not isinstance(fn, tuple) else loc_of(fn[1], fn[0])
        inst = f"ArrayBox.{name}"
        if name in ops["binary"]:
            n += 1
            want_fn, order = ops["binary"][name]
            e, ps = body_term(fn)
            ok = False
            why = "body is not `return anp.<function>(a, b)`"
            r = wrapped_of(e)
            if r is not None and len(e.args) == 2 and not e.kw and len(ps) == 2:
                want_args = [ps[0], ps[1]] if order == "self,other" else [ps[1], ps[0]]
                allowed = ops["aliases"].get(want_fn, [want_fn])
                obj_ok = r.name in allowed or world.env.get("numpy", r.name) is world.env.get("numpy", want_fn)
                if not obj_ok:
                    why = f"maps to numpy.{r.name}, the data model says numpy.{want_fn}"
                elif not all(a is b for a, b in zip(e.args, want_args)):
                    why = f"operands are passed as ({', '.join(str(a) for a in e.args)}), the data model says ({', '.join(str(a) for a in want_args)})"
                else:
                    ok = True
                    if name in ops["comparison_dunders"]:
                        if not (r.qual in nt_v and r.qual in nt_j):
                            ok = False
                            why = f"comparison maps to {r.qual}, which is traced: comparisons must yield plain values"
            if ok:
                ctx.ob("A14", inst, True, loc, sample=f"{want_fn}({order})")
            else:
                ctx.fail("A14", inst, inst, loc, f"{inst}: {why}", f"an expression using the operator form with a traced operand (e.g. `2.0 {name} x` / `x {name} y`), compared with the function form")
        elif name in ops["unary"]:
            n += 1
            e, ps = body_term(fn)
            r = wrapped_of(e)
            want = ops["unary"][name]
            ok = r is not None and (r.name == want or world.env.get("numpy", r.name) is world.env.get("numpy", want)) and len(e.args) == 1 and not e.kw and e.args[0] is ps[0]
            if ok:
                ctx.ob("A14", inst, True, loc)
            else:
                ctx.fail("A14", inst, inst, loc, f"{inst} does not return anp.{want}(self)", "the operator form on a traced array")
        elif name in ops["inplace_dunders"]:
            n += 1
            ctx.fail("A6.ops", inst, inst, loc, f"ArrayBox defines {name}: assignment into / in-place update of a traced array would be accepted silently", "x[0] = 1.0 or x += y inside a differentiated function")
        elif name == "__hash__":
            n += 1
            e, ps = body_term(fn)
            ok = e is not None and is_call_to(e, "builtins.id") and len(e.args) == 1 and e.args[0] is ps[0]
            _okfail(ctx, "A14", inst, ok, loc, "ArrayBox.__hash__ is not id(self): boxes are graph nodes, equality is element-wise (returns an array), so a value-based hash makes two different nodes that hold equal numbers collide as dict/set keys", "a memo table / set keyed on traced scalars, evaluated where two different intermediate values coincide numerically")
        elif name == "__len__":
            n += 1
            e, ps = body_term(fn)
            ok = e is not None and is_call_to(e, "builtins.len") and len(e.args) == 1 and value_of(e.args[0], ps[0])
            _okfail(ctx, "A14", inst, ok, loc, "__len__ does not return len(self._value)", "len(x) on a traced array")
        elif name == "astype":
            n += 1
            e, ps = body_term(fn)
            ok = e is not None and is_call_to(e, "autograd.numpy.numpy_wrapper._astype") and bool(e.args) and e.args[0] is ps[0]
            _okfail(ctx, "A14", inst, ok, loc, "astype does not delegate to the traced _astype primitive", "x.astype(float32) on a traced array")
        elif name == "__getitem__":
            n += 1
            ok = world.repo.is_primitive_ref(world.repo.resolve_expr(m, ast.Attribute(value=ast.Name(id="ArrayBox", ctx=ast.Load()), attr="__getitem__", ctx=ast.Load())))
            e, ps = body_term(fn)
            ok = ok and e is not None and e.op == "sub" and len(ps) == 2 and e.obj is ps[0] and e.idx is ps[1]
            _okfail(ctx, "A14", inst, ok, loc, "__getitem__ is not the primitive A[idx]", "any indexing of a traced array")
    for name in ops["inplace_dunders"]:
        if name not in methods:
            ctx.ob("A6.ops", f"ArrayBox has no {name}", True, loc_of(m, cls), nontrivial=False)
    ctx.ob("A6.ops", "ArrayBox defines no assignment / in-place special method", not any(k in methods for k in ops["inplace_dunders"]), loc_of(m, cls))
    # no in-place dunders on any Box subclass
    for mod in world.repo.mods.values():
        for st in mod.tree.body:
            if isinstance(st, ast.ClassDef):
                r = world.repo.resolve(mod, st.name)
                if r is None or r.kind != "repo" or r.okind != "class":
                    continue
                if not any(k.qual == "autograd.tracer.Box" for k in class_mro(world.repo, r)):
                    continue
                for s in st.body:
                    nm = s.name if isinstance(s, ast.FunctionDef) else None
                    if nm in ops["inplace_dunders"] and st.name != "ArrayBox":
                        ctx.fail("A6.ops", f"{st.name}.{nm}", f"{mod.name}.{st.name}.{nm}", loc_of(mod, s), f"{st.name} defines {nm}: in-place assignment into a traced value is accepted silently", "assignment into a traced container/array")
    # properties: `name = property(<lambda or function>)` or `@property def name(self)`
    def getter(pname):
        v = assigns.get(pname)
        if isinstance(v, ast.Call) and v.args:
            pr = world.repo.resolve_expr(m, v.func)
            if pr is not None and pr.qual == "builtins.property":
                g = v.args[0]
                if isinstance(g, ast.Lambda):
                    return g, v
                if isinstance(g, ast.Name) and g.id in methods:
                    return methods[g.id], v
        fn_ = methods.get(pname)
        if fn_ is not None and any((world.repo.resolve_expr(m, d) is not None and world.repo.resolve_expr(m, d).qual == "builtins.property") for d in fn_.decorator_list):
            return fn_, fn_
        return None, v

    def getter_term(pname):
        g, site = getter(pname)
        if g is None and isinstance(assigns.get(pname), ast.expr):
            # name = <anything that evaluates to property(<function>)>: a factory call, an alias ...
            t_ = unseq(expand(ev, ev.ev(assigns[pname], Scope(), m), ()))
            if is_call_to(t_, "builtins.property") and (t_.args or "fget" in t_.kw):
                clo_, pre_, prekw_ = ev.as_closure(t_.args[0] if t_.args else t_.kw["fget"])
                if clo_ is not None:
                    selfs = T("sym", name="self", role="param")
                    res = ev.apply(clo_, list(pre_) + [selfs], dict(prekw_), [])
                    return unseq(expand(ev, res, ())), selfs, assigns[pname]
        if g is None:
            return None, None, site
        selfs = T("sym", name="self", role="param")
        res = ev.apply(T("closure", g, m, fnode=g, scope=Scope(), bound=[], boundkw={}), [selfs], {})
        return unseq(expand(ev, res, ())), selfs, site

    for pname in ops["constant_properties"]:
        n += 1
        b, selfs, site = getter_term(pname)
        ok = b is not None and b.op == "attr" and b.name == pname and value_of(b.obj, selfs)
        _okfail(ctx, "A14", f"ArrayBox.{pname}", ok, loc_of(m, site) if site is not None else loc_of(m, cls), f"property {pname} does not return self._value.{pname}", f"x.{pname} on a traced array")
    b, selfs, site = getter_term("T")
    r = wrapped_of(b)
    ok = r is not None and r.name == "transpose" and len(b.args) == 1 and not b.kw and b.args[0] is selfs
    n += 1
    _okfail(ctx, "A14", "ArrayBox.T", ok, loc_of(m, cls), "property T is not anp.transpose(self)", "x.T on a traced array")
    # Box.__bool__
    tm, bfn = world.repo.find_def("autograd.tracer", "Box.__bool__")
    e, ps = body_term(bfn, owner="Box", mod="autograd.tracer")
    ok = e is not None and is_call_to(e, "builtins.bool") and len(e.args) == 1 and value_of(e.args[0], ps[0])
    n += 1
    _okfail(ctx, "A14", "Box.__bool__", ok, loc_of(tm, bfn), "Box.__bool__ does not return bool(self._value)", "`if x > 0:` inside a differentiated function")
    ctx.floor("A14 ArrayBox table entries", n, 28)


def _is_self_value(e, fn):
    selfn = fn.args.args[0].arg
    return isinstance(e, ast.Attribute) and e.attr == "_value" and isinstance(e.value, ast.Name) and e.value.id == selfn


def _okfail(ctx, rule, inst, ok, loc, why, witness, construct=None):
    if ok:
        ctx.ob(rule, inst, True, loc)
    else:
        ctx.fail(rule, inst, construct or inst, loc, why, witness)


STRUCTURE_USES = {"len", "bool", "str", "repr", "iter", "type", "isinstance", "id"}
CONTENT_METHODS = {"values", "items", "get", "pop", "copy", "itervalues", "iteritems", "popitem", "setdefault", "__getitem__"}


def container_boxes(ctx, world):
    ctx.describe("A14.containers", "SequenceBox / DictBox: __getitem__ is the container_take primitive; accessors that return contents (get, values, items, iteration of values, +) go through self[...] / a primitive, never through self._value[...] or self._value.values()/items()/get(); structure-only queries (len, in, index, keys) may read the raw value")
    m = world.repo.mod("autograd.builtins")
    n = 0
    for cname in ("SequenceBox", "DictBox"):
        r = world.repo.resolve(m, cname)
        if r is None or r.kind != "repo":
            raise AnalysisError(f"builtins.{cname} vanished")
        cls = r.node
        # the members the class has: its own and those of its repo base classes below Box (nearest definition wins)
        members, owner_of = [], {}
        for k_ in class_mro(world.repo, r):
            if k_.qual in ("autograd.tracer.Box",) or k_.mod is not m:
                continue
            for st in k_.node.body:
                nm_ = st.name if isinstance(st, ast.FunctionDef) else (st.targets[0].id if isinstance(st, ast.Assign) and len(st.targets) == 1 and isinstance(st.targets[0], ast.Name) else None)
                if nm_ is None or nm_ in owner_of:
                    continue
                owner_of[nm_] = k_.node.name
                members.append(st)

        class _Members:
            body = members

        cls_pos = cls
        cls = _Members
        gi = None
        for st in cls.body:
            if isinstance(st, ast.Assign) and any(isinstance(t, ast.Name) and t.id == "__getitem__" for t in st.targets):
                gi = st.value
            if isinstance(st, ast.FunctionDef) and st.name == "__getitem__":
                gi = st
        rr = world.repo.resolve_expr(m, gi) if isinstance(gi, ast.expr) else None
        n += 1
        ok = rr is not None and rr.qual == "autograd.builtins.container_take" and world.repo.is_primitive_ref(rr)
        _okfail(ctx, "A14.containers", f"{cname}.__getitem__", ok, loc_of(m, cls_pos), f"{cname}.__getitem__ is not the container_take primitive", "indexing a traced tuple/list/dict", construct=f"autograd.builtins.{cname}.__getitem__")
        for st in cls.body:
            if not isinstance(st, ast.FunctionDef):
                continue
            selfn = st.args.args[0].arg
            n += 1
            bad = None
            for x in ast.walk(st):
                if isinstance(x, ast.Attribute) and x.attr == "_value" and isinstance(x.value, ast.Name) and x.value.id == selfn:
                    p = getattr(x, "_parent", None)
                    if isinstance(p, ast.Subscript) and p.value is x:
                        bad = (p, "indexes the raw value")
                    elif isinstance(p, ast.Attribute) and p.attr in CONTENT_METHODS:
                        bad = (p, f"calls .{p.attr}() on the raw value")
                    elif isinstance(p, ast.Call) and isinstance(p.func, ast.Name) and p.func.id in ("list", "tuple", "iter", "sorted", "dict") and cname == "SequenceBox":
                        bad = (p, "iterates the raw sequence (yields untraced contents)")
                    elif isinstance(p, (ast.For, ast.comprehension)) and p.iter is x and cname == "SequenceBox":
                        bad = (p, "iterates the raw sequence (yields untraced contents)")
                    elif isinstance(p, ast.Return) and p.value is x:
                        bad = (p, "returns the raw value")
            inst = f"{cname}.{st.name}"
            if bad:
                ctx.fail("A14.containers", inst, f"autograd.builtins.{inst}", loc_of(m, bad[0]), f"{inst} {bad[1]}: `{norm_text(bad[0])[:60]}` - the contents handed out are not traced, derivative flow through them is dropped silently", "grad of a function that reads a traced container through this accessor")
            else:
                ctx.ob("A14.containers", inst, True, loc_of(m, st))
        # structure queries answer exactly as the raw value does (same length, same membership, same ORDER of keys)
        for qname in ("__len__", "__iter__", "__contains__", "index", "count"):
            fnq = next((s_ for s_ in cls.body if isinstance(s_, ast.FunctionDef) and s_.name == qname), None)
            if fnq is None:
                continue
            n += 1
            rq, syq, mq, fq_, scq = eval_function(world, "autograd.builtins", f"{owner_of.get(qname, cname)}.{qname}")
            selfq = syq["#0"]
            rq = strip_seq(rq) if rq is not None else None
            rawv = lambda t: t is not None and t.op == "attr" and t.name == "_value" and t.obj is selfq
            params_q = [syq[a_.arg] for a_ in fnq.args.args[1:]]
            okq = False
            if rq is not None:
                if rq.op == "call" and rq.fn.op == "attr" and rq.fn.name == qname and rawv(rq.fn.obj) and len(rq.args) == len(params_q) and all(a_ is b_ for a_, b_ in zip(rq.args, params_q)) and not rq.kw:
                    okq = True  # self._value.<same query>(same operands)
                elif qname in ("__len__", "__iter__") and rq.op == "call" and rq.fn.op == "ref" and rq.fn.ref.qual == {"__len__": "builtins.len", "__iter__": "builtins.iter"}[qname] and len(rq.args) == 1 and rawv(rq.args[0]) and not rq.kw:
                    okq = True
                elif qname == "__contains__" and rq.op == "cmp" and rq.opname == "In" and params_q and rq.l is params_q[0] and rawv(rq.r):
                    okq = True
            _okfail(ctx, "A14.containers", f"{cname}.{qname}: the raw value's own answer", okq, loc_of(m, fnq), f"{cname}.{qname} does not return the raw container's own answer to the same query (found {str(rq)[:70]}): under differentiation the container then has another length / membership / iteration order than the plain value", "a function that iterates a dict of parameters in insertion order (np.concatenate([p[k] for k in p])): the primal under grad differs from the plain call", construct=f"autograd.builtins.{cname}.{qname}:raw-answer")
        # __add__/__radd__ of SequenceBox
        if cname == "SequenceBox":
            for meth, self_side in (("__add__", "left"), ("__radd__", "right")):
                fn = next((s for s in cls.body if isinstance(s, ast.FunctionDef) and s.name == meth), None)
                n += 1
                ok, why = False, f"SequenceBox.{meth} is missing"
                if fn is not None:
                    ok, why = _concat_wiring(world, meth, self_side)
                _okfail(ctx, "A14.containers", f"SequenceBox.{meth}", ok, loc_of(m, fn) if fn else loc_of(m, cls_pos), f"SequenceBox.{meth}: {why}", "traced_tuple + (a, b) / (a, b) + traced_tuple with traced a, b", construct=f"autograd.builtins.SequenceBox.{meth}")
    ctx.floor("A14.containers methods", n, 14)


def _concat_wiring(world, meth, self_side):
    """traced concatenation `self + other` / `other + self` of a SequenceBox, decided on the evaluated method:
       (1) the result is a call of a primitive that receives `self` as a positional argument of its own (a Box inside
           another argument is invisible to the tracer);
       (2) the plain operand `other` reaches primitives only element-wise (`*other`): handed over whole, the traced
           leaves it contains are not seen and their derivative is silently zero;
       (3) the primitive's own body puts the segment that stems from `self` on the side the operator promises"""
    from ..terms import walk as _walk
    from ..tutil import expand as _ex, unseq as _us

    ev = world.ev
    r_, sy_, m_, fn_, sc_ = eval_function(world, "autograd.builtins", f"SequenceBox.{meth}")
    if r_ is None:
        return False, "no value is returned"
    selfs, other = sy_["#0"], sy_["#1"]

    def is_prim_call(t):
        if t.op != "call" or t.fn.op != "ref":
            return False
        return t.fn.ref.kind in ("repo", "classattr") and world.repo.is_primitive_ref(t.fn.ref)

    # expand helpers but keep every primitive as a call
    keep = set()
    e = None
    for _ in range(4):
        e = _us(_ex(ev, r_, keep))
        new = {t.fn.ref.qual for t in _walk(e) if is_prim_call(t)} - keep
        if not new:
            break
        keep |= new
    if not is_prim_call(e):
        return False, f"the result is not the call of a primitive (found {str(e)[:60]})"
    pcs = [t for t in _walk(e) if is_prim_call(t)]
    if not any(any(a is selfs for a in t.args) for t in pcs):
        return False, "`self` is not handed to a primitive as an argument of its own"
    for t in pcs:
        if any(a is other for a in t.args) or any(v is other for v in t.kw.values()):
            return False, f"the plain operand is handed to {t.fn.ref.qual.rsplit('.', 1)[-1]} as ONE argument: traced values inside it are invisible to the tracer (it has to be unpacked, *other)"
    if not any(any(a.op == "star" and a.x is other for a in t.args) for t in pcs):
        return False, "the elements of the plain operand never reach a primitive"
    # (3) side of the self-segment in the outermost primitive's body
    top = e
    raw = top.fn.ref.node
    if not isinstance(raw, ast.FunctionDef):
        return False, "the primitive's body is not available"
    body_clo = T("closure", raw, top.fn.ref.mod, fnode=raw, scope=Scope(), bound=[], boundkw={})
    marks = []
    margs = []
    for a in top.args:
        if a.op == "star":
            mk = T("sym", name="seg_other", role="param", star=True)
            margs.append(T("star", x=mk))
            marks.append((mk, "other" if a.x is other else "?"))
        else:
            mk = T("sym", name=f"seg{len(marks)}", role="param")
            margs.append(mk)
            src = "self" if a is selfs else ("other" if any(x is other for x in _walk(a)) else "?")
            marks.append((mk, src))
    body = _us(_ex(ev, ev.apply(body_clo, margs, {}, []), ()))
    if body is not None and body.op == "call" and body.fn.op == "ref" and body.fn.ref.qual in ("operator.add", "_operator.add", "operator.concat", "_operator.concat", "operator.__add__", "operator.__concat__") and len(body.args) == 2 and not body.kw:
        body = T("bin", body.node, body.mod, opname="Add", l=body.args[0], r=body.args[1])
    if body is None or body.op != "bin" or body.opname != "Add":
        return False, f"the primitive's body is not a concatenation a + b (found {str(body)[:60]})"
    side = {}

    def holds(t, mk, depth=0):
        """does the VALUE of t contain the marked segment (type(x) / len(x) only consult it)"""
        if t is mk:
            return True
        if t is None or depth > 30:
            return False
        if t.op == "call" and t.fn.op == "ref" and t.fn.ref.qual.rsplit(".", 1)[-1] in ("type", "len", "isinstance", "type_", "isinstance_"):
            return False
        if t.op == "call":
            return any(holds(c, mk, depth + 1) for c in list(t.args) + list(t.kw.values())) or (t.fn.op != "ref" and holds(t.fn, mk, depth + 1))
        return any(holds(c, mk, depth + 1) for c in children(t))

    for mk, src in marks:
        inl = holds(body.l, mk)
        inr = holds(body.r, mk)
        if inl == inr:
            return False, "a segment appears on both sides / on no side of the concatenation"
        side[src] = "left" if inl else "right"
    if side.get("self") != self_side or side.get("other") == self_side:
        return False, f"the traced sequence ends up on the {side.get('self')} of the result, the operator promises the {self_side}"
    return True, ""


# --------------------------------------------------------------------------------------------- A15
DO = "autograd.differential_operators"


def operators(ctx, world):
    ctx.describe("A15", "differential-operator wiring: unary_to_nary selects and substitutes the same argument index (int and tuple/list forms) and passes kwargs through; operators return the primal/aux objects exactly as produced by make_vjp; jacobian's shape is <output shape> + <input shape> over the output space's standard basis; holomorphic_grad = grad(real o f); deriv takes element [1] of make_jvp; checkpoint registers element [0] of make_vjp(fun, argnum)(*args, **kwargs) on the primitive it returns")
    ev = world.ev
    # ---- unary_to_nary
    # unary_to_nary(unary_operator) -> nary_operator(fun, argnum=0, *op_args, **op_kwargs) -> nary_f(*args, **kwargs):
    # each level is the (possibly wrapped) function the previous one returns - found by value
    from ..kfun import returned_closure

    clo1, top1, osy1, m, fn1, osc1 = returned_closure(world, "autograd.wrap_util", "unary_to_nary")
    uop = osy1["#0"]
    fun = T("sym", name="fun", role="param")
    argnum = T("sym", name="argnum", role="param")
    op_args = T("sym", name="nary_op_args", role="param", star=True)
    op_kw = T("sym", name="nary_op_kwargs", role="param", dstar=True)
    lvl2 = strip_seq(ev.apply(clo1, [fun, argnum, T("star", x=op_args)], {}, [op_kw]))
    t_ = lvl2
    for _ in range(6):
        if t_ is None or t_.op == "closure":
            break
        t_ = strip_seq(t_.args[-1]) if (t_.op == "call" and t_.args) else None
    if t_ is None or t_.op != "closure":
        raise AnalysisError("unary_to_nary's operator no longer returns a (wrapped) nested function")
    node = t_.fnode
    loc = loc_of(m, node)
    q = "autograd.wrap_util.unary_to_nary"
    args = T("sym", name="args", role="param", star=True)
    kw = T("sym", name="kwargs", role="param", dstar=True)
    r = ev.apply(t_, [T("star", x=args)], {}, [kw])
    from ..tutil import expand, specialise, unseq

    is_int_test = lambda a: a.op == "call" and a.fn.op == "ref" and a.fn.ref.qual.endswith("isinstance") and len(a.args) == 2 and a.args[0] is argnum and a.args[1].op == "ref" and a.args[1].ref.qual == "builtins.int"
    dec = lambda v: (lambda a: v if is_int_test(a) else None)
    r = unseq(expand(ev, r, {"autograd.util.subvals"})) if r is not None else None
    forms = {}
    for v in (True, False):
        rv = specialise(r, dec(v)) if r is not None else None
        forms[v] = rv if (rv is not None and rv.op == "call" and rv.fn is uop and len(rv.args) >= 2) else None
    if forms[True] is None or forms[False] is None:
        ctx.fail("A15", "unary_to_nary:call", f"{q}:call", loc, "nary_f does not call unary_operator(unary_f, x, *nary_op_args, **nary_op_kwargs)", "any operator call")
    else:
        # selection
        sel_int, sel_tup = forms[True].args[1], forms[False].args[1]
        ok_int = sel_int.op == "sub" and sel_int.obj is args and sel_int.idx is argnum
        ok_tup = False
        c = sel_tup
        if c.op == "call" and c.fn.op == "ref" and c.fn.ref.qual in ("builtins.tuple", "builtins.list") and len(c.args) == 1:
            c = c.args[0]
        if c.op == "comp" and not c.conds:
            e = c.elt
            ok_tup = c.src is argnum and e.op == "sub" and e.obj is args and e.idx.op == "iterelem" and e.idx.src is argnum
        _okfail(ctx, "A15", "unary_to_nary: x = args[argnum] (int)", ok_int, loc, "the differentiated argument is not selected as args[argnum]", "grad(f, 1)(a, b)", construct=f"{q}:select-int")
        _okfail(ctx, "A15", "unary_to_nary: x = tuple(args[i] for i in argnum)", ok_tup, loc, "the differentiated arguments are not selected as tuple(args[i] for i in argnum)", "grad(f, (0, 2))(a, b, c)", construct=f"{q}:select-tuple")
        # substitution: unary_f(X) = fun(*subvals(args, [(argnum, X)]), **kwargs)
        ok_sub = {True: False, False: False}
        ok_kw = True
        for v in (True, False):
            clo = forms[v].args[0]
            while clo.op == "call" and clo.args:
                clo = clo.args[-1]
            X = T("sym", name="X", role="param")
            res = specialise(unseq(expand(ev, ev.apply(clo, [X], {}, []), {"autograd.util.subvals"})), dec(v)) if clo.op == "closure" else None
            if res is not None and res.op == "call" and res.fn is fun and len(res.args) == 1 and res.args[0].op == "star":
                ok_kw = ok_kw and len(res.dstar) == 1 and res.dstar[0] is kw
                a = res.args[0].x
                if is_call_to(a, "autograd.util.subvals") and len(a.args) == 2 and a.args[0] is args:
                    S = a.args[1]
                    if v:
                        ok_sub[v] = S.op in ("list", "tuple") and len(S.elts) == 1 and S.elts[0].op in ("tuple", "list") and len(S.elts[0].elts) == 2 and S.elts[0].elts[0] is argnum and S.elts[0].elts[1] is X
                    else:
                        if S.op == "call" and S.fn.op == "ref" and S.fn.ref.qual in ("builtins.list", "builtins.tuple") and len(S.args) == 1:
                            S = S.args[0]
                        ok_sub[v] = is_call_to(S, "builtins.zip") and len(S.args) == 2 and S.args[0] is argnum and S.args[1] is X
            else:
                ok_kw = False
        _okfail(ctx, "A15", "unary_to_nary: substitution at the same index (int)", ok_sub[True], loc, "unary_f does not substitute x back at position argnum", "grad(f, 1)(a, b): the derivative is taken w.r.t. one argument while another is varied", construct=f"{q}:subst-int")
        _okfail(ctx, "A15", "unary_to_nary: substitution at the same indices (tuple)", ok_sub[False], loc, "unary_f does not substitute the tuple back with zip(argnum, x)", "grad(f, (0, 2))(a, b, c)", construct=f"{q}:subst-tuple")
        _okfail(ctx, "A15", "unary_to_nary: kwargs reach fun unchanged", ok_kw, loc, "keyword arguments are not passed on to fun", "grad(f)(x, option=...)", construct=f"{q}:kwargs")
        rr = forms[True]
        extra = rr.args[2:]
        ok_extra = len(extra) == 1 and extra[0].op == "star" and len(rr.dstar) == 1
        _okfail(ctx, "A15", "unary_to_nary: operator options forwarded", ok_extra, loc, "nary_op_args / nary_op_kwargs are not forwarded to the unary operator", "make_ggnvp(f, g, argnum)", construct=f"{q}:opargs")

    def ev_op(name):
        return eval_function(world, DO, name)

    def mv(t, fun_pred=None):
        return is_call_to(t, "autograd.core.make_vjp") and len(t.args) == 2

    # ---- grad / value_and_grad / elementwise_grad
    for name in ("grad", "value_and_grad", "elementwise_grad"):
        r, syms, m, node, sc = ev_op(name)
        loc = loc_of(m, node)
        q = f"{DO}.{name}"
        x, fun = syms["#1"], syms["#0"]
        mvs = [t for t in walk(r) if mv(t)]
        if not mvs or not (mvs[0].args[0] is fun and mvs[0].args[1] is x):
            ctx.fail("A15", f"{name}: make_vjp(fun, x)", f"{q}:make_vjp", loc, f"{name} does not call make_vjp(fun, x)", "any call")
            continue
        mvc = mvs[0]
        vjp_ = lambda t: t.op == "sub" and t.obj is mvc and t.idx.value == 0
        ans_ = lambda t: t.op == "sub" and t.obj is mvc and t.idx.value == 1
        from ..tutil import cases, graft_effect_guards, unseq

        cs = cases(unseq(graft_effect_guards(ev, r)))
        size_of_ans = lambda t: t.op == "attr" and t.name == "size" and is_call_to(t.obj, "autograd.core.vspace") and len(t.obj.args) == 1 and ans_(t.obj.args[0])
        one = lambda t: t.op == "const" and type(t.value) is int and t.value == 1
        if name in ("grad", "value_and_grad"):
            is_guard = lambda a: a.op == "cmp" and a.opname == "Eq" and ((size_of_ans(a.l) and one(a.r)) or (size_of_ans(a.r) and one(a.l)))
            good_pol = True  # a value is returned only when size == 1
            why = f"{name} does not raise unless vspace(ans).size == 1"
            wit = "a function with a vector- or complex-valued output given to grad"
        else:
            is_guard = lambda a: a.op == "attr" and a.name == "iscomplex" and is_call_to(a.obj, "autograd.core.vspace") and len(a.obj.args) == 1 and ans_(a.obj.args[0])
            good_pol = False
            why = "elementwise_grad does not raise on complex outputs"
            wit = "elementwise_grad of a complex-valued function"
        vals = [c for c in cs if c.leaf.op != "raise"]
        rais = [c for c in cs if c.leaf.op == "raise"]
        if not rais:
            ctx.fail("A6.ops", f"{name}: output check raises", f"{q}:guard", loc, f"{name} has no raising output check", "non-scalar / complex output")
        else:
            okg = bool(vals) and all(c.pol(is_guard) is good_pol for c in vals) and all(c.pol(is_guard) is (not good_pol) for c in rais)
            _okfail(ctx, "A6.ops", f"{name}: output check raises", okg, loc, why, wit, construct=f"{q}:guard")
        def is_grad(t):
            t = strip_seq(t)
            return t.op == "call" and vjp_(t.fn) and len(t.args) == 1 and t.args[0].op == "call" and t.args[0].fn.op == "attr" and t.args[0].fn.name == "ones" and is_call_to(t.args[0].fn.obj, "autograd.core.vspace") and ans_(t.args[0].fn.obj.args[0])
        if name == "value_and_grad":
            ok = bool(vals) and all(c.leaf.op == "tuple" and len(c.leaf.elts) == 2 and ans_(c.leaf.elts[0]) and is_grad(c.leaf.elts[1]) for c in vals)
            _okfail(ctx, "A15", "value_and_grad returns (ans untouched, vjp(ones))", ok, loc, f"value_and_grad does not return (ans, vjp(vspace(ans).ones())) with ans exactly as produced by make_vjp (found {str(vals[0].leaf)[:90] if vals else None})", "value_and_grad(f)(x)[0] versus f(x)[0]", construct=f"{q}:result")
        else:
            _okfail(ctx, "A15", f"{name} returns vjp(vspace(ans).ones())", bool(vals) and all(is_grad(c.leaf) for c in vals), loc, f"{name} does not return vjp(vspace(ans).ones())", "any call", construct=f"{q}:result")
    # ---- deriv
    r, syms, m, node, sc = ev_op("deriv")
    r = strip_seq(r)
    x, fun = syms["#1"], syms["#0"]
    ok = r.op == "sub" and r.idx.op == "const" and r.idx.value == 1 and r.obj.op == "call" and is_call_to(r.obj.fn, "autograd.core.make_jvp") and r.obj.fn.args[0] is fun and r.obj.fn.args[1] is x and len(r.obj.args) == 1 and r.obj.args[0].op == "call" and r.obj.args[0].fn.op == "attr" and r.obj.args[0].fn.name == "ones" and is_call_to(r.obj.args[0].fn.obj, "autograd.core.vspace") and r.obj.args[0].fn.obj.args[0] is x
    _okfail(ctx, "A2.tuple", "deriv = make_jvp(fun, x)(vspace(x).ones())[1]", ok, loc_of(m, node), "deriv does not take element [1] (the tangent) of make_jvp(fun, x)(vspace(x).ones())", "deriv(f)(x)", construct=f"{DO}.deriv")
    # ---- jacobian
    r, syms, m, node, sc = ev_op("jacobian")
    r = strip_seq(r)
    loc = loc_of(m, node)
    x, fun = syms["#1"], syms["#0"]
    mvs = [t for t in walk(r) if mv(t)]
    ok = False
    why = "structure not recognised"
    if mvs:
        mvc = mvs[0]
        vjp_ = lambda t: t.op == "sub" and t.obj is mvc and t.idx.value == 0
        ans_ = lambda t: t.op == "sub" and t.obj is mvc and t.idx.value == 1
        avs = lambda t: is_call_to(t, "autograd.core.vspace") and ans_(t.args[0])
        xvs = lambda t: is_call_to(t, "autograd.core.vspace") and t.args[0] is x
        if r.op == "call" and len(r.args) == 2:
            stack, shape = r.args
            sh_ok = shape.op == "bin" and shape.opname == "Add" and shape.l.op == "attr" and shape.l.name == "shape" and avs(shape.l.obj) and shape.r.op == "attr" and shape.r.name == "shape" and xvs(shape.r.obj)
            if not sh_ok:
                why = f"the Jacobian's shape is not vspace(ans).shape + vspace(x).shape (found {str(shape)[:80]})"
            st_ok = False
            if stack.op == "call" and stack.args:
                mp = stack.args[0]
                if is_call_to(mp, "builtins.map") and len(mp.args) == 2:
                    st_ok = vjp_(mp.args[0]) and mp.args[1].op == "call" and mp.args[1].fn.op == "attr" and mp.args[1].fn.name == "standard_basis" and avs(mp.args[1].fn.obj)
                elif mp.op == "comp":
                    st_ok = mp.elt.op == "call" and vjp_(mp.elt.fn) and mp.src.op == "call" and mp.src.fn.op == "attr" and mp.src.fn.name == "standard_basis" and avs(mp.src.fn.obj)
            if sh_ok and not st_ok:
                why = "the rows are not vjp applied to the standard basis of the OUTPUT space"
            ok = sh_ok and st_ok
    _okfail(ctx, "A15", "jacobian: reshape(stack(map(vjp, ans_space.standard_basis())), ans_space.shape + x_space.shape)", ok, loc, "jacobian: " + why, "a function R^(2,) -> R^(3,): the result must have shape (3, 2)", construct=f"{DO}.jacobian")
    # ---- holomorphic_grad
    r, syms, m, node, sc = ev_op("holomorphic_grad")
    r = strip_seq(r)
    x, fun = syms["#1"], syms["#0"]
    ok = False
    if r.op == "call" and len(r.args) == 1 and r.args[0] is x and r.fn.op == "call":
        gcall = r.fn
        gref = gcall.fn
        is_grad = (gref.op == "closure" or gref.op == "call" or gref.op == "ref")
        if gcall.args and gcall.args[0].op == "closure":
            lam = gcall.args[0]
            X = T("sym", name="X", role="param")
            body = strip_seq(ev.apply(lam, [X], {}, []))
            r2, _ = resolve_callee(ev, body) if body.op == "call" else (None, None)
            ok = r2 is not None and r2.kind == "wrapped" and r2.name == "real" and len(body.args) == 1 and body.args[0].op == "call" and body.args[0].fn is fun and body.args[0].args[0] is X
            gq = _callee_name(world, DO, gcall)
            ok = ok and gq == "grad"
    _okfail(ctx, "A15", "holomorphic_grad = grad(lambda x: real(fun(x)))(x)", ok, loc_of(m, node), "holomorphic_grad is not grad of the real part of fun", "a holomorphic function of a complex argument", construct=f"{DO}.holomorphic_grad")
    # ---- grad_and_aux
    r, syms, m, node, sc = ev_op("grad_and_aux")
    r = strip_seq(r)
    ok = False
    mvs = [t for t in walk(r) if mv(t)]
    if mvs and r.op == "tuple" and len(r.elts) == 2:
        mvc = mvs[0]
        val = lambda t: t.op == "sub" and t.obj is mvc and t.idx.value == 1
        aux = lambda t: t.op == "sub" and val(t.obj) and t.idx.value == 1
        ans = lambda t: t.op == "sub" and val(t.obj) and t.idx.value == 0
        gpart = strip_seq(r.elts[0])
        okg = gpart.op == "call" and gpart.fn.op == "sub" and gpart.fn.obj is mvc and gpart.fn.idx.value == 0 and len(gpart.args) == 1 and gpart.args[0].op == "tuple" and len(gpart.args[0].elts) == 2
        if okg:
            o, z = gpart.args[0].elts
            okg = o.op == "call" and o.fn.op == "attr" and o.fn.name == "ones" and ans(o.fn.obj.args[0]) and z.op == "call" and z.fn.op == "attr" and z.fn.name == "zeros" and aux(z.fn.obj.args[0])
        ok = okg and aux(r.elts[1])
    _okfail(ctx, "A15", "grad_and_aux returns (vjp((ones(ans), zeros(aux))), aux untouched)", ok, loc_of(m, node), "grad_and_aux does not return the gradient of the first output and the second output exactly as produced", "grad_and_aux(f)(x)[1] versus f(x)[1]", construct=f"{DO}.grad_and_aux")
    # ---- make_hvp / hessian
    r, syms, m, node, sc = ev_op("make_hvp")
    r = strip_seq(r)
    ok = mv(r) and r.args[1] is syms["#1"] and r.args[0].op == "call" and _callee_name(world, DO, r.args[0]) == "grad" and r.args[0].args and r.args[0].args[0] is syms["#0"]
    _okfail(ctx, "A15", "make_hvp = make_vjp(grad(fun), x)", ok, loc_of(m, node), "make_hvp is not make_vjp(grad(fun), x)", "hessian-vector products", construct=f"{DO}.make_hvp")
    r, syms, m, node, sc = ev_op("hessian")
    r = strip_seq(r)
    ok = r.op == "call" and len(r.args) == 1 and r.args[0] is syms["#1"] and r.fn.op == "call" and _callee_name(world, DO, r.fn) == "jacobian" and r.fn.args and r.fn.args[0].op == "call" and _callee_name(world, DO, r.fn.args[0]) == "jacobian" and r.fn.args[0].args[0] is syms["#0"]
    _okfail(ctx, "A15", "hessian = jacobian(jacobian(fun))(x)", ok, loc_of(m, node), "hessian is not jacobian(jacobian(fun))(x)", "hessian of a scalar function", construct=f"{DO}.hessian")
    # ---- checkpoint (term level: the registered rule and the returned primitive)
    from ..tutil import expand as _expand, unseq as _unseq

    r, syms, m, node, sc = ev_op("checkpoint")
    loc = loc_of(m, node)
    fun = syms[node.args.args[0].arg]
    rv = _unseq(r) if r is not None else None
    is_prim = lambda t: t is not None and t.op == "call" and t.fn.op == "ref" and t.fn.ref.qual in ("autograd.tracer.primitive", "autograd.extend.primitive") and len(t.args) == 1 and t.args[0] is fun
    regs = [t for e in sc.effects for t in walk(e) if is_call_to(t, "autograd.core.defvjp_argnum")]
    ok = False
    wiring = False
    if len(regs) == 1 and len(regs[0].args) == 2:
        wiring = is_prim(rv) and (regs[0].args[0] is rv or same(regs[0].args[0], rv))
        clo, pre, prekw = ev.as_closure(regs[0].args[1])
        if clo is not None:
            an, ans_s, as_, kws = (T("sym", name=x, role="param") for x in ("argnum", "ans", "args", "kwargs"))
            body = _unseq(_expand(ev, ev.apply(clo, list(pre) + [an, ans_s, as_, kws], dict(prekw), []), {f"{DO}.make_vjp", "autograd.core.make_vjp"}))
            # make_vjp(fun, argnum)(*args, **kwargs)[0]
            if body.op == "sub" and body.idx.op == "const" and body.idx.value == 0 and body.obj.op == "call":
                outer = body.obj
                inner = outer.fn
                okf = inner.op == "call" and _callee_name(world, DO, inner) == "make_vjp" and len(inner.args) == 2 and inner.args[0] is fun and inner.args[1] is an and not inner.kw
                oka = len(outer.args) == 1 and outer.args[0].op == "star" and outer.args[0].x is as_ and not outer.kw and len(outer.dstar) == 1 and outer.dstar[0] is kws
                ok = bool(okf and oka)
    _okfail(ctx, "A15", "checkpoint: rule = make_vjp(fun, argnum)(*args, **kwargs)[0]", ok, loc, "checkpoint's VJP is not element [0] of make_vjp(fun, argnum)(*args, **kwargs)", "grad of a checkpointed function of two arguments with keyword options", construct=f"{DO}.checkpoint:rule")
    _okfail(ctx, "A15", "checkpoint: rule registered on, and return of, primitive(fun)", wiring, loc, "checkpoint does not register the rule on the primitive it returns", "checkpoint(f) used under grad", construct=f"{DO}.checkpoint:wiring")
    # ---- grad_named
    r, syms, m, node, sc = ev_op("grad_named")
    rv = _unseq(r) if r is not None else None
    funp, namep = syms[node.args.args[0].arg], syms[node.args.args[1].arg]
    ok = False
    if rv is not None and rv.op == "call" and _callee_name(world, DO, rv) == "grad" and rv.args and rv.args[0] is funp and len(rv.args) + len(rv.kw) == 2 and (len(rv.args) == 2 or "argnum" in rv.kw):
        ix = rv.args[1] if len(rv.args) == 2 else rv.kw["argnum"]
        # <signature of fun>.args.index(argname)
        if ix.op == "call" and ix.fn.op == "attr" and ix.fn.name == "index" and len(ix.args) == 1 and ix.args[0] is namep:
            base = ix.fn.obj
            ok = base.op == "attr" and base.name == "args" and base.obj.op == "call" and len(base.obj.args) == 1 and base.obj.args[0] is funp
    _okfail(ctx, "A15", "grad_named: index of the name in fun's own signature", ok, loc_of(m, node), "grad_named does not resolve the name through fun's signature .args.index(argname)", "grad_named(f, 'b')(a, b)", construct=f"{DO}.grad_named")
    # ---- make_vjp / make_jvp exported = unary_to_nary(core versions)
    dm = world.repo.mod(DO)
    for nm, core in (("make_vjp", "_make_vjp"), ("make_jvp", "_make_jvp")):
        b = dm.top.get(nm)
        ok = False
        if b:
            v = b[-1][1]
            ok = isinstance(v, ast.Call) and isinstance(v.func, ast.Name) and v.func.id == "unary_to_nary" and len(v.args) == 1 and isinstance(v.args[0], ast.Name) and v.args[0].id == core
            rc = world.repo.resolve(dm, core)
            ok = ok and rc is not None and rc.qual == f"autograd.core.{nm}"
        _okfail(ctx, "A15", f"{nm} = unary_to_nary(core.{nm})", ok, dm.relpath, f"exported {nm} is not unary_to_nary(core.{nm})", "make_vjp(f, argnum)(*args)", construct=f"{DO}.{nm}")


def _callee_name(world, modname, call):
    """name of the operator a call term applies, looking through the unary_to_nary decorator wrapping"""
    fn = call.fn
    if fn.op == "ref":
        return fn.ref.qual.rsplit(".", 1)[-1]
    if fn.op == "call" and fn.args and fn.args[-1].op == "closure":
        return getattr(fn.args[-1].fnode, "name", None)
    if fn.op == "closure":
        return getattr(fn.fnode, "name", None)
    return None


# --------------------------------------------------------------------------------------------- A6.wrapsig / rawcall
WRAPPERS = ["concatenate", "vstack", "row_stack", "hstack", "column_stack", "array", "select", "stack", "append"]


def wrapper_signatures(ctx, world):
    ctx.describe("A6.wrapsig", "the re-implemented public wrappers in numpy_wrapper.py declare, for every optional parameter they have, NumPy's name, position and default; parameters NumPy has and the wrapper lacks are accepted (a call using them raises TypeError)")
    m = world.repo.mod("autograd.numpy.numpy_wrapper")
    n = 0
    for name in WRAPPERS:
        r = world.repo.resolve(m, name)
        if r is None or r.kind != "repo" or not isinstance(r.node, (ast.FunctionDef, ast.Lambda)):
            raise AnalysisError(f"numpy_wrapper.{name} is no longer a re-implemented wrapper")
        if not world.env.has("numpy", name):
            continue  # e.g. row_stack removed from a future numpy: nothing to agree with
        sig = world.env.signature(f"numpy.{name}")
        if sig is None:
            ctx.ob("A6.wrapsig", name, None, loc_of(m, r.node))
            continue
        a = r.node.args
        params = [p.arg for p in a.posonlyargs + a.args]
        defaults = [None] * (len(params) - len(a.defaults)) + list(a.defaults)
        for i, (p, d) in enumerate(zip(params, defaults)):
            n += 1
            inst = f"{name}.{p}"
            loc = loc_of(m, r.node)
            if d is None:
                # required positional: the position is what matters
                ok = i < len(sig["pos"]) and sig["pos"][i] not in sig["defaults"] or (i < len(sig["pos"]))
                ctx.ob("A6.wrapsig", inst, True, loc, nontrivial=False)
                continue
            want_pos = sig["pos"][i] if i < len(sig["pos"]) else None
            if want_pos != p:
                ctx.fail("A6.wrapsig", inst, f"numpy_wrapper.{name}:{p}@{i}", loc, f"optional parameter '{p}' is at position {i} where NumPy has '{want_pos}'", f"np.{name}(..., <positional value>) / np.{name}(..., {want_pos}=...): binds to a different parameter than in NumPy")
                continue
            try:
                dv = ast.literal_eval(d)
            except Exception:
                ctx.ob("A6.wrapsig", inst, None, loc)
                continue
            nv = sig["defaults"].get(p, "<none>")
            if nv == dv and type(nv) is type(dv):
                ctx.ob("A6.wrapsig", inst, True, loc, sample=f"default {dv!r} == numpy's")
            else:
                ctx.fail("A6.wrapsig", inst, f"numpy_wrapper.{name}:{p}=default", loc, f"default of '{p}' is {dv!r}, NumPy's is {nv!r}", f"np.{name}(...) called without {p}: the primal value differs from NumPy's")
    ctx.floor("A6.wrapsig parameters", n, 10)


RETRACE = {"autograd.numpy.numpy_wrapper.wrap_if_boxes_inside", "autograd.numpy.numpy_wrapper.array", "autograd.numpy.numpy_wrapper.array_from_args", "autograd.numpy.numpy_wrapper._array_from_scalar_or_array"}


def raw_calls_in_wrappers(ctx, world):
    ctx.describe("A6.rawcall", "in the non-primitive functions of numpy_wrapper.py the result of any raw _np.* call whose operands may hold boxes reaches a return only through a re-tracing construct (wrap_if_boxes_inside, array(...), array_from_args) or a structure query (.shape/.ndim/.dtype)")
    m = world.repo.mod("autograd.numpy.numpy_wrapper")
    ev = world.ev
    n = 0
    for fq, fnode in m.functions():
        if isinstance(fnode, ast.Lambda) or not isinstance(fnode, ast.FunctionDef):
            continue
        if _is_prim_def(world, m, fnode) or fq.split(".")[-1] in ("wrap_namespace", "wrap_intdtype", "wrap_if_boxes_inside"):
            continue
        if any(isinstance(p, ast.FunctionDef) for p in _parents(fnode)):
            continue
        # partial evaluation of the function with symbolic parameters
        sc = Scope()
        for p in fnode.args.posonlyargs + fnode.args.args:
            sc.vars[p.arg] = T("sym", name=p.arg, role="param")
        if fnode.args.vararg:
            sc.vars[fnode.args.vararg.arg] = T("sym", name=fnode.args.vararg.arg, role="param")
        if fnode.args.kwarg:
            sc.vars[fnode.args.kwarg.arg] = T("sym", name=fnode.args.kwarg.arg, role="param")
        res = ev.run(fnode.body, sc, m)
        if res is None:
            continue
        from ..tutil import expand as _exp

        def _raw(t):
            if t.op == "call":
                rf, _ = resolve_callee(ev, t)
                return rf is not None and rf.kind == "ext" and rf.qual.startswith("numpy.")
            return t.op == "sub" and t.obj.op == "ref" and t.obj.ref.kind == "ext" and t.obj.ref.qual.startswith("numpy.")

        raws = [t for t in walk(_exp(ev, res, RETRACE)) if _raw(t)]
        if not raws:
            continue  # no raw numpy call reaches this function's result (helpers inlined)
        n += 1
        exposed = _exposed(ev, res, set(), 0)
        inst = fq
        if exposed is None:
            ctx.ob("A6.rawcall", inst, True, loc_of(m, fnode), sample=f"{len(raws)} raw call(s), all re-traced before return")
        else:
            ctx.fail("A6.rawcall", inst, f"{fq}|{norm_text(exposed.node)[:60] if exposed.node is not None else '?'}", loc_of(m, fnode), f"the result of the raw call `{norm_text(exposed.node)[:70] if exposed.node is not None else exposed}` is returned without re-tracing: traced elements inside it are lost (object array) or dropped", "the function called with a list containing traced scalars/arrays")
    ctx.floor("A6.rawcall wrappers with raw calls", n, 1)


def _parents(n):
    p = getattr(n, "_parent", None)
    while p is not None:
        yield p
        p = getattr(p, "_parent", None)


def _is_prim_def(world, m, fnode):
    for d in fnode.decorator_list:
        r = world.repo.resolve_expr(m, d)
        if r is not None and (r.qual.endswith("primitive")):
            return True
    return False


def _is_raw_np(world, m, c):
    f = c.func if isinstance(c, ast.Call) else c.value
    r = world.repo.resolve_expr(m, f)
    return r is not None and r.kind == "ext" and r.qual.startswith("numpy.")


def _exposed(ev, t, seen, depth):
    """a raw-numpy-call term reachable from t without crossing a re-tracing call / structure attribute"""
    if t is None or id(t) in seen or depth > 60:
        return None
    seen.add(id(t))
    if t.op == "call":
        ref, _ = resolve_callee(ev, t)
        if ref is not None and ref.qual in RETRACE:
            return None
        if ref is not None and ref.kind == "ext" and ref.qual.startswith("numpy."):
            return t
        if ref is not None and ref.kind == "wrapped":
            return None  # a traced primitive re-enters tracing on its own
        if ref is not None and ref.kind in ("repo", "classattr") and (True):
            r = ev.inline(t)
            if r is not None:
                return _exposed(ev, r, seen, depth + 1)
            return None
        if t.fn.op == "attr":
            # method call on a value: the receiver flows through
            x = _exposed(ev, t.fn.obj, seen, depth + 1)
            if x is not None:
                return x
            return None
        return None
    if t.op == "sub" and t.obj.op == "ref" and t.obj.ref.kind == "ext" and t.obj.ref.qual.startswith("numpy."):
        return t  # _np.r_[...]
    if t.op == "attr":
        if t.name in ("shape", "ndim", "dtype", "size"):
            return None
        return _exposed(ev, t.obj, seen, depth + 1)
    if t.op in ("if",):
        return _exposed(ev, t.then, seen, depth + 1) or _exposed(ev, t.other, seen, depth + 1)
    if t.op == "seq":
        return _exposed(ev, t.value, seen, depth + 1)
    if t.op in ("tuple", "list"):
        for e in t.elts:
            x = _exposed(ev, e, seen, depth + 1)
            if x is not None:
                return x
        return None
    if t.op == "sub":
        return _exposed(ev, t.obj, seen, depth + 1)
    if t.op in ("bin",):
        return _exposed(ev, t.l, seen, depth + 1) or _exposed(ev, t.r, seen, depth + 1)
    return None


# --------------------------------------------------------------------------------------------- A6.sibling / enum / dom
def _canon(t, depth=0):
    """role-normalised text of a guard condition (names of maker parameters are erased)"""
    if t is None or depth > 12:
        return "?"
    o = t.op
    if o == "arg":
        return f"arg{t.index}" if t.index is not None else f"kw:{t.name}"
    if o == "rest":
        return f"rest{t.start}"
    if o == "sym":
        return t.get("role") or t.name
    if o == "const":
        return repr(t.value)
    if o == "ref":
        return t.ref.qual.rsplit(".", 1)[-1]
    if o == "call":
        return f"{_canon(t.fn, depth + 1)}({','.join(_canon(a, depth + 1) for a in t.args)})"
    if o == "attr":
        if t.name == "shape":
            return f"shape({_canon(t.obj, depth + 1)})"
        if t.name == "ndim":
            return f"ndim({_canon(t.obj, depth + 1)})"
        return f"{_canon(t.obj, depth + 1)}.{t.name}"
    if o in ("cmp", "bin"):
        return f"({_canon(t.l, depth + 1)} {t.opname} {_canon(t.r, depth + 1)})"
    if o == "un":
        return f"({t.opname} {_canon(t.x, depth + 1)})"
    if o == "bool":
        return "(" + f" {t.opname} ".join(_canon(v, depth + 1) for v in t.vals) + ")"
    if o == "sub":
        return f"{_canon(t.obj, depth + 1)}[{_canon(t.idx, depth + 1)}]"
    if o in ("tuple", "list"):
        return "(" + ",".join(_canon(e, depth + 1) for e in t.elts) + ")"
    return o


def _norm_guard(s):
    # len(shape(x)) and ndim(x) are the same quantity
    import re

    return re.sub(r"len\(shape\(((?:arg|rest|kw:)\w+)\)\)", r"ndim(\1)", s)


def _guard_key(cond, raises_when):
    """canonical text of `the rule raises when <...>`: the condition is reduced to its canonical atom
    (tutil.atom: not / != / >= / <= / > folded) and the polarity is made part of the text"""
    from ..tutil import atom

    a, pol = atom(cond)
    txt = _norm_guard(_canon(a))
    return txt if (pol == bool(raises_when)) else f"not {txt}"


def guards_of(world, ir):
    """normalised conditions under which the rule raises (construction time or backward time)"""
    out = []
    seen = set()

    def rec(t, depth=0):
        if t is None or id(t) in seen or depth > 200:
            return
        seen.add(id(t))
        if t.op == "if":
            a, b = strip_seq(t.then), strip_seq(t.other)
            if a is not None and a.op == "raise":
                out.append((_guard_key(t.cond, True), True, t))
            elif b is not None and b.op == "raise":
                out.append((_guard_key(t.cond, False), False, t))
        if t.op == "assert":
            out.append((_guard_key(t.cond, False), False, t))
        if t.op == "when":
            e = t.eff
            if e is not None and e.op == "raise":
                out.append((_guard_key(t.cond, t.pol), t.pol, t))
        for c in children(t):
            rec(c, depth + 1)
        if t.op == "call":
            r = world.ev.inline(t)
            if r is not None:
                rec(r, depth + 1)

    rec(ir.made)
    rec(ir.result)
    return out


def sibling_guards(ctx, world):
    ctx.describe("A6.sibling", "if the VJP rule of a primitive raises under a condition over the primitive's arguments, a custom JVP rule of the same primitive raises under the same (role-normalised) condition; a 'same'/linear JVP, or one that re-applies the primitive to the tangent, is exact for every configuration and needs none")
    vj, jv = {}, {}
    for e in world.table.entries:
        if not world.in_numpy_scope(e):
            continue
        (vj if e.mode == "vjp" else jv).setdefault(e.prim_id, []).append(e)
    n = 0
    for pid in sorted(set(vj) & set(jv)):
        for ve in vj[pid]:
            if ve.spec != "maker":
                continue
            vir = world.ir(ve)
            if vir is None or not vir.ok:
                continue
            vg = guards_of(world, vir)
            if not vg:
                continue
            for je in jv[pid]:
                if je.argnum != ve.argnum and je.argnum is not None and ve.argnum is not None:
                    continue
                inst = f"{pid}[{ve.argnum}]"
                if je.spec != "maker":
                    ctx.ob("A6.sibling", inst, True, je.loc, nontrivial=False, sample=f"JVP is '{je.spec}': exact for every configuration")
                    continue
                jir = world.ir(je)
                if jir is None or not jir.ok:
                    ctx.ob("A6.sibling", inst, None, je.loc)
                    continue
                n += 1
                if _reapplies(world, jir, je):
                    ctx.ob("A6.sibling", inst, True, je.loc, sample="JVP re-applies the primitive to the tangent")
                    continue
                jg = {g for g, pol, _ in guards_of(world, jir)}
                missing = [(g, pol, t) for g, pol, t in vg if g not in jg]
                if not missing:
                    ctx.ob("A6.sibling", inst, True, je.loc, sample="; ".join(sorted({g for g, _, _ in vg}))[:160])
                else:
                    g, pol, t = missing[0]
                    ctx.fail(
                        "A6.sibling",
                        inst,
                        f"jvp:{pid}[{je.argnum}]|missing-guard:{g}",
                        je.loc,
                        f"the VJP rule of {pid} raises when `{g}` is {pol} but the JVP rule has no such guard: forward mode silently computes with a formula its reverse-mode twin declares unsupported",
                        f"an input for which `{g}` is {pol}, differentiated in forward mode",
                    )
    ctx.floor("A6.sibling guarded VJP/JVP pairs", n, 4)


def _reapplies(world, jir, je):
    res = strip_seq(jir.result)
    for conds, leaf in leaves(world.ev, res):
        leaf = strip_seq(leaf)
        if leaf.op != "call":
            return False
        ref, pre = resolve_callee(world.ev, leaf)
        if ref is None or ref.qual != je.prim_id:
            return False
        k = je.argnum if isinstance(je.argnum, int) else 0
        if len(leaf.args) <= k or not (leaf.args[k].op == "sym" and leaf.args[k].get("role") == "g"):
            return False
        # every other positional argument of the primitive is handed on unchanged
        for i, a in enumerate(leaf.args):
            if i != k and not ((a.op == "arg" and a.index == i) or (a.op == "star" and a.x.op == "rest" and a.x.start == i)):
                return False
        from .common import prim_positional_arity

        ar = prim_positional_arity(world, je.prim)
        if ar is not None and ar[1] is None:
            # variadic primitive: the remaining arguments must be forwarded too
            if not any(a.op == "star" and a.x.op == "rest" for a in leaf.args):
                return False
    return True


OPTION_DOMAINS = {
    "norm": [None, "backward", "ortho", "forward"],
    "UPLO": ["L", "U"],
}


def option_domains(ctx, world):
    ctx.describe("A6.enum", "a rule that branches on a parameter with a closed NumPy option domain (norm in {None,'backward','ortho','forward'}, UPLO in {'L','U'}) compares it with every member of the domain or ends in a raising branch; passing the option through unchanged is accepted")
    n = 0
    for e in world.table.entries:
        if e.spec != "maker" or not world.in_numpy_scope(e):
            continue
        ir = world.ir(e)
        if ir is None or not ir.ok:
            continue
        found = {}
        for root in (ir.made, ir.result):
            for t in deep_terms(world.ev, root):
                if t.op == "if" or t.op == "when":
                    c = t.cond
                    for x in walk(c):
                        if x.op == "cmp" and x.opname in ("Is", "IsNot", "Eq", "NotEq", "In", "NotIn"):
                            for side, other in ((x.l, x.r), (x.r, x.l)):
                                if side.op == "sub" and side.idx.op == "const" and isinstance(side.idx.value, int):
                                    from .common import project

                                    pr = project(world.ev, side.obj, side.idx.value)
                                    side = pr if pr is not None else side
                                if side.op == "arg" and side.get("name") in OPTION_DOMAINS:
                                    vals = []
                                    if other.op == "const":
                                        vals = [other.value]
                                    elif other.op in ("tuple", "list"):
                                        vals = [v.value for v in other.elts if v.op == "const"]
                                    d = found.setdefault(side.name, {"vals": set(), "raises": False, "node": t})
                                    d["vals"].update(vals)
                                    if t.op == "if" and (strip_seq(t.then).op == "raise" or strip_seq(t.other).op == "raise"):
                                        d["raises"] = True
        for pname, d in found.items():
            n += 1
            dom = OPTION_DOMAINS[pname]
            missing = [v for v in dom if v not in d["vals"]]
            inst = f"{construct_of(e)}:{pname}"
            if not missing or d["raises"]:
                ctx.ob("A6.enum", inst, True, e.loc, sample=f"compared with {sorted(map(repr, d['vals']))}")
            else:
                ctx.fail(
                    "A6.enum",
                    inst,
                    f"{e.mode}:{e.prim_id}|{pname}:{sorted(map(repr, d['vals']))}",
                    e.loc,
                    f"the rule branches on `{pname}` but only compares it with {sorted(map(repr, d['vals']))}; NumPy also accepts {missing}, which fall into a branch written for a different option",
                    f"the same call with {pname}={missing[0]!r}",
                )
    ctx.floor("A6.enum option branches", n, 4)


def guard_dominance(ctx, world):
    ctx.describe("A6.dom", "in a rule maker every explicit unsupported-option guard (raise-only `if`, assert, check_*(...) call) lies on EVERY path that reaches a return of the maker: it cannot be bypassed by an early return nor be made conditional")
    _guards_on_all_paths(ctx, world)
    seen = set()
    n = 0
    for e in world.table.entries:
        if e.spec != "maker" or not world.in_numpy_scope(e):
            continue
        ir = world.ir(e)
        if ir is None or ir.maker is None or not isinstance(ir.maker.fnode, ast.FunctionDef):
            continue
        fn = ir.maker.fnode
        if id(fn) in seen:
            continue
        seen.add(id(fn))
        guards = []
        for i, st in enumerate(fn.body):
            if _is_guard_stmt(st, world, ir.maker.mod):
                guards.append(i)
        if not guards:
            continue
        n += 1
        early = None
        for i, st in enumerate(fn.body[: guards[-1]]):
            if isinstance(st, ast.Return):
                early = st
            elif isinstance(st, (ast.If, ast.For, ast.While, ast.Try, ast.With)) and not _is_guard_stmt(st, world, ir.maker.mod):
                for x in ast.walk(st):
                    if isinstance(x, ast.Return) and _encl_def(x) is fn:
                        early = x
        inst = f"{ir.maker.mod.name}.{fn.name}"
        if early is None:
            ctx.ob("A6.dom", inst, True, loc_of(ir.maker.mod, fn))
        else:
            ctx.fail("A6.dom", inst, f"{inst}:early-return", loc_of(ir.maker.mod, early), f"`{norm_text(early)[:60]}` returns before the unsupported-option guard at line {fn.body[guards[-1]].lineno}: the guard can be bypassed", "a call configuration that takes the early-return path and also satisfies the guard's condition")
    ctx.floor("A6.dom guarded makers", n, 8)


def _guards_on_all_paths(ctx, world):
    seen = set()
    for e in world.table.entries:
        if e.spec != "maker" or not world.in_numpy_scope(e):
            continue
        ir = world.ir(e)
        if ir is None or ir.maker is None:
            continue
        # the maker and every repo helper def it calls at construction time (fft_grad -> rfft_grad ...)
        fns = []
        if isinstance(ir.maker.fnode, ast.FunctionDef):
            fns.append((ir.maker.mod, ir.maker.fnode))
        for t in deep_terms(world.ev, ir.made) if ir.made is not None else []:
            pass
        node = ir.maker.fnode
        for c in ast.walk(node):
            if isinstance(c, ast.Call):
                r = world.repo.resolve_expr(ir.maker.mod, c.func)
                if r is not None and r.kind == "repo" and isinstance(r.node, ast.FunctionDef) and not r.node.decorator_list:
                    fns.append((r.mod, r.node))
        for mod, fn in fns:
            if id(fn) in seen:
                continue
            seen.add(id(fn))
            guards = []
            for x in ast.walk(fn):
                if _encl_def(x) is not fn:
                    continue
                if isinstance(x, ast.Assert):
                    guards.append(x)
                elif _is_guard_call(world, mod, x):
                    guards.append(x)
            if not guards:
                continue
            ps = [p for p in paths(fn.body) if p[-1].kind in ("return", "fall")]
            for g in guards:
                inst = f"{mod.name}.{fn.name}:{norm_text(g)[:50]}"
                missing = [p for p in ps if not any(ev.node is g for ev in p)]
                # a path that raises before reaching the guard is not a bypass (it does not return)
                if not missing:
                    ctx.ob("A6.dom", inst, True, loc_of(mod, g))
                else:
                    conds = [f"{'' if ev.extra else 'not '}({norm_text(ev.node)[:40]})" for ev in missing[0] if ev.kind == "cond"]
                    ctx.fail("A6.dom", inst, f"{mod.name}.{fn.name}|conditional-guard:{norm_text(g)[:60]}", loc_of(mod, g), f"the guard `{norm_text(g)[:60]}` is skipped on the returning path [{' and '.join(conds) or 'unconditional'}]: an unsupported configuration can reach the rule without being rejected", "a call configuration that takes that path and violates the guard's condition")


def _encl_def(n):
    p = getattr(n, "_parent", None)
    while p is not None and not isinstance(p, (ast.FunctionDef, ast.Lambda)):
        p = getattr(p, "_parent", None)
    return p


def _is_guard_call(world, mod, st):
    """an expression statement calling a guard function: a repo function (any name, nested or module level) whose
    own body raises on some path and whose value is not used"""
    if not (isinstance(st, ast.Expr) and isinstance(st.value, ast.Call)):
        return False
    f = st.value.func
    if isinstance(f, ast.Name) and f.id.startswith("check_"):
        return True
    node = None
    if isinstance(f, ast.Name):
        # a nested def of the enclosing function
        p_ = _encl_def(st)
        while p_ is not None and node is None:
            for x in ast.walk(p_):
                if isinstance(x, ast.FunctionDef) and x.name == f.id and _encl_def(x) is p_:
                    node = x
            p_ = _encl_def(p_)
    if node is None and world is not None and isinstance(f, (ast.Name, ast.Attribute)):
        r = world.repo.resolve_expr(mod, f)
        if r is not None and r.kind == "repo" and isinstance(r.node, ast.FunctionDef) and not r.node.decorator_list:
            node = r.node
    if node is None:
        return False
    raises = [x for x in ast.walk(node) if isinstance(x, ast.Raise) and _encl_def(x) is node]
    returns_value = [x for x in ast.walk(node) if isinstance(x, ast.Return) and x.value is not None and _encl_def(x) is node]
    return bool(raises) and not returns_value


def _is_guard_stmt(st, world=None, mod=None):
    if isinstance(st, ast.Assert):
        return True
    if _is_guard_call(world, mod, st):
        return True
    if isinstance(st, ast.If):
        def only_raises(body):
            return body and all(isinstance(s, ast.Raise) for s in body)
        if only_raises(st.body):
            return True
        if st.orelse and all(isinstance(s, ast.If) for s in st.orelse):
            return _is_guard_stmt(st.orelse[0]) and only_raises(st.body)
    if isinstance(st, ast.Expr) and isinstance(st.value, ast.Call) and isinstance(st.value.func, ast.Name) and st.value.func.id.startswith("check_"):
        return True
    return False


def option_packs(ctx, world):
    """A6.optpack - a re-implemented wrapper that takes NumPy's remaining options as a pack (*args, **kwargs) applies
    the pack exactly once on every path: it hands it to ONE constructor call and never to a recursive call of itself on
    the elements (np.array(list, ndmin=2) pads the assembled array once, not every leaf)."""
    from ..tutil import cases, unseq

    ctx.describe("A6.optpack", "in the non-primitive wrappers of numpy_wrapper.py that take an option pack (*args and/or **kwargs), every path that returns passes each pack to exactly one call, and that call is not the wrapper itself (options such as ndmin / copy / order act once on the assembled result, not on every nested element)")
    m = world.repo.mod("autograd.numpy.numpy_wrapper")
    ev = world.ev
    n = 0
    for fq, fnode in m.functions():
        if not isinstance(fnode, ast.FunctionDef) or _is_prim_def(world, m, fnode) or any(isinstance(p, ast.FunctionDef) for p in _parents(fnode)):
            continue
        a = fnode.args
        if not (a.vararg and a.kwarg):
            continue
        name = fq.split(".")[-1]
        if name in ("wrap_namespace", "wrap_intdtype", "parse_einsum_input"):
            continue
        sc = Scope()
        for p in a.posonlyargs + a.args:
            sc.vars[p.arg] = T("sym", name=p.arg, role="param")
        packs = {}
        for p in (a.vararg, a.kwarg):
            packs[p.arg] = sc.vars[p.arg] = T("sym", name=p.arg, role="param")
        res = ev.run(fnode.body, sc, m)
        if res is None:
            continue
        self_ref = world.repo.resolve(m, name)
        for ci, c in enumerate(cases(unseq(res))):
            if c.leaf.op == "raise":
                continue
            for pname, psym in packs.items():
                users = []
                for t in walk(c.leaf):
                    if t.op != "call":
                        continue
                    direct = list(t.args) + list(t.kw.values()) + list(t.get("dstar", []))
                    if any(x is psym or (x.op == "star" and x.x is psym) for x in direct):
                        users.append(t)
                n += 1
                inst = f"{name}:{pname}:path{ci}"
                rec = [t for t in users if (lambda r: r is not None and self_ref is not None and r.qual == self_ref.qual)(resolve_callee(ev, t)[0])]
                if rec:
                    ctx.fail("A6.optpack", inst, f"numpy_wrapper.{name}|{pname}:recursive", loc_of(m, fnode), f"`{pname}` is handed to a recursive call of {name} on the elements (and again to the outer constructor): every option acts on each nested element as well as on the assembled result", f"np.{name}([x0, x1], ndmin=2): NumPy pads the assembled array once")
                elif len(users) != 1:
                    ctx.fail("A6.optpack", inst, f"numpy_wrapper.{name}|{pname}:uses={len(users)}", loc_of(m, fnode), f"`{pname}` reaches {len(users)} calls on one path (expected exactly one: NumPy applies the options once)", f"np.{name}(..., <any option>)")
                else:
                    ctx.ob("A6.optpack", inst, True, loc_of(m, fnode))
    ctx.floor("A6.optpack (wrapper, pack, path) instances", n, 2)


def rank_guards(ctx, world):
    """A6.guardarg - a rule that only supports some ranks of its argument says so with a raising guard.  For the
    functions whose result does not always have the argument's rank (sort / partition / cumsum / repeat / take ...
    flatten when axis=None: facts/axis_none_flattens.json) a guard that reads the rank or shape of the ANSWER instead of
    the argument does not cover the flattened configuration: the answer is 1-D there whatever the argument's rank."""
    from ..terms import walk as _walk

    fx = facts.load("axis_none_flattens")
    flat_result = set(fx["flattens"]) - set(fx["shape_preserving"])
    ctx.describe("A6.guardarg", "in the rules of NumPy functions whose result is flattened when axis=None (sort, partition, cumsum, repeat, take, ...), every raising guard on a rank / shape reads the rank / shape of an ARGUMENT, never only of the answer (which is 1-D on the flattened path for every argument rank)")

    def rank_reads(c):
        """(reads an argument's rank/shape, reads the answer's rank/shape) inside a condition"""
        on_arg = on_ans = False
        for t in _walk(c):
            tgt = None
            if t.op == "attr" and t.name in ("ndim", "shape"):
                tgt = t.obj
            elif t.op == "call" and len(t.args) == 1:
                r, _ = resolve_callee(world.ev, t)
                if r is not None and is_numpy_callable(r) and base_name(r) in ("ndim", "shape"):
                    tgt = t.args[0]
            if tgt is None:
                continue
            if tgt.op == "arg":
                on_arg = True
            if tgt.op == "sym" and tgt.get("role") == "ans":
                on_ans = True
        return on_arg, on_ans

    n = 0
    for e in world.table.entries:
        if e.spec != "maker" or not world.in_numpy_scope(e) or not is_numpy_callable(e.prim) or base_name(e.prim) not in flat_result:
            continue
        ir = world.ir(e)
        if ir is None or not ir.ok:
            continue
        for key, pol, t in guards_of(world, ir):
            cond = t.cond
            on_arg, on_ans = rank_reads(cond)
            if not (on_arg or on_ans):
                continue
            n += 1
            inst = f"{construct_of(e)}|{key[:50]}"
            if on_ans and not on_arg:
                ctx.fail("A6.guardarg", inst, f"{e.mode}:{e.prim_id}|guard-on-answer", e.loc, f"the guard `{key[:70]}` reads the rank / shape of the answer only: {base_name(e.prim)}(x, axis=None) flattens, so the answer is 1-D for every rank of x and the guard never fires there", f"{base_name(e.prim)} of an array with ndim >= 2 called with axis=None")
            else:
                ctx.ob("A6.guardarg", inst, True, e.loc)
    ctx.floor("A6.guardarg rank guards in rules of flattening functions", n, 2)


def type_queries(ctx, world):
    """A14.typeq - autograd.builtins.isinstance / type answer for the PLAIN value a traced value stands for, at every
    nesting depth: they are the builtins wrapped by notrace_primitive (which strips every box level with getval), or a
    function that applies the builtin to getval(<first argument>).  Unwrapping a single level (`obj._value`) answers
    for the inner box once differentiation is nested."""
    ctx.describe("A14.typeq", "autograd.builtins.isinstance and autograd.builtins.type are the same-named builtins applied to the fully unboxed first argument: bound as notrace_primitive(<builtin>) or written as <builtin>(getval(x), ...); no single-level `._value` unwrapping")
    m = world.repo.mod("autograd.builtins")
    n = 0
    for name in ("isinstance", "type"):
        bl = m.top.get(name)
        if not bl:
            raise AnalysisError(f"autograd.builtins.{name} vanished")
        # the LAST module-level binding of the name is what the module exports
        kind, node = bl[-1][0], bl[-1][1]
        n += 1
        ok, why = False, f"autograd.builtins.{name} is not bound to notrace_primitive({name}) nor to a function of that form"
        loc = loc_of(m, bl[-1][2]) if len(bl[-1]) > 2 and bl[-1][2] is not None else loc_of(m, node)
        if kind == "assign" and isinstance(node, ast.Call) and len(node.args) == 1 and not node.keywords:
            fr = world.repo.resolve_expr(m, node.func)
            # the argument is evaluated BEFORE the name is rebound: it is the builtin (or an alias of it bound earlier)
            ar = world.repo.resolve(m, node.args[0].id, before=node.lineno) if isinstance(node.args[0], ast.Name) and "before" in world.repo.resolve.__code__.co_varnames else world.repo.resolve_expr(m, node.args[0])
            aq = ar.qual if ar is not None else (f"builtins.{node.args[0].id}" if isinstance(node.args[0], ast.Name) else "")
            ok = fr is not None and fr.qual == "autograd.tracer.notrace_primitive" and aq in (f"builtins.{name}", f"autograd.builtins.{name}")
        elif kind in ("def", "function") or isinstance(node, ast.FunctionDef):
            fnode = node if isinstance(node, ast.FunctionDef) else None
            if fnode is not None and fnode.args.args:
                r_, sy_, m_, fn_, sc_ = eval_function(world, "autograd.builtins", name)
                r_ = strip_seq(r_) if r_ is not None else None
                x0 = sy_["#0"]
                if r_ is not None and r_.op == "call" and r_.fn.op == "ref" and r_.fn.ref.qual == f"builtins.{name}" and r_.args:
                    a0 = r_.args[0]
                    ok = is_call_to(a0, "autograd.tracer.getval") and len(a0.args) == 1 and a0.args[0] is x0
                    if not ok:
                        why = f"autograd.builtins.{name} applies the builtin to `{str(a0)[:50]}`, not to getval(<first argument>): one box level is stripped at most, so at nesting depth 2 the query is answered for the inner box"
        if ok:
            ctx.ob("A14.typeq", f"autograd.builtins.{name}", True, loc)
        else:
            ctx.fail("A14.typeq", f"autograd.builtins.{name}", f"autograd.builtins.{name}:unboxing", loc, why, f"grad(grad(f)) / hessian of a function that branches on autograd.builtins.{name}(x, ...) of its traced argument")
    ctx.floor("A14.typeq replacements", n, 2)


def traced_paths(ctx, world):
    """A6.tracedpath - value transparency of the re-implemented wrappers: what a wrapper in numpy_wrapper.py computes
    must not depend on WHETHER an operand is traced.  A branch taken only for boxed operands (isbox(x), isinstance(x,
    Box)) is a second implementation of the function that plain calls - and every test that compares with NumPy on
    plain inputs - never execute."""
    ctx.describe("A6.tracedpath", "no function of autograd/numpy/numpy_wrapper.py decides its control flow on whether an operand is traced (isbox(..), isinstance(.., Box), type(..) in Box.types): traced and plain calls run the same code, traced leaves inside raw results are found by wrap_if_boxes_inside on the result's dtype")
    m = world.repo.mod("autograd.numpy.numpy_wrapper")
    bad = []
    n = 0
    for fq, fnode in m.functions():
        if not isinstance(fnode, (ast.FunctionDef, ast.Lambda)):
            continue
        n += 1
        for x in ast.walk(fnode):
            if not isinstance(x, ast.Call):
                continue
            r = world.repo.resolve_expr(m, x.func) if isinstance(x.func, (ast.Name, ast.Attribute)) else None
            q = r.qual if r is not None else ""
            is_test = q == "autograd.tracer.isbox"
            if q in ("builtins.isinstance", "autograd.builtins.isinstance", "builtins.issubclass") and len(x.args) == 2:
                cands = x.args[1].elts if isinstance(x.args[1], (ast.Tuple, ast.List)) else [x.args[1]]
                for c in cands:
                    rc = world.repo.resolve_expr(m, c) if isinstance(c, (ast.Name, ast.Attribute)) else None
                    if rc is not None and rc.kind == "repo" and rc.okind == "class" and any(k.qual == "autograd.tracer.Box" for k in class_mro(world.repo, rc)):
                        is_test = True
            if is_test:
                bad.append((fq, x))
    if not bad:
        ctx.ob("A6.tracedpath", f"no wrapper branches on tracedness ({n} functions)", True, m.relpath, nontrivial=True)
    for fq, x in bad:
        ctx.fail("A6.tracedpath", f"{fq}:{norm_text(x)[:40]}", f"{fq}|tracedness-test", loc_of(m, x), f"`{norm_text(x)[:60]}` makes {fq.split('.')[-1]} take a different path when an operand is traced: the value computed under differentiation is produced by other code than the value of the plain call", "the same call under grad / make_jvp on operands for which the two implementations differ (e.g. ndim >= 3)")
    ctx.floor("A6.tracedpath wrapper functions", n, 15)


OPTION_CLASSES = {
    "norm": [[None, "backward"], ["ortho"], ["forward"]],  # numpy.fft: None is documented as "backward"
    "UPLO": [["L"], ["U"]],
}


def option_dispatch_distinct(ctx, world):
    """A6.distinct - NumPy's closed option domains consist of values with pairwise DIFFERENT meanings (fft norm:
    backward / ortho / forward scale by 1, 1/sqrt(N), 1/N; UPLO: the lower / upper triangle), synonyms aside
    (norm=None is "backward").  Where a rule dispatches on such an option - an if/elif chain, a conditional
    expression or a table keyed by the option's values - two values of different meaning cannot select the same
    code: identical arms are a copied branch / a stale table entry."""
    ctx.describe("A6.distinct", "a dispatch on a closed NumPy option domain (fft norm, UPLO) - if/elif chain, conditional expression or dict keyed by the option's values - never selects identical code for two values with different documented meanings (None and 'backward' are synonyms)")
    n = 0

    def option_of(consts):
        for name, classes in OPTION_CLASSES.items():
            dom = [v for c in classes for v in c]
            if consts and all(any(v == d and type(v) is type(d) for d in dom) for v in consts):
                cls = {i for i, c in enumerate(classes) for v in consts if any(v == d and type(v) is type(d) for d in c)}
                if len(cls) >= 2:
                    return name, classes
        return None, None

    def cls_of(classes, v):
        return next(i for i, c in enumerate(classes) if any(v == d and type(v) is type(d) for d in c))

    def test_consts(test):
        """(subject text, [constants]) of `S == c` / `S is c` / `S in (c, ..)` / an `or` of those on one subject"""
        if isinstance(test, ast.BoolOp) and isinstance(test.op, ast.Or):
            parts = [test_consts(v) for v in test.values]
            if all(p is not None for p in parts) and len({p[0] for p in parts}) == 1:
                return parts[0][0], [c for p in parts for c in p[1]]
            return None
        if isinstance(test, ast.Compare) and len(test.ops) == 1:
            l, r, op = test.left, test.comparators[0], test.ops[0]
            if isinstance(op, (ast.Eq, ast.Is)):
                for s_, c_ in ((l, r), (r, l)):
                    if isinstance(c_, ast.Constant) and not isinstance(s_, ast.Constant):
                        return norm_text(s_), [c_.value]
            if isinstance(op, ast.In) and isinstance(r, (ast.Tuple, ast.List, ast.Set)) and all(isinstance(x, ast.Constant) for x in r.elts):
                return norm_text(l), [x.value for x in r.elts]
        return None

    def judge(mod, node, arms, what):
        """arms: [(constants, code text)]"""
        nonlocal n
        consts = [c for cs, _ in arms for c in cs]
        name, classes = option_of(consts)
        if name is None:
            return
        n += 1
        fq = getattr(_encl_def(node), "name", "<module>")
        inst = f"{mod.name}.{fq}: {what} on {name}"
        clash = None
        flat = [(c, txt) for cs, txt in arms for c in cs]
        for i, (c1, t1) in enumerate(flat):
            for c2, t2 in flat[i + 1 :]:
                if cls_of(classes, c1) != cls_of(classes, c2) and t1 == t2:
                    clash = (c1, c2, t1)
        if clash is None:
            ctx.ob("A6.distinct", inst, True, loc_of(mod, node), sample=f"{len(flat)} value(s), pairwise different code for different meanings")
        else:
            ctx.fail("A6.distinct", inst, f"{mod.name}.{fq}|same-code:{name}={clash[0]!r}/{clash[1]!r}", loc_of(mod, node), f"{name}={clash[0]!r} and {name}={clash[1]!r} mean different things to NumPy but select the same code (`{clash[2][:50]}`) in this {what}", f"the same call once with {name}={clash[0]!r} and once with {name}={clash[1]!r}: one of the two gets the other's scaling / triangle")

    def dispatches(tree):
        for x in ast.walk(tree):
            if isinstance(x, ast.Dict) and x.keys and all(isinstance(k, ast.Constant) for k in x.keys):
                yield x, [([k.value], norm_text(v)) for k, v in zip(x.keys, x.values)], "table"
            elif isinstance(x, ast.If):
                par = getattr(x, "_parent", None)
                if isinstance(par, ast.If) and par.orelse == [x]:
                    continue  # an elif arm of a chain already taken from its head
                arms, cur, subj = [], x, None
                while isinstance(cur, ast.If):
                    tc = test_consts(cur.test)
                    if tc is not None and (subj is None or tc[0] == subj):
                        subj = tc[0]
                        arms.append((tc[1], "; ".join(norm_text(s) for s in cur.body)))
                    cur = cur.orelse[0] if len(cur.orelse) == 1 else None
                if len(arms) >= 2:
                    yield x, arms, "if/elif chain"
            elif isinstance(x, ast.IfExp):
                par = getattr(x, "_parent", None)
                if isinstance(par, ast.IfExp) and par.orelse is x:
                    continue
                arms, cur, subj = [], x, None
                while isinstance(cur, ast.IfExp):
                    tc = test_consts(cur.test)
                    if tc is not None and (subj is None or tc[0] == subj):
                        subj = tc[0]
                        arms.append((tc[1], norm_text(cur.body)))
                    cur = cur.orelse
                if len(arms) >= 2:
                    yield x, arms, "conditional expression"

    # the matcher is verified on an embedded positive example on every run (today's tree has two dispatches; a
    # refactoring may leave none, which is fine - a matcher that recognises nothing is not)
    probe = ast.parse(
        "def f(fac, N, norm, UPLO, a):\n"
        "    s = {None: 1 / N, 'backward': 1 / N, 'ortho': 1.0, 'forward': 1 / N}[norm]\n"
        "    if norm is None or norm == 'backward':\n        fac /= N\n    elif norm == 'forward':\n        fac /= N\n"
        "    t = a.T if UPLO == 'L' else (a.T if UPLO == 'U' else a)\n"
        "    ok = {None: 1 / N, 'backward': 1 / N, 'ortho': 1.0, 'forward': N}[norm]\n"
    )
    for par_ in ast.walk(probe):
        for ch_ in ast.iter_child_nodes(par_):
            ch_._parent = par_
    got = []
    for x, arms, what in dispatches(probe):
        name, classes = option_of([c for cs, _ in arms for c in cs])
        flat = [(c, txt) for cs, txt in arms for c in cs]
        got.append((what, name, any(cls_of(classes, c1) != cls_of(classes, c2) and t1 == t2 for i, (c1, t1) in enumerate(flat) for c2, t2 in flat[i + 1 :]) if name else None))
    if sorted(got, key=str) != sorted([("table", "norm", True), ("if/elif chain", "norm", True), ("conditional expression", "UPLO", True), ("table", "norm", False)], key=str):
        raise AnalysisError(f"A6.distinct matcher no longer recognises its positive example ({got})")
    for mod in world.repo.mods.values():
        if not mod.name.startswith("autograd.numpy"):
            continue
        for x, arms, what in dispatches(mod.tree):
            judge(mod, x, arms, what)
    ctx.ob("A6.distinct", f"{n} dispatch(es) on a closed option domain in autograd.numpy.*; matcher verified on its positive example (table, if/elif chain, conditional expression)", True, "autograd/numpy/*", nontrivial=True)
