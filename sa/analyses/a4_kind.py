"""A4 - kind (real/complex) discipline.  Finite abstract evaluation: for every assignment of
{real, complex} to the differentiable array arguments of a primitive, the kind of the rule's result is
computed in the domain {R, C, ?} and compared with the kind of the argument (VJP) / the output (JVP)."""
import ast
import itertools

from .. import facts
from ..model import AnalysisError, norm_text
from ..regs import class_lookup, class_mro
from ..ruleir import deep_leaves, leaves
from ..terms import walk
from .common import base_name, construct_of, deep_terms, is_numpy_callable, loc_of, project, resolve_callee

ALWAYS_REAL = {"abs", "absolute", "real", "imag", "angle", "var", "std", "linalg.norm", "fabs", "irfft", "irfft2", "irfftn", "hfft",
               "linalg.slogdet_not", "isreal", "iscomplex"}
ALWAYS_COMPLEX = {"fft", "ifft", "fft2", "ifft2", "fftn", "ifftn", "rfft", "rfft2", "rfftn", "ihfft", "linalg.eig", "linalg.eigvals"}
DATA_DEPENDENT = {"real_if_close", "linalg.eigh", "linalg.svd", "linalg.slogdet", "linalg.qr", "linalg.eig"}
# a REAL argument can give a COMPLEX result depending on the values (the other DATA_DEPENDENT entries return tuples of mixed kinds)
VALUE_DEPENDENT_KIND = {"linalg.eig"}
# repo primitives whose result kind is chosen by a (non-differentiable) dtype parameter: either kind for either argument kind
PARAM_KIND = {"autograd.numpy.numpy_wrapper._astype"}
REAL_ONLY_RESULT_FUNCS = {"real", "imag", "angle", "abs", "absolute", "fabs", "zeros", "ones", "eye", "arange", "linspace_not", "floor", "ceil", "sign",
                          "argsort", "argmax", "argmin", "tri", "tril_indices", "isfinite", "logical_and", "logical_or", "logical_not",
                          "equal", "not_equal", "greater", "less", "greater_equal", "less_equal", "shape", "ndim", "size", "prod_not", "irfft", "irfft2", "irfftn", "linalg.norm", "var", "std"}


def jk(*ks):
    """join of kinds; 'B' (bottom: a recursive call / raising path) is neutral."""
    if "C" in ks:
        return "C"
    if "?" in ks:
        return "?"
    if ks and all(k == "B" for k in ks):
        return "B"
    return "R"


class Kind:
    def __init__(self, world, assign, g_kind, ans_kind):
        self.world, self.ev = world, world.ev
        self.assign, self.gk, self.ak = assign, g_kind, ans_kind
        self.memo = {}

    def of(self, t):
        if t is None:
            return "R"
        k = id(t)
        if k in self.memo:
            return self.memo[k][1]
        self.memo[k] = (t, "?")
        r = self._of(t)
        self.memo[k] = (t, r)
        return r

    def truth(self, c):
        """Concrete truth of a kind test under the assignment (iscomplexobj(x), metadata(x)[3]), else None."""
        if c.op == "un" and c.opname == "Not":
            v = self.truth(c.x)
            return None if v is None else (not v)
        if c.op == "bool":
            vs = [self.truth(v) for v in c.vals]
            if c.opname == "and":
                if any(v is False for v in vs):
                    return False
                if all(v is True for v in vs):
                    return True
                return None
            if any(v is True for v in vs):
                return True
            if all(v is False for v in vs):
                return False
            return None
        x = None
        if c.op == "call":
            r, pre = resolve_callee(self.ev, c)
            if r is not None and r.qual.rsplit(".", 1)[-1] == "iscomplexobj" and c.args:
                x = c.args[0]
            if r is not None and is_numpy_callable(r) and base_name(r) == "can_cast" and len(c.args) >= 2 and not c.kw:
                # can_cast(complex dtype, real dtype) is False under every casting rule short of "unsafe"
                ka, kb = self.dtype_kind(c.args[0]), self.dtype_kind(c.args[1])
                if ka == "C" and kb == "R":
                    return False
                return None
        if c.op == "sub" and c.idx.op == "const" and c.idx.value == 3 and c.obj.op == "call":
            r, _ = resolve_callee(self.ev, c.obj)
            if r is not None and r.qual.endswith(".metadata") and c.obj.args:
                x = c.obj.args[0]
        if c.op == "attr" and c.name == "iscomplex":
            # vspace(x).iscomplex
            if c.obj.op == "call" and c.obj.args:
                x = c.obj.args[0]
        if x is not None:
            k = self.of(x)
            if k == "C":
                return True
            if k == "R":
                return False
        return None

    def dtype_kind(self, d):
        """kind of the arrays a dtype expression describes: X.dtype / result_type(X, ..) / a literal scalar type"""
        if d is None:
            return "?"
        if d.op == "seq":
            return self.dtype_kind(d.value)
        if d.op == "attr" and d.name == "dtype":
            return self.of(d.obj)
        if d.op == "call":
            r, pre = resolve_callee(self.ev, d)
            if r is not None and is_numpy_callable(r) and base_name(r) == "result_type":
                ks = [self.dtype_kind(a) if (a.op == "attr" and a.name == "dtype") else self.of(a) for a in list(pre) + list(d.args)]
                return jk(*ks) if ks else "?"
            if r is not None and r.qual.endswith(".vspace") and False:
                return "?"
        if d.op == "attr" and d.name == "dtype" and d.obj.op == "call":
            return self.of(d.obj)
        if d.op == "ref":
            q = d.ref.qual.rsplit(".", 1)[-1]
            if q in ("complex", "complex64", "complex128", "clongdouble", "cdouble", "csingle", "complex_"):
                return "C"
            if q in ("float", "float16", "float32", "float64", "longdouble", "double", "single", "int", "int32", "int64", "bool", "float_"):
                return "R"
        if d.op == "const" and isinstance(d.value, str):
            return "C" if d.value.startswith(("complex", "c", "D", "F", "G")) else "R"
        return "?"

    def _of(self, t):
        o = t.op
        if o == "sym":
            role = t.get("role")
            return self.gk if role == "g" else (self.ak if role == "ans" else "R")
        if o == "arg":
            if isinstance(t.index, int) and t.index in self.assign:
                return self.assign[t.index]
            return "R"
        if o == "const":
            return "C" if isinstance(t.value, complex) else "R"
        if o == "bin":
            return jk(self.of(t.l), self.of(t.r))
        if o == "un":
            return self.of(t.x)
        if o in ("cmp", "bool"):
            return "R"
        if o == "if":
            tv = self.truth(t.cond)
            if tv is True:
                return self.of(t.then)
            if tv is False:
                return self.of(t.other)
            if t.then.op == "raise":
                return self.of(t.other)
            if t.other.op == "raise":
                return self.of(t.then)
            a, b = self.of(t.then), self.of(t.other)
            if a == "B":
                return b
            if b == "B":
                return a
            return a if a == b else "?"
        if o == "seq":
            return self.of(t.value)
        if o == "attr":
            if t.name == "real" or t.name == "imag":
                return "R"
            if t.name in ("T", "mT"):
                return self.of(t.obj)
            return "?" if t.name not in ("shape", "ndim", "size", "dtype") else "R"
        if o == "sub":
            if t.idx.op == "const" and isinstance(t.idx.value, int):
                pr = project(self.ev, t.obj, t.idx.value)
                if pr is not None:
                    return self.of(pr)
            return self.of(t.obj)
        if o in ("tuple", "list"):
            return jk(*[self.of(e) for e in t.elts]) if t.elts else "R"
        if o == "loop":
            return jk(self.of(t.init), self.of(t.next))
        if o == "loopvar":
            return self.of(t.init) if t.init is not None else "?"
        if o in ("iterelem",):
            return self.of(t.src)
        if o == "star":
            return self.of(t.x)
        if o == "store":
            return jk(self.of(t.obj), self.of(t.val))
        if o == "grow":
            return jk(self.of(t.obj), self.of(t.val))
        if o == "comp":
            return self.of(t.elt)
        if o == "call":
            return self._call(t)
        if o == "ref":
            return "R"  # module-level constants (pi, e, inf, newaxis) and function objects
        if o == "unknown" and t.reason == "recursion":
            return "B"
        if o == "raise":
            return "B"
        return "?"

    def _call(self, t):
        fn = t.fn
        if fn.op == "attr":
            if fn.name in ("conj", "conjugate", "copy", "reshape", "ravel", "transpose", "swapaxes", "sum", "mean", "squeeze", "flatten"):
                return self.of(fn.obj)
            if fn.name == "astype" and t.args:
                return self.dtype_kind(t.args[0])
            if fn.name == "zeros":
                return "?"
            return "?"
        ref, pre = resolve_callee(self.ev, t)
        args = list(pre) + list(t.args)
        if ref is not None and ref.qual in PARAM_KIND and len(args) >= 2:
            return self.dtype_kind(args[1])
        if ref is not None and is_numpy_callable(ref):
            bn = base_name(ref)
            ns, _, name = ref.qual.rpartition(".")
            if bn in REAL_ONLY_RESULT_FUNCS:
                return "R"
            if bn in ALWAYS_COMPLEX:
                return "C"
            uf = self.world.env.ufunc(ns, name)
            if uf is not None and self.world.env.ufunc_real_of_complex(uf) and not self.world.env.ufunc_accepts_complex(uf):
                return "R"
            if bn in ("zeros_like", "ones_like", "empty_like") and args:
                return self.of(args[0])
            if bn in ("full",) and len(args) > 1:
                return self.of(args[1])
            if bn in ("pad", "tile", "repeat", "roll", "take", "broadcast_to", "expand_dims", "moveaxis", "rollaxis") and args:
                return self.of(args[0])  # (the other operands are widths / counts / shapes / axes, never data)
            # generic: complex iff some array operand is complex
            ks = [self.of(a) for a in args if a.op != "const" or isinstance(a.value, complex)]
            return jk(*ks) if ks else "R"
        if ref is not None and ref.kind in ("repo", "classattr"):
            q = ref.qual
            if q == "autograd.numpy.numpy_vjps.match_complex" and len(args) >= 2:
                return self.of(args[0])
            if q == "autograd.numpy.numpy_vjps.unbroadcast" and len(args) >= 2:
                tk = self._meta_kind(args[1])
                if tk == "R":
                    return "R"
                if tk == "C":
                    return self.of(args[0])
                return "?"
            if q == "autograd.numpy.numpy_jvps.broadcast" and len(args) >= 2:
                tk = self.of(args[1])
                if tk == "C":
                    return "C"
                if tk == "R":
                    return self.of(args[0])
                return "?"
            if q in ("autograd.numpy.numpy_vjps.dot_adjoint_0", "autograd.numpy.numpy_vjps.dot_adjoint_1") and len(args) >= 4:
                # onp.asarray(out, dtype=<dtype of the differentiated operand>)
                return self._meta_kind(args[2] if q.endswith("_0") else args[3])
            if q in ("autograd.numpy.numpy_vjps.tensordot_adjoint_0", "autograd.numpy.numpy_vjps.tensordot_adjoint_1"):
                return jk(self.of(args[0]), self.of(args[1]))
            if q in ("autograd.numpy.numpy_wrapper.concatenate_args", "autograd.numpy.numpy_wrapper.array_from_args"):
                skip = 1 if q.endswith("concatenate_args") else 2
                return jk(*[self.of(a) for a in args[skip:]]) if len(args) > skip else "R"
            if q == "autograd.numpy.fft.truncate_pad" and args:
                return self.of(args[0])
            if q == "autograd.numpy.numpy_vjps.untake" and args:
                return self.of(args[0])
            if q == "autograd.numpy.numpy_wrapper.make_diagonal" and args:
                return self.of(args[0])
        r = self.ev.inline(t)
        if r is not None:
            return self.of(r)
        return "?"

    def _meta_kind(self, m):
        if m is None:
            return "?"
        if m.op == "call":
            r, _ = resolve_callee(self.ev, m)
            if r is not None and r.qual.rsplit(".", 1)[-1] in ("metadata", "vspace") and m.args:
                return self.of(m.args[0])
            rr = self.ev.inline(m)
            if rr is not None:
                return self._meta_kind(rr)
        if m.op == "arg" and isinstance(m.index, int):
            # a metadata tuple passed through as an argument of a helper primitive: unknown
            return "?"
        return "?"


def ans_kind(world, prim, assign):
    if not is_numpy_callable(prim):
        return None
    bn = base_name(prim)
    if bn in DATA_DEPENDENT:
        return None
    if bn in ALWAYS_REAL:
        return "R"
    if bn in ALWAYS_COMPLEX:
        return "C"
    return jk(*assign.values()) if assign else "R"


def accepts_complex(world, prim):
    if not is_numpy_callable(prim):
        return False
    ns, _, name = prim.qual.rpartition(".")
    uf = world.env.ufunc(ns, name)
    if uf is not None:
        return world.env.ufunc_accepts_complex(uf)
    bn = base_name(prim)
    return bn not in ("fabs", "sort", "partition", "msort", "clip", "linspace", "maximum", "minimum", "fmax", "fmin", "max", "min", "amax", "amin", "pad", "gradient")


def diff_argnums(world, prim_id):
    nums = set()
    for e in world.table.entries:
        if e.prim_id == prim_id and isinstance(e.argnum, int) and e.spec != "none":
            nums.add(e.argnum)
    return sorted(nums)


def _run(ctx, world, mode, rule, restrict=None):
    n = 0
    for e in world.table.entries:
        if e.mode != mode or e.spec != "maker" or not world.in_numpy_scope(e) or not isinstance(e.argnum, int):
            continue
        if not accepts_complex(world, e.prim) and e.prim.qual not in PARAM_KIND:
            continue
        bn = base_name(e.prim)
        if restrict is not None and bn not in restrict:
            continue
        ir = world.ir(e)
        if ir is None or not ir.ok:
            continue
        nums = diff_argnums(world, e.prim_id)
        if e.argnum not in nums:
            nums.append(e.argnum)
        if len(nums) > 4:
            continue
        n += 1
        bad, und, seen = [], [], []
        ctx.extra["A4_kind_assignments_evaluated"] = ctx.extra.get("A4_kind_assignments_evaluated", 0) + 2 ** len(nums)
        for combo in itertools.product("RC", repeat=len(nums)):
            assign = dict(zip(nums, combo))
            ak = ans_kind(world, e.prim, assign)
            if e.prim.qual in PARAM_KIND:
                aks = ["R", "C"]  # x.astype(float) of a complex x, x.astype(complex) of a real x, ...
            elif ak is None and mode == "vjp" and is_numpy_callable(e.prim) and base_name(e.prim) in VALUE_DEPENDENT_KIND:
                # the output kind depends on the values (eig of a real matrix may be complex): the cotangent must have
                # the argument's kind for EITHER output kind
                aks = ["C"] if "C" in combo else ["R", "C"]
            elif ak is None:
                und.append((assign, "output kind is data dependent"))
                continue
            else:
                aks = [ak]
            ks = set()

            def decide(a, assign=assign):
                # iscomplexobj(<differentiable argument>) is decided by the kind assignment under evaluation
                if a.op == "call" and len(a.args) == 1 and a.args[0].op == "arg" and isinstance(a.args[0].index, int) and a.args[0].index in assign:
                    rf, _ = resolve_callee(world.ev, a)
                    if rf is not None and rf.qual.rsplit(".", 1)[-1] == "iscomplexobj":
                        return assign[a.args[0].index] == "C"
                return None

            from ..tutil import specialise

            res_ = specialise(ir.result, decide) if base_name(e.prim) in VALUE_DEPENDENT_KIND else ir.result
            for ak in aks:
                if mode == "vjp":
                    K = Kind(world, assign, ak, ak)
                    want = assign[e.argnum]
                else:
                    K = Kind(world, assign, assign[e.argnum], ak)
                    want = ak
                feasible = [leaf for conds, leaf in deep_leaves(world.ev, res_) if not any(K.truth(c_) is (not pol_) for c_, pol_ in conds)]  # (paths through inlined helpers too)
                ks_ak = {k for k in {K.of(leaf) for leaf in feasible} if k != "B"} or {"?"}  # B: a leaf that only recurses / raises contributes no kind of its own
                if len(aks) > 1 and "?" not in ks_ak and ks_ak != {want}:
                    bad.append((assign, ks_ak, want))  # definite for this possible output kind
                ks |= ks_ak
            seen.append(("".join(combo), "/".join(sorted(ks))))
            if "?" in ks:
                und.append((assign, "?"))
            elif ks != {want} and not any(b_[0] is assign for b_ in bad):
                bad.append((assign, ks, want))
        nf = " ".join(f"{a}->{k}" for a, k in seen)
        inst = construct_of(e)
        if bad:
            assign, ks, want = bad[0]
            desc = ", ".join(f"arg{i} {'complex' if k == 'C' else 'real'}" for i, k in sorted(assign.items()))
            what = "cotangent" if mode == "vjp" else "tangent"
            tgt = f"argument {e.argnum}" if mode == "vjp" else "the output"
            sig_ = ",".join(f"arg{i}={k_}" for i, k_ in sorted(assign.items())) + "->" + "/".join(sorted(ks))
            ctx.fail(
                rule,
                inst,
                inst + "|" + sig_,  # (the failing kind assignment and the kinds found are part of the finding's identity)
                e.loc,
                f"with {desc}: the {what} is {('real on one path and complex on another' if {'R', 'C'} <= set(ks) else ('complex' if 'C' in ks else 'real'))} but {tgt} is {'complex' if want == 'C' else 'real'} (no match_complex / kind cast aimed at it on this path)",
                desc,
                sample=nf,
            )
        elif und:
            ctx.ob(rule, inst, None, e.loc, sample=nf)
        else:
            ctx.ob(rule, inst, True, e.loc, sample=nf)
    return n


def match(ctx, world):
    ctx.describe("A4.match", "for every VJP rule of a complex-capable numpy primitive and every real/complex assignment of its differentiable arguments (exhaustive, 2^n), the cotangent's kind equals the argument's kind ({R,C,?} abstract evaluation; match_complex / unbroadcast casts modelled)")
    n = _run(ctx, world, "vjp", "A4.match")
    ctx.floor("A4.match instances", n, 80)


JVP_SCOPE = {"dot", "tensordot", "inner", "outer", "kron", "matmul", "real", "imag", "angle", "abs", "absolute", "conj", "conjugate", "real_if_close",
             "add", "subtract", "multiply", "divide", "true_divide", "power", "var", "std", "linalg.norm"}


def match_jvp(ctx, world):
    ctx.describe("A4.jvp", "same for custom JVP rules of contractions, kind-changing functions and arithmetic ufuncs: tangent kind == output kind for every real/complex assignment")
    n = _run(ctx, world, "jvp", "A4.jvp", restrict=JVP_SCOPE)
    ctx.floor("A4.jvp instances", n, 10)


# ------------------------------------------------------------------------------------------- A4.vspace
def vspace(ctx, world):
    ctx.describe("A4.vspace", "ComplexArrayVSpace overrides every kind-sensitive member of ArrayVSpace; covector and inner product contain a conjugation, the inner product takes a real part; the ndarray space factory dispatches on iscomplexobj")
    m = world.repo.mod("autograd.numpy.numpy_vspaces")
    cx = world.repo.resolve(m, "ComplexArrayVSpace")
    ar = world.repo.resolve(m, "ArrayVSpace")
    if cx is None or ar is None or cx.kind != "repo":
        raise AnalysisError("numpy_vspaces.ComplexArrayVSpace / ArrayVSpace vanished")
    mro = [k.qual for k in class_mro(world.repo, cx)]
    ok = ar.qual in mro
    ctx.ob("A4.vspace", "ComplexArrayVSpace <: ArrayVSpace", ok, loc_of(m, cx.node))
    own = {}
    for st in cx.node.body:
        if isinstance(st, ast.FunctionDef):
            own[st.name] = st
        elif isinstance(st, ast.Assign):
            for t in st.targets:
                if isinstance(t, ast.Name):
                    own[t.id] = st.value
    for name in ("size", "ones", "standard_basis", "randn", "_inner_prod", "_covector", "iscomplex"):
        if name in own:
            ctx.ob("A4.vspace", f"override:{name}", True, loc_of(m, own[name]))
        else:
            ctx.fail("A4.vspace", f"override:{name}", f"ComplexArrayVSpace.{name}", loc_of(m, cx.node), f"ComplexArrayVSpace does not override {name}: it inherits the real-array version", "any complex array: size/basis count n instead of 2n, inner product not real, covector not conjugated")
    # registry agreement: complex scalar types are registered with a complex space, real ones with a real space
    # (the class hierarchy of NumPy's scalar types is a fact about NumPy: np.complex64 is NOT a subclass of complex)
    import builtins as _b
    import importlib

    def pyclass(ref):
        q = getattr(ref, "qual", None)
        if q is None or getattr(ref, "kind", None) not in ("ext", "wrapped"):
            return None
        if ref.kind == "wrapped":
            q = "numpy." + ref.name
        root, _, rest = q.partition(".")
        try:
            obj = _b if root == "builtins" else (importlib.import_module("numpy") if root == "numpy" else None)
            for part in rest.split("."):
                obj = getattr(obj, part)
        except Exception:
            return None
        return obj if isinstance(obj, type) else None

    np_ = importlib.import_module("numpy")
    n_reg = 0
    for clsq, ttext, tref, maker, rm, site in world.table.vspace_reg:
        if maker is not None or tref is None:
            continue
        pc = pyclass(tref)
        if pc is None or not issubclass(pc, (int, float, complex, np_.number)):
            continue
        cr = None
        for mm in world.repo.mods.values():
            if clsq.startswith(mm.name + "."):
                r0 = world.repo.resolve(mm, clsq[len(mm.name) + 1:])
                if r0 is not None and r0.kind == "repo":
                    cr = r0
        if cr is None:
            continue
        n_reg += 1
        space_is_complex = cx.qual in [k.qual for k in class_mro(world.repo, cr)]
        type_is_complex = issubclass(pc, (complex, np_.complexfloating))
        inst = f"registered scalar type {ttext} -> {clsq.rsplit('.', 1)[-1]}"
        if space_is_complex == type_is_complex:
            ctx.ob("A4.vspace", inst, True, loc_of(rm, site))
        else:
            ctx.fail("A4.vspace", inst, f"registry-kind:{ttext}", loc_of(rm, site), f"the {'complex' if type_is_complex else 'real'} scalar type {ttext} is registered with the {'complex' if space_is_complex else 'real'} space {clsq.rsplit('.', 1)[-1]}", f"a value of type {ttext} (e.g. the scalar np.sum returns for an array of that dtype): size, standard basis, inner product and covector are those of the wrong kind")
    ctx.floor("A4.vspace registered scalar types", n_reg, 6)
    # iscomplex = True
    v = own.get("iscomplex")
    if v is not None:
        good = isinstance(v, ast.Constant) and v.value is True
        if good:
            ctx.ob("A4.vspace", "iscomplex is True", True, loc_of(m, v))
        else:
            ctx.fail("A4.vspace", "iscomplex is True", "ComplexArrayVSpace.iscomplex", loc_of(m, v), "iscomplex is not the constant True", "elementwise_grad / holomorphic_grad checks on complex outputs")

    def calls(fn):
        # the functions the evaluated method body calls (local aliases, helpers and methods of the class inlined)
        out = set()
        try:
            from ..kfun import eval_function as _evf
            from ..tutil import expand as _exp

            cls_name = getattr(getattr(fn, "_parent", None), "name", None)
            if cls_name is not None:
                r_, sy_, m_, fn_, sc_ = _evf(world, m.name, f"{cls_name}.{fn.name}")
                for t in walk(_exp(world.ev, r_, ())) if r_ is not None else []:
                    if t.op == "call":
                        rf, _ = resolve_callee(world.ev, t)
                        if rf is not None:
                            out.add(rf.qual.rsplit(".", 1)[-1])
                        elif t.fn.op == "attr":
                            out.add(t.fn.name)
        except AnalysisError:
            pass
        for n in ast.walk(fn):
            if isinstance(n, ast.Call):
                r = world.repo.resolve_expr(m, n.func)
                if r is not None:
                    out.add(r.qual.rsplit(".", 1)[-1])
                elif isinstance(n.func, ast.Attribute):
                    out.add(n.func.attr)
        return out

    for name, need in (("_covector", {"conj"}), ("_inner_prod", {"conj", "real"})):
        fn = own.get(name)
        if fn is None:
            continue
        have = calls(fn)
        have |= {"conj"} if "conjugate" in have or "vdot" in have else set()
        missing = need - have
        if not missing:
            ctx.ob("A4.vspace", f"{name} uses {sorted(need)}", True, loc_of(m, fn))
        else:
            ctx.fail("A4.vspace", f"{name} uses {sorted(need)}", f"ComplexArrayVSpace.{name}:{sorted(missing)}", loc_of(m, fn), f"{name} lacks {sorted(missing)}: the pairing is not the real inner product with conjugation", "complex vectors x, y with non-zero imaginary parts")
    # size = 2 * prod(shape); two basis vectors per entry
    fn = own.get("size")
    if fn is not None:
        two = any(isinstance(n, ast.Constant) and n.value == 2 for n in ast.walk(fn))
        if two:
            ctx.ob("A4.vspace", "size doubles", True, loc_of(m, fn))
        else:
            ctx.fail("A4.vspace", "size doubles", "ComplexArrayVSpace.size", loc_of(m, fn), "size does not contain the factor 2 (real dimension of C^n)", "grad on a complex scalar output: size==1 test")
    fn = own.get("standard_basis")
    if fn is not None:
        consts = [n.value for n in ast.walk(fn) if isinstance(n, ast.Constant) and isinstance(n.value, (int, float, complex))]
        has1 = any(c == 1 for c in consts)
        hasj = any(isinstance(c, complex) and c == 1j for c in consts)
        if has1 and hasj:
            ctx.ob("A4.vspace", "basis has 1 and 1j per entry", True, loc_of(m, fn))
        else:
            ctx.fail("A4.vspace", "basis has 1 and 1j per entry", "ComplexArrayVSpace.standard_basis", loc_of(m, fn), "the standard basis does not yield both 1 and 1j for every entry", "jacobian of a complex-valued function")
    fn = own.get("ones")
    if fn is not None:
        hasj = any(isinstance(n, ast.Constant) and isinstance(n.value, complex) for n in ast.walk(fn))
        if hasj:
            ctx.ob("A4.vspace", "ones = 1+1j", True, loc_of(m, fn))
        else:
            ctx.fail("A4.vspace", "ones = 1+1j", "ComplexArrayVSpace.ones", loc_of(m, fn), "ones() has no imaginary unit", "elementwise_grad on complex")
    # factory dispatch
    found = False
    for cls, txt, tref, maker, mm, site in world.table.vspace_reg:
        if tref is not None and tref.qual == "numpy.ndarray":
            found = True
            good = False
            if maker is not None:
                from ..terms import Scope, T
                from ..tutil import cases, expand, unseq

                ev = world.ev
                clo, pre, prekw = ev.as_closure(ev.ev(maker, Scope(), mm))
                if clo is not None and not pre and not prekw:
                    xs = T("sym", name="x", role="param")
                    body = unseq(expand(ev, ev.apply(clo, [xs], {}, []), ()))
                    is_test = lambda a: a.op == "call" and a.fn.op == "ref" and a.fn.ref.qual == "numpy.iscomplexobj" and len(a.args) == 1 and a.args[0] is xs
                    def makes(t, k):
                        return t.op == "call" and t.fn.op == "ref" and t.fn.ref.qual == k.qual and len(t.args) == 1 and t.args[0] is xs and not t.kw
                    cs = cases(body)
                    good = bool(cs) and all((c.pol(is_test) is True and makes(c.leaf, cx)) or (c.pol(is_test) is False and makes(c.leaf, ar)) for c in cs)
                    good = good and any(c.pol(is_test) is True for c in cs) and any(c.pol(is_test) is False for c in cs)
            if good:
                ctx.ob("A4.vspace", "ndarray factory dispatches on iscomplexobj", True, loc_of(mm, site))
            else:
                ctx.fail("A4.vspace", "ndarray factory dispatches on iscomplexobj", "VSpace.register(ndarray)", loc_of(mm, site), "the ndarray space factory is not `ComplexArrayVSpace(x) if iscomplexobj(x) else ArrayVSpace(x)`", "complex ndarray argument")
    if not found:
        raise AnalysisError("VSpace.register(np.ndarray, ...) vanished")


# ------------------------------------------------------------------------------------------- A4.modulus
def modulus(ctx, world):
    ctx.describe("A4.modulus", "in the VJP/JVP bodies of modulus-family functions (abs, absolute, var, std, linalg.norm) every multiplicative occurrence of the array argument is under conj(.) or abs(.): gradient ~ conj(z - c)")
    fam = set(facts.load("modulus_family")["functions"])
    n = 0
    for e in world.table.entries:
        if e.spec != "maker" or not world.in_numpy_scope(e) or not is_numpy_callable(e.prim):
            continue
        if base_name(e.prim) not in fam or e.argnum != 0:
            continue
        ir = world.ir(e)
        if ir is None or not ir.ok:
            continue
        n += 1
        bare = _bare_factor_uses(world, ir.result)
        inst = construct_of(e)
        if not bare:
            ctx.ob("A4.modulus", inst, True, e.loc)
        else:
            ctx.fail(
                "A4.modulus",
                inst,
                inst,
                e.loc,
                f"the array argument enters the result as a multiplicative factor without conjugation ({bare[0]}): for complex input this returns the conjugate of the documented gradient",
                "complex input z with non-zero imaginary part",
            )
    ctx.floor("A4.modulus instances", n, 8)


def _is_arg0(t):
    return t.op == "arg" and t.index == 0


def _bare_factor_uses(world, result):
    """Multiplicative uses of arg0 (or arg0 - mean) that are not under conj/abs/real-valued functions."""
    ev = world.ev
    out = []
    seen = set()

    def factor(t, protected, depth=0):
        # walk a multiplicative/additive expression; report arg0 reached without protection
        if t is None or id(t) in seen and not protected or depth > 40:
            return
        if not protected:
            seen.add(id(t))
        o = t.op
        if _is_arg0(t):
            if not protected:
                out.append(f"line {t.line}")
            return
        if o == "bin":
            if t.opname in ("Mult", "Div", "Add", "Sub", "MatMult"):
                factor(t.l, protected, depth + 1)
                if t.opname != "Div":
                    factor(t.r, protected, depth + 1)
                else:
                    factor(t.r, True, depth + 1)
            elif t.opname == "Pow":
                factor(t.l, True, depth + 1)
            return
        if o == "un":
            factor(t.x, protected, depth + 1)
            return
        if o == "if":
            factor(t.then, protected, depth + 1)
            factor(t.other, protected, depth + 1)
            return
        if o == "seq":
            factor(t.value, protected, depth + 1)
            return
        if o == "sub":
            if t.idx.op == "const" and isinstance(t.idx.value, int):
                pr = project(ev, t.obj, t.idx.value)
                if pr is not None:
                    factor(pr, protected, depth + 1)
                    return
            factor(t.obj, protected, depth + 1)
            return
        if o in ("tuple", "list"):
            for x in t.elts:
                factor(x, protected, depth + 1)
            return
        if o == "call":
            ref, pre = resolve_callee(ev, t)
            args = list(pre) + list(t.args)
            if ref is not None and is_numpy_callable(ref):
                bn = base_name(ref)
                if bn in ("conj", "conjugate", "abs", "absolute", "real", "imag", "angle", "sign", "shape", "ndim", "size", "mean_not", "metadata", "result_type", "iscomplexobj", "isscalar"):
                    for a in args:
                        factor(a, True, depth + 1)
                    return
                if bn in ("mean",):
                    # x - mean(x): the centred value; treat like x itself
                    for a in args[:1]:
                        factor(a, protected, depth + 1)
                    return
                if bn in ("linalg.svd", "linalg.norm"):
                    return
                for a in args:
                    factor(a, protected, depth + 1)
                for a in t.kw.values():
                    factor(a, True, depth + 1)
                return
            if ref is not None and ref.kind in ("repo", "classattr") and ref.qual.endswith(".metadata"):
                return
            r = ev.inline(t)
            if r is not None:
                factor(r, protected, depth + 1)
                return
            for a in args:
                factor(a, protected, depth + 1)
            return
        if o == "cmp":
            return
        if o == "loop":
            factor(t.init, protected, depth + 1)
            factor(t.next, protected, depth + 1)

    factor(result, False)
    return out
