"""A8 - box taint / traceability of rule bodies.  Lattice {P (plain), B (maybe an autograd Box)}.
A raw numpy/scipy call (onp.*, _np.*, npo.*) receiving a maybe-box operand inside a NON-primitive rule body
is a sink: under higher-order differentiation the raw call gets an ArrayBox and either raises or (object
array fallback) silently drops the dependence."""
import ast

from ..model import norm_text
from ..terms import T, children
from .a4_kind import diff_argnums
from .common import base_name, construct_of, is_numpy_callable, locally_constant, project, resolve_callee

PLAIN_ATTRS = {"shape", "ndim", "dtype", "size", "iscomplex"}
PLAIN_BUILTINS = {"len", "range", "isinstance", "type", "slice", "str", "repr", "id", "hasattr", "callable", "print", "format", "set.__x__"}


class Taint:
    def __init__(self, world, box_args, all_args_box=False):
        self.world, self.ev = world, world.ev
        self.box_args = box_args
        self.all = all_args_box
        self.memo = {}
        self.sinks = []
        self.raw_sites = 0

    def of(self, t):
        if t is None:
            return "P"
        k = id(t)
        if k in self.memo:
            return self.memo[k][1]
        self.memo[k] = (t, "P")
        r = self._of(t)
        self.memo[k] = (t, r)
        return r

    def _deep(self, res, depth=0):
        """taint of a value that may itself be a function (a closure returning a closure ...): applied to plain symbols"""
        v = self.of(res)
        if v == "B" or depth > 2:
            return v
        r0 = res
        while r0 is not None and r0.op == "seq":
            r0 = r0.value
        if r0 is not None and r0.op == "closure" and isinstance(r0.fnode, (ast.FunctionDef, ast.Lambda)):
            fa = r0.fnode.args
            plain = [T("sym", name=f"q{i}", role="plain") for i in range(len(fa.posonlyargs + fa.args))]
            try:
                return self._deep(self.ev.apply(r0, plain, {}, []), depth + 1)
            except Exception:
                return v
        return v

    def j(self, xs):
        return "B" if any(x == "B" for x in xs) else "P"

    def _of(self, t):
        o = t.op
        if o == "sym":
            return "B" if t.get("role") in ("g", "ans", "gs") else "P"
        if o == "arg":
            if self.all:
                return "B"
            return "B" if (isinstance(t.index, int) and t.index in self.box_args) else "P"
        if o == "rest":
            return "B"
        if o in ("const", "ref", "kwrest", "closure", "fstr", "unknown", "slice"):
            if o == "slice":
                return self.j([self.of(t.lo), self.of(t.hi), self.of(t.step)])
            return "P"
        if o == "bin":
            return self.j([self.of(t.l), self.of(t.r)])
        if o == "un":
            if t.opname == "Not":
                self.of(t.x)
                return "P"
            return self.of(t.x)
        if o in ("cmp", "bool"):
            for c in children(t):
                self.of(c)
            return "P"  # comparisons of boxes go through notrace primitives; truth values are plain
        if o == "attr":
            v = self.of(t.obj)
            return "P" if t.name in PLAIN_ATTRS else v
        if o == "sub":
            self.of(t.idx)
            if t.idx.op == "const" and isinstance(t.idx.value, int):
                pr = project(self.ev, t.obj, t.idx.value)
                if pr is not None:
                    return self.of(pr)
            return self.of(t.obj)
        if o in ("tuple", "list", "set"):
            return self.j([self.of(e) for e in t.elts])
        if o == "dict":
            return self.j([self.of(v) for _, v in t.items])
        if o in ("star", "dstar"):
            return self.of(t.x)
        if o == "iterelem":
            return self.of(t.src)
        if o == "comp":
            for c in t.conds:
                self.of(c)
            self.of(t.src)
            return self.of(t.elt)
        if o == "grow":
            return self.j([self.of(t.obj), self.of(t.val)])
        if o == "store":
            self.of(t.idx)
            return self.j([self.of(t.obj), self.of(t.val)])
        if o == "if":
            self.of(t.cond)
            return self.j([self.of(t.then), self.of(t.other)])
        if o == "seq":
            for e in t.effects:
                self.of(e)
            return self.of(t.value)
        if o in ("assert",):
            self.of(t.cond)
            return "P"
        if o == "when":
            self.of(t.cond)
            self.of(t.eff)
            return "P"
        if o == "raise":
            return "P"
        if o == "loop":
            a = self.of(t.init)
            if t.get("it") is not None:
                self.of(t.it)
            return self.j([a, self.of(t.next)])
        if o == "loopvar":
            return self.of(t.init) if t.init is not None else "P"
        if o == "partial":
            return self.j([self.of(a) for a in t.args])
        if o == "call":
            return self._call(t)
        return "P"

    def _call(self, t):
        vals = [self.of(a) for a in t.args]
        kvals = {k: self.of(v) for k, v in t.kw.items()}
        dvals = [self.of(v) for v in t.get("dstar", [])]
        anyb = "B" in vals or "B" in kvals.values()
        fn = t.fn
        if fn.op == "attr":
            ov = self.of(fn.obj)
            if fn.obj.op == "call":
                r0, _ = resolve_callee(self.ev, fn.obj)
                if r0 is not None and r0.qual.endswith(".vspace"):
                    return "P" if fn.name in ("zeros", "ones", "randn", "standard_basis") else self.j(vals)
            if fn.name in ("get", "index", "count", "keys", "split", "join", "format"):
                return ov if fn.name == "get" else "P"
            return self.j([ov] + vals)
        ref, pre = resolve_callee(self.ev, t)
        prevals = [self.of(a) for a in pre]
        anyb = anyb or "B" in prevals
        if ref is not None:
            q = ref.qual
            if ref.kind == "ext" and (q.startswith("numpy.") or q.startswith("scipy.")):
                self.raw_sites += 1
                if anyb:
                    which = [i for i, v in enumerate(prevals + vals) if v == "B"] + [k for k, v in kvals.items() if v == "B"]
                    self.sinks.append((q, which, t))
                return "P"
            if ref.kind == "wrapped":
                if ref.how == "notrace":
                    return "P"
                ok, _ = locally_constant(self.world, ref)
                if ok and ref.qual in self.world.table.notrace_quals("autograd.core.VJPNode") and ref.qual in self.world.table.notrace_quals("autograd.core.JVPNode"):
                    return "P"
                return "B" if anyb else "P"
            if q.startswith("builtins."):
                b = q[9:]
                if b in PLAIN_BUILTINS:
                    return "P"
                return "B" if anyb else "P"
            if ref.kind in ("repo", "classattr"):
                if self.world.repo.is_notrace_ref(ref):
                    return "P"
                if q == "autograd.tracer.getval":
                    return "P"  # the tracer's own unboxing function: strips every level (decided by A13.unbox, getval clause)
                if q.endswith(".vspace"):
                    return "P"
                if self.world.repo.is_primitive_ref(ref):
                    # a function handed to a primitive is opaque to the tracer: whatever traced values it captured from
                    # the rule's scope no longer contribute to the derivative of the primitive's result
                    for a in list(t.args) + list(t.kw.values()):
                        clo, pre, prekw = self.ev.as_closure(a) if a.op in ("closure", "partial") else (None, None, None)
                        if clo is None or not isinstance(clo.fnode, (ast.FunctionDef, ast.Lambda)):
                            continue
                        fa = clo.fnode.args
                        k = len(fa.posonlyargs + fa.args) - len(pre or [])
                        plain = [T("sym", name=f"p{i}", role="plain") for i in range(max(k, 0))]
                        try:
                            res = self.ev.apply(clo, list(pre or []) + plain, dict(prekw or {}), [])
                        except Exception:
                            res = None
                        if res is not None and (any(self.of(x) == "B" for x in (pre or [])) or self._deep(res) == "B"):
                            self.sinks.append((q + " (closure argument capturing traced values)", ["closure"], t))
                            break
                    return "B" if anyb else "P"
        r = self.ev.inline(t)
        if r is not None:
            return self.of(r)
        if fn.op in ("sub", "call", "if", "iterelem") and self.of(fn) == "B":
            return "B"  # the callee itself was computed from traced values (vjp_x = make_vjp(f(a))(ans)[0]; vjp_x(g))
        return "B" if anyb or "B" in dvals else "P"


def traceable(ctx, world):
    ctx.describe("A8", "inside non-primitive rule bodies (construction time and backward time) no raw numpy/scipy call receives an operand that may be an autograd Box (g, ans, a differentiable argument, or anything computed from them by traced operations)")
    n = 0
    raw = 0
    for e in world.table.entries:
        if e.spec != "maker" or not (world.in_numpy_scope(e) or e.mod.name.startswith("autograd.misc")):
            continue
        ir = world.ir(e)
        if ir is None or not ir.ok:
            ctx.ob("A8", construct_of(e), None, e.loc)
            continue
        n += 1
        generic = e.argnum is None
        box_args = set(diff_argnums(world, e.prim_id))
        if isinstance(e.argnum, int):
            box_args.add(e.argnum)
        Tn = Taint(world, box_args, all_args_box=generic)
        if ir.made is not None:
            Tn.of(ir.made)
        Tn.of(ir.result)
        raw += Tn.raw_sites
        inst = construct_of(e)
        if not Tn.sinks:
            ctx.ob("A8", inst, True, e.loc, nontrivial=Tn.raw_sites > 0, sample=f"{Tn.raw_sites} raw numpy call(s), all with plain operands" if Tn.raw_sites else None)
            continue
        seen = set()
        for q, which, t in Tn.sinks:
            txt = norm_text(t.node) if t.node is not None else q
            if txt in seen:
                continue
            seen.add(txt)
            ctx.fail(
                "A8",
                inst + "|" + txt[:80],
                f"{e.mode}:{e.prim_id}|raw:{txt[:120]}",
                f"{t.mod.relpath if t.mod else e.mod.relpath}:{t.line}",
                f"raw call {q} receives a possibly traced operand (positions/keywords {which}) inside a rule body: `{txt[:100]}`",
                "differentiate the derivative again (grad of grad / jvp of grad) through this primitive: the raw call receives an ArrayBox",
            )
    ctx.floor("A8 rule bodies analysed", n, 250)
    ctx.floor("A8 raw numpy call sites seen inside rule bodies", raw, 10)
    ctx.extra["A8_raw_call_sites"] = raw
