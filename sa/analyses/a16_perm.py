"""A16 - axis-permutation algebra.  Finite abstract evaluation (like A4's exhaustive kind assignment): arrays are
abstracted to the *permutation of their axes* relative to the argument, NumPy's axis functions (swapaxes,
moveaxis, rollaxis, transpose, argsort on small integer tuples) are modelled exactly on that domain, and a rule's
term is evaluated for EVERY rank 1..4 and every valid (also negative) axis configuration.  Decided clause: the VJP
of an axis-permuting primitive applies the inverse permutation (the cotangent comes back in the argument's axis
order); for linalg.norm's nuclear branch, unroll(roll(x)) is the identity layout and roll puts the two matrix axes
last.  No autograd code is executed; only the model of NumPy's axis functions is."""
import ast
import itertools

from ..model import norm_text
from ..ruleir import leaves
from ..terms import T
from .common import base_name, construct_of, is_numpy_callable, project, resolve_callee


class Unknown(Exception):
    pass


class Raises(Exception):
    pass


class Perm:
    __slots__ = ("axes",)

    def __init__(self, axes):
        self.axes = tuple(axes)

    @property
    def ndim(self):
        return len(self.axes)

    def __eq__(self, o):
        return isinstance(o, Perm) and self.axes == o.axes

    def __repr__(self):
        return f"Perm{self.axes}"


def norm_axis(a, n):
    if not isinstance(a, int) or isinstance(a, bool):
        raise Unknown("axis not int")
    if not -n <= a < n:
        raise Raises("axis out of range")
    return a % n


def np_swapaxes(p, i, j):
    n = p.ndim
    i, j = norm_axis(i, n), norm_axis(j, n)
    ax = list(p.axes)
    ax[i], ax[j] = ax[j], ax[i]
    return Perm(ax)


def np_moveaxis(p, src, dst):
    n = p.ndim
    src = [src] if isinstance(src, int) else list(src)
    dst = [dst] if isinstance(dst, int) else list(dst)
    if len(src) != len(dst):
        raise Raises("moveaxis length mismatch")
    src = [norm_axis(s, n) for s in src]
    dst = [norm_axis(d, n) for d in dst]
    if len(set(src)) != len(src) or len(set(dst)) != len(dst):
        raise Raises("repeated axis")
    order = [k for k in range(n) if k not in src]
    for d, s in sorted(zip(dst, src)):
        order.insert(d, s)
    return Perm([p.axes[k] for k in order])


def np_rollaxis(p, axis, start=0):
    n = p.ndim
    axis = norm_axis(axis, n)
    if not isinstance(start, int):
        raise Unknown("start")
    if start < 0:
        start += n
    if not 0 <= start < n + 1:
        raise Raises("start out of range")
    if axis < start:
        start -= 1
    if axis == start:
        return p
    axes = list(range(n))
    axes.remove(axis)
    axes.insert(start, axis)
    return Perm([p.axes[k] for k in axes])


def np_transpose(p, axes=None):
    n = p.ndim
    if axes is None:
        return Perm(p.axes[::-1])
    axes = [norm_axis(int(a), n) for a in axes]
    if sorted(axes) != list(range(n)):
        raise Raises("axes don't match array")
    return Perm([p.axes[k] for k in axes])


class CEval:
    """concrete evaluation of a term over ints / tuples / None / Perm"""

    def __init__(self, world, env, g=None, ans=None):
        self.world, self.ev = world, world.ev
        self.env = env  # arg index -> value ; also names
        self.g, self.ans = g, ans
        self.bind = {}
        self.depth = 0

    def of(self, t):
        self.depth += 1
        if self.depth > 4000:
            raise Unknown("too deep")
        if t is None:
            return None
        if id(t) in self.bind:
            return self.bind[id(t)]
        o = t.op
        if o == "const":
            return t.value
        if o == "ref":
            # a module-level constant (tuple of option values hoisted out of a rule): evaluate its literal
            r_ = t.ref
            if getattr(r_, "kind", None) == "repo" and getattr(r_, "okind", None) == "assign" and isinstance(r_.node, (ast.Tuple, ast.List, ast.Set, ast.Constant)):
                try:
                    return ast.literal_eval(r_.node)
                except Exception:
                    return t
            return t
        if o in ("closure", "partial"):
            return t
        if o == "sym":
            role = t.get("role")
            if role == "g":
                if self.g is None:
                    raise Unknown("g")
                return self.g
            if role == "ans":
                if self.ans is None:
                    raise Unknown("ans")
                return self.ans
            raise Unknown(f"sym {t.name}")
        if o == "arg":
            if isinstance(t.index, int) and t.index in self.env:
                return self.env[t.index]
            if t.get("name") in self.env:
                return self.env[t.name]
            if t.get("default") is not None:
                return self.of(t.default)
            raise Unknown(f"arg {t.index}")
        if o == "bin":
            a, b = self.of(t.l), self.of(t.r)
            if isinstance(a, (tuple, list)) and isinstance(b, (tuple, list)) and t.opname == "Add":
                return tuple(a) + tuple(b)
            if not all(isinstance(x, int) and not isinstance(x, bool) for x in (a, b)):
                raise Unknown("non-int arithmetic")
            return {"Add": a + b, "Sub": a - b, "Mult": a * b, "Mod": a % b if b else 0, "FloorDiv": a // b if b else 0}.get(t.opname) if t.opname in ("Add", "Sub", "Mult", "Mod", "FloorDiv") else self._unk("op")
        if o == "un":
            a = self.of(t.x)
            if t.opname == "USub" and isinstance(a, int):
                return -a
            if t.opname == "Not":
                return not a
            raise Unknown("unary")
        if o == "cmp":
            a, b = self.of(t.l), self.of(t.r)
            op = t.opname
            if op == "Is":
                return a is b
            if op == "IsNot":
                return a is not b
            if op in ("In", "NotIn"):
                if not isinstance(b, (tuple, list, set, frozenset, dict, str)):
                    raise Unknown("membership in a non-literal container")
                try:
                    return (a in b) if op == "In" else (a not in b)
                except TypeError:
                    raise Unknown("membership test on unhashable")
            if isinstance(a, Perm) or isinstance(b, Perm):
                raise Unknown("cmp perm")
            try:
                return {"Eq": a == b, "NotEq": a != b, "Lt": a < b, "LtE": a <= b, "Gt": a > b, "GtE": a >= b}[op]
            except TypeError:
                raise Raises("comparison TypeError")
        if o == "bool":
            if t.opname == "and":
                v = True
                for x in t.vals:
                    v = self.of(x)
                    if not v:
                        return v
                return v
            v = False
            for x in t.vals:
                v = self.of(x)
                if v:
                    return v
            return v
        if o == "if":
            c = self.of(t.cond)
            if isinstance(c, Perm):
                raise Unknown("truth of array")
            return self.of(t.then if c else t.other)
        if o == "seq":
            for e in t.effects:
                self.effect(e)
            return self.of(t.value)
        if o == "raise":
            raise Raises("rule raises")
        if o in ("tuple", "list"):
            return tuple(self.of(e) for e in t.elts)
        if o == "sub":
            if t.idx.op == "const" and isinstance(t.idx.value, int):
                pr = project(self.ev, t.obj, t.idx.value)
                if pr is not None:
                    return self.of(pr)
            obj = self.of(t.obj)
            idx = self.of(t.idx)
            if isinstance(obj, (tuple, list)) and isinstance(idx, int):
                try:
                    return obj[idx]
                except IndexError:
                    raise Raises("index")
            raise Unknown("subscript")
        if o == "attr":
            if t.name == "ndim":
                v = self.of(t.obj)
                if isinstance(v, Perm):
                    return v.ndim
            if t.name == "T":
                v = self.of(t.obj)
                if isinstance(v, Perm):
                    return np_transpose(v)
            raise Unknown(f"attr {t.name}")
        if o == "comp":
            src = self.of(t.src)
            if not isinstance(src, (tuple, list, range)):
                raise Unknown("comp source")
            out = []
            it = self._iter_term(t)
            for x in src:
                if it is not None:
                    self.bind[id(it)] = x
                if all(self.of(c) for c in t.conds):
                    out.append(self.of(t.elt))
            if it is not None:
                self.bind.pop(id(it), None)
            return tuple(out)
        if o == "iterelem":
            raise Unknown("unbound iteration variable")
        if o == "call":
            return self.call(t)
        raise Unknown(o)

    def _unk(self, why):
        raise Unknown(why)

    def _iter_term(self, comp):
        from ..terms import walk

        for x in walk(comp.elt):
            if x.op == "iterelem" and x.src is comp.src:
                return x
        for c in comp.conds:
            for x in walk(c):
                if x.op == "iterelem" and x.src is comp.src:
                    return x
        return None

    def effect(self, e):
        if e.op == "when":
            c = self.of(e.cond)
            if bool(c) == bool(e.pol):
                self.effect(e.eff)
        elif e.op == "raise":
            raise Raises("guard")
        elif e.op == "assert":
            if not self.of(e.cond):
                raise Raises("assert")
        elif e.op == "call":
            try:
                self.of(e)
            except Unknown:
                pass

    def call(self, t):
        fn = t.fn
        if fn.op == "attr":
            obj = self.of(fn.obj)
            args = [self.of(a) for a in t.args]
            if isinstance(obj, Perm):
                if fn.name == "swapaxes":
                    return np_swapaxes(obj, *args)
                if fn.name == "transpose":
                    return np_transpose(obj, args[0] if len(args) == 1 and not isinstance(args[0], int) else (args or None))
                if fn.name in ("conj", "conjugate", "copy"):
                    return obj
            raise Unknown(f"method {fn.name}")
        ref, pre = resolve_callee(self.ev, t)
        if ref is not None and (is_numpy_callable(ref) or ref.qual.startswith("builtins.")):
            args = [self.of(a) for a in list(pre) + list(t.args)]
            kw = {k: self.of(v) for k, v in t.kw.items()}
            q = ref.qual
            bn = base_name(ref) if is_numpy_callable(ref) else q[9:]
            if bn == "swapaxes":
                return np_swapaxes(args[0], *(args[1:] + [kw[k] for k in ("axis1", "axis2") if k in kw]))
            if bn == "moveaxis":
                return np_moveaxis(args[0], kw.get("source", args[1] if len(args) > 1 else None), kw.get("destination", args[2] if len(args) > 2 else None))
            if bn == "rollaxis":
                return np_rollaxis(args[0], kw.get("axis", args[1] if len(args) > 1 else None), kw.get("start", args[2] if len(args) > 2 else 0))
            if bn == "transpose":
                return np_transpose(args[0], kw.get("axes", args[1] if len(args) > 1 else None))
            if bn == "ndim":
                if isinstance(args[0], Perm):
                    return args[0].ndim
                raise Unknown("ndim")
            if bn == "argsort":
                a = args[0]
                if isinstance(a, (tuple, list)) and all(isinstance(x, int) for x in a):
                    return tuple(sorted(range(len(a)), key=lambda i: a[i]))
                raise Unknown("argsort")
            if bn in ("conj", "conjugate", "real", "negative", "copy", "asarray"):
                return args[0]
            if bn == "len":
                if isinstance(args[0], (tuple, list)):
                    return len(args[0])
                raise Unknown("len")
            if bn in ("tuple", "list"):
                return tuple(args[0]) if args else ()
            if bn == "sorted":
                return tuple(sorted(args[0]))
            if bn == "range":
                return tuple(range(*args))
            if bn == "isinstance":
                v, ty = args[0], t.args[1]
                tyq = ty.ref.qual if ty.op == "ref" else None
                if tyq == "builtins.tuple":
                    return isinstance(v, tuple)
                if tyq == "builtins.int":
                    return isinstance(v, int) and not isinstance(v, bool)
                if tyq == "builtins.list":
                    return False
                raise Unknown("isinstance")
            if bn in ("max", "min"):
                return (max if bn == "max" else min)(*args)
            raise Unknown(f"call {bn}")
        if ref is not None and ref.qual.endswith(".make_diagonal"):
            # autograd's complement of np.diagonal: a new trailing axis pair holding the last axis on its diagonal;
            # it raises for anything but offset=0, axis1=-1, axis2=-2 (its own guard, evaluated here)
            args = [self.of(a) for a in list(pre) + list(t.args)]
            kw = {k: self.of(v) for k, v in t.kw.items()}
            off = kw.get("offset", args[1] if len(args) > 1 else 0)
            a1 = kw.get("axis1", args[2] if len(args) > 2 else 0)
            a2 = kw.get("axis2", args[3] if len(args) > 3 else 1)
            if not (off == 0 and a1 == -1 and a2 == -2):
                raise Raises("make_diagonal guard")
            if not isinstance(args[0], Perm) or args[0].ndim < 1:
                raise Unknown("make_diagonal operand")
            return Perm(list(args[0].axes) + [args[0].axes[-1]])
        if ref is not None and ref.qual == "autograd.builtins.isinstance":
            v = self.of(t.args[0])
            ty = t.args[1]
            tyq = ty.ref.qual if ty.op == "ref" else None
            return isinstance(v, tuple) if tyq == "builtins.tuple" else (isinstance(v, int) if tyq == "builtins.int" else self._unk("isinstance"))
        r = self.ev.inline(t)
        if r is not None:
            return self.of(r)
        raise Unknown("call")


def np_diagonal_layout(p, offset, axis1, axis2):
    """labels of diagonal(x): the two diagonal axes removed, one axis carrying the diagonal appended"""
    n = p.ndim
    a1, a2 = norm_axis(axis1, n), norm_axis(axis2, n)
    if a1 == a2:
        raise Raises("axis1 and axis2 cannot be the same")
    return Perm([x for i, x in enumerate(p.axes) if i not in (a1, a2)] + ["D"])


def diagonal_expected(n, axis1, axis2):
    a1, a2 = axis1 % n, axis2 % n
    return Perm(["D" if i in (a1, a2) else i for i in range(n)])


PERM_PRIMS = {
    "swapaxes": lambda p, a: np_swapaxes(p, a[1], a[2]),
    "moveaxis": lambda p, a: np_moveaxis(p, a[1], a[2]),
    "rollaxis": lambda p, a: np_rollaxis(p, a[1], a.get(2, 0)),
    "transpose": lambda p, a: np_transpose(p, a.get(1)),
    "diagonal": lambda p, a: np_diagonal_layout(p, a.get(1, a.get("offset", 0)), a.get(2, a.get("axis1", 0)), a.get(3, a.get("axis2", 1))),
}


def configs(bn, n):
    ax = list(range(-n, n))
    if bn == "swapaxes":
        for i, j in itertools.product(ax, ax):
            yield {1: i, 2: j}
    elif bn == "moveaxis":
        for i, j in itertools.product(ax, ax):
            yield {1: i, 2: j}
        if n >= 2:
            for s in itertools.permutations(range(n), 2):
                for d in itertools.permutations(range(n), 2):
                    yield {1: s, 2: d}
                    yield {1: tuple(x - n for x in s), 2: d}
    elif bn == "rollaxis":
        for i in ax:
            for s in range(-n, n + 1):
                yield {1: i, 2: s}
    elif bn == "diagonal":
        if n >= 2:
            yield {}
            for i, j in itertools.product(ax, ax):
                if i % n != j % n:
                    yield {1: 0, 2: i, 3: j}
                    yield {"offset": 0, "axis1": i, "axis2": j}
    elif bn == "transpose":
        yield {}
        for p in itertools.permutations(range(n)):
            yield {1: p}
            yield {1: tuple(x - n if k % 2 else x for k, x in enumerate(p))}
            yield {1: list(p)}


def permutations_rule(ctx, world):
    ctx.describe("A16", "for every axis-permuting primitive (swapaxes, moveaxis, rollaxis, transpose; diagonal with the diagonal axis as a label) and EVERY rank 1..4 and every axis configuration NumPy accepts (negative axes, tuples), the VJP rule - evaluated on the finite domain of axis permutations with an exact model of NumPy's axis functions - returns the cotangent in the argument's axis order, or raises")
    n_inst = 0
    for e in world.table.entries:
        if e.mode != "vjp" or e.spec != "maker" or not is_numpy_callable(e.prim) or e.argnum != 0:
            continue
        bn = base_name(e.prim)
        if bn not in PERM_PRIMS:
            continue
        ir = world.ir(e)
        if ir is None or not ir.ok:
            ctx.ob("A16", construct_of(e), None, e.loc)
            continue
        n_inst += 1
        total = decided = raised = 0
        bad = None
        unknown = 0
        for n in (1, 2, 3, 4):
            ident = Perm(range(n))
            for cfg in configs(bn, n):
                total += 1
                try:
                    gperm = PERM_PRIMS[bn](ident, {0: ident, **cfg})
                except Raises:
                    continue  # NumPy itself rejects the configuration
                except Exception:
                    continue
                env = {0: ident, **cfg}
                want = ident
                if bn == "diagonal":
                    want = diagonal_expected(n, cfg.get(2, cfg.get("axis1", 0)), cfg.get(3, cfg.get("axis2", 1)))
                try:
                    C = CEval(world, env, g=gperm, ans=gperm)
                    out = C.of(ir.made)  # construction-time guards
                    C2 = CEval(world, env, g=gperm, ans=gperm)
                    res = C2.of(ir.result)
                except Raises:
                    raised += 1
                    decided += 1
                    continue
                except Unknown:
                    unknown += 1
                    continue
                decided += 1
                if res != want and bad is None:
                    bad = (n, cfg, res, want)
        inst = construct_of(e)
        ctx.extra["A16_configurations_evaluated"] = ctx.extra.get("A16_configurations_evaluated", 0) + total
        if bad is not None:
            n, cfg, res, want = bad
            ctx.fail(
                "A16",
                inst,
                inst,
                e.loc,
                f"for a rank-{n} argument and {bn} configuration {cfg} the rule returns the cotangent with axes {res.axes if isinstance(res, Perm) else res} instead of {want.axes}: it does not apply the inverse permutation",
                f"np.{bn} of a rank-{n} array with {cfg}",
                sample=f"{decided}/{total} configurations decided",
            )
        elif decided == 0:
            ctx.ob("A16", inst, None, e.loc, sample=f"0/{total} decided ({unknown} outside the model)")
        else:
            ctx.ob("A16", inst, True, e.loc, sample=f"{decided}/{total} configurations decided ({raised} raise loudly, {unknown} outside the model), all give the identity layout")
    ctx.floor("A16 permutation rules", n_inst, 4)


def norm_rolls(ctx, world):
    ctx.describe("A16.norm", "linalg.norm, nuclear branch (VJP and JVP): for every rank 2..4 and every pair of distinct (also negative) matrix axes, roll() moves (row_axis, col_axis) to the last two positions in that order and unroll(roll(x)) has the layout of x - evaluated on the permutation domain")
    n_inst = 0
    for e in world.table.entries:
        if not is_numpy_callable(e.prim) or base_name(e.prim) != "linalg.norm" or e.spec != "maker":
            continue
        ir = world.ir(e)
        if ir is None or ir.maker is None:
            continue
        # find the terms  roll(x)  and  unroll(<something with roll(x)'s layout>)  in the nuclear branch
        from ..terms import walk
        from .common import deep_terms

        n_inst += 1
        inst = construct_of(e)
        bad = None
        decided = total = 0
        for n in (2, 3, 4):
            ident = Perm(range(n))
            for r, c in itertools.permutations(range(-n, n), 2):
                if r % n == c % n:
                    continue
                total += 1
                env = {0: ident, 1: "nuc", 2: (r, c), "ord": "nuc", "axis": (r, c)}
                try:
                    C = NormEval(world, env, g=Perm(()), ans=Perm(()))
                    if e.mode == "vjp":
                        C.of(ir.made)
                    res = C.of(ir.result)
                except Raises:
                    decided += 1
                    continue
                except Unknown as u:
                    continue
                decided += 1
                if C.rolled is not None:
                    want = tuple(k for k in range(n) if k not in (r % n, c % n)) + (r % n, c % n)
                    if C.rolled.axes != want and bad is None:
                        bad = (n, (r, c), f"roll(x) has axes {C.rolled.axes}, expected {want} (matrix axes last, row before column)")
                if C.unrolled is not None and C.unrolled != ident and bad is None:
                    bad = (n, (r, c), f"unroll(roll(x)) has axes {C.unrolled.axes}, expected {tuple(range(n))}")
        ctx.extra["A16_norm_axis_pairs_evaluated"] = ctx.extra.get("A16_norm_axis_pairs_evaluated", 0) + total
        if bad:
            n, cfg, why = bad
            ctx.fail("A16.norm", inst, inst + "|nuc-layout", e.loc, f"rank {n}, axis={cfg}: {why}", f"np.linalg.norm(x, 'nuc', axis={cfg}) on a rank-{n} array", sample=f"{decided}/{total}")
        elif decided == 0:
            ctx.ob("A16.norm", inst, None, e.loc, sample=f"0/{total} decided")
        else:
            ctx.ob("A16.norm", inst, True, e.loc, sample=f"{decided}/{total} axis pairs decided")
    ctx.floor("A16.norm rules", n_inst, 2)


def norm_support(ctx, world):
    """A6.support - the closed forms implemented for linalg.norm are valid only for a finite set of
    (vector/matrix, ord) configurations; every other configuration NumPy accepts must be rejected by the rule.
    The maker is evaluated on the finite domain rank in 1..3 x axis in {None, int, pair} x ord in a representative
    set, with arrays abstracted to their rank; `Raises` means rejected."""
    from .. import facts

    ctx.describe("A6.support", "linalg.norm (VJP and JVP): for every rank 1..3, axis in {None, an int, a pair} and ord in {None,'fro','nuc',2,1,3,0.5,0,-1,-2,inf}, a configuration outside the supported set (matrix norm: ord in {None,'fro','nuc'}; vector norm: ord None or ord > 1) makes the rule raise - decided by evaluating the maker's guard on the finite domain (arrays abstracted to their rank)")
    sup = facts.load("norm_support")
    matrix_ords = [None if v is None else v for v in sup["matrix_ords"]]
    ords = [None, "fro", "nuc", 2, 1, 3, 0.5, 0, -1, -2, float("inf")]
    n_inst = 0
    for e in world.table.entries:
        if not is_numpy_callable(e.prim) or base_name(e.prim) != "linalg.norm" or e.spec != "maker":
            continue
        ir = world.ir(e)
        if ir is None or ir.maker is None:
            continue
        n_inst += 1
        inst = construct_of(e)
        bad = None
        decided = total = 0
        for n in (1, 2, 3):
            ident = Perm(range(n))
            axes = [None] + list(range(n)) + [(-2, -1), (0, 1)][: (2 if n >= 2 else 0)]
            for axis in axes:
                matrix = (n == 2 and axis is None) or isinstance(axis, tuple)
                for od in ords:
                    # only configurations NumPy itself accepts (the primal is computed first and raises otherwise)
                    if matrix and not (od in (None, "fro", "nuc") or od in (1, -1, 2, -2, float("inf"))):
                        continue
                    if not matrix and isinstance(od, str):
                        continue
                    total += 1
                    if matrix:
                        supported = od in matrix_ords
                    else:
                        supported = od is None or (isinstance(od, (int, float)) and od > sup["vector_min_exclusive"])
                    env = {0: ident, 1: od, 2: axis, "ord": od, "axis": axis}
                    rejected = None
                    try:
                        C = NormEval(world, env, g=Perm(()), ans=Perm(()))
                        C.of(ir.made)
                        if e.mode == "vjp":
                            pass
                        rejected = False
                    except Raises:
                        rejected = True
                    except Unknown:
                        rejected = None
                    if rejected is None:
                        # evaluation left the finite domain after the construction-time guards: not rejected there
                        rejected = False
                    decided += 1
                    if not supported and not rejected and bad is None:
                        bad = (n, axis, od)
        if bad:
            n, axis, od = bad
            kind = "matrix" if ((n == 2 and axis is None) or isinstance(axis, tuple)) else "vector"
            ctx.fail("A6.support", inst, inst + "|unsupported-accepted", e.loc, f"np.linalg.norm(x, ord={od!r}, axis={axis!r}) on a rank-{n} array is a {kind} norm whose derivative is not implemented, but the rule no longer raises for it: one of the closed forms written for another norm is applied", f"ord={od!r}, axis={axis!r}, rank {n}", sample=f"{decided}/{total}")
        else:
            ctx.ob("A6.support", inst, True, e.loc, sample=f"{total} (rank, axis, ord) configurations evaluated")
        ctx.extra["A6_support_configs"] = ctx.extra.get("A6_support_configs", 0) + total
    ctx.floor("A6.support norm rules", n_inst, 2)


class NormEval(CEval):
    """CEval specialised to norm's nuclear branch: svd / _dot keep the layout of their (rolled) operand; the
    elementwise product with g and reductions are layout-transparent here."""

    def __init__(self, *a, **k):
        super().__init__(*a, **k)
        self.rolled = None
        self.unrolled = None

    def of(self, t):
        if t is not None and t.op == "bin":
            # g * uvt / contract(g * uvt): evaluate both sides for their layout effects, layout of the array side
            vals = []
            for side in (t.l, t.r):
                try:
                    vals.append(super().of(side))
                except Unknown:
                    vals.append(None)
            ps = [v for v in vals if isinstance(v, Perm) and v.ndim > 0]
            if ps:
                return ps[-1]
            if all(isinstance(v, int) for v in vals if v is not None) and None not in vals:
                return super().of(t)
            raise Unknown("bin")
        return super().of(t)

    def call(self, t):
        ref, pre = resolve_callee(self.ev, t)
        if ref is not None and is_numpy_callable(ref):
            bn = base_name(ref)
            if bn == "linalg.svd":
                x = self.of(t.args[0])
                if isinstance(x, Perm):
                    self.rolled = x
                    return (x, Perm(()), x)
            if bn == "einsum":
                args = [self.of(a) for a in list(pre) + list(t.args)]
                ps = [a for a in args if isinstance(a, Perm)]
                if ps:
                    return ps[0]
            if bn in ("sum", "real", "conj", "abs", "expand_dims"):
                v = self.of(t.args[0]) if t.args else None
                if isinstance(v, Perm):
                    if bn in ("sum", "expand_dims"):
                        return Perm(())
                    return v
        if t.fn.op in ("closure", "if", "partial") or (t.fn.op == "ref" and t.fn.ref.kind == "repo"):
            # calls of the local roll / unroll lambdas
            r = self.ev.inline(t)
            if r is not None:
                v = self.of(r)
                name = norm_text(t.node.func) if t.node is not None and hasattr(t.node, "func") else ""
                if name == "unroll" and isinstance(v, Perm):
                    self.unrolled = v
                return v
        return super().call(t)
