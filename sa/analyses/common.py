"""Helpers shared by the analyses."""
import ast

from .. import facts
from ..model import norm_text
from ..terms import children, walk


def base_name(ref):
    """NumPy-relative name of a wrapped / external numpy callable: 'sum', 'linalg.norm', 'fft.fft' -> 'fft'."""
    q = ref.qual
    for pre, keep in (("numpy.linalg.", "linalg."), ("numpy.fft.", ""), ("numpy.random.", "random."), ("numpy.", "")):
        if q.startswith(pre):
            return keep + q[len(pre) :]
    return None


def is_numpy_callable(ref):
    return ref is not None and ref.kind in ("wrapped", "ext") and ref.qual.startswith("numpy.")


def locally_constant(world, ref):
    """Is the callable piecewise constant in all its float array arguments?  (facts about NumPy)"""
    lc = facts.load("locally_constant")
    if ref is None:
        return False, "unresolved"
    if is_numpy_callable(ref):
        bn = base_name(ref)
        ns, _, name = ref.qual.rpartition(".")
        uf = world.env.ufunc(ns, name)
        if uf is not None and world.env.ufunc_is_int_or_bool_valued(uf):
            return True, "bool/int-valued ufunc (loop signatures)"
        if bn in lc["functions"]:
            return True, lc["functions"][bn]
        # identity with a listed function (aliases such as round_/around)
        obj = world.env.get(ns, name)
        if obj is not None:
            for other in lc["functions"]:
                if "." not in other and world.env.get("numpy", other) is obj:
                    return True, f"same object as numpy.{other}"
        return False, f"numpy.{bn} is not in the locally-constant facts"
    if ref.kind in ("repo", "classattr"):
        # repo-defined notrace helpers (metadata, parse_einsum_input, isinstance, type): structure queries
        if world.repo.is_notrace_ref(ref):
            return True, "notrace_primitive wrapper defined in the repo"
        if ref.kind == "repo" and ref.okind == "assign" and isinstance(ref.node, ast.Call):
            f = world.repo.resolve_expr(ref.mod, ref.node.func)
            if f is not None and f.qual in ("autograd.tracer.notrace_primitive", "autograd.extend.notrace_primitive"):
                return True, "notrace_primitive wrapper"
    return False, f"{ref.qual} not known to be locally constant"


def locally_constant_arg(world, ref, argnum):
    lc = facts.load("locally_constant")
    ok, why = locally_constant(world, ref)
    if ok:
        return True, why
    if is_numpy_callable(ref):
        bn = base_name(ref)
        r = lc["per_argument"].get(bn, {}).get(str(argnum))
        if r:
            return True, r
    r = lc["repo_per_argument"].get(ref.qual, {})
    if isinstance(r, dict) and str(argnum) in r:
        return True, r[str(argnum)]
    return False, f"argument {argnum} of {ref.qual} is not in the locally-constant-argument facts"


def linear_in(world, ref, argnum):
    """Is the callable real-linear in argument `argnum` (None = every array argument separately)?"""
    lin = facts.load("linear_in")
    if ref is None:
        return None, "unresolved"
    if is_numpy_callable(ref):
        bn = base_name(ref)
        if bn in lin["all"]:
            return True, lin["all"][bn]
        if argnum == 0 and bn in lin["arg0"]:
            return True, lin["arg0"][bn]
        if argnum is not None and str(argnum) in lin["other"].get(bn, {}):
            return True, lin["other"][bn][str(argnum)]
        if bn in lin["non_members"]:
            return False, lin["non_members"][bn]
        if argnum is None and bn in lin["arg0"]:
            sig = world.env.signature(ref.qual)
            return False, f"{bn} is linear in argument 0 only"
        return False, f"({bn}, {argnum}) is not in the linear_in facts"
    r = lin["repo"].get(ref.qual)
    if isinstance(r, dict):
        if argnum is None:
            return True, "; ".join(f"{k}: {v}" for k, v in r.items())
        if str(argnum) in r:
            return True, r[str(argnum)]
        return False, f"{ref.qual} is linear in arguments {sorted(r)} only"
    return None, f"{ref.qual} not in facts"


def prim_positional_arity(world, ref):
    """(min positional, max positional or None for *args) of a primitive, from NumPy metadata or the repo def."""
    if ref.kind == "wrapped" or ref.kind == "ext":
        ns, _, name = ref.qual.rpartition(".")
        uf = world.env.ufunc(ns, name)
        if uf is not None:
            return uf.nin, uf.nin
        sig = world.env.signature(ref.qual)
        if sig is None:
            return None
        return len(sig["pos"]) - sum(1 for p in sig["pos"] if p in sig["defaults"]), (None if sig["varargs"] else len(sig["pos"]))
    node = ref.node
    if isinstance(node, (ast.FunctionDef, ast.Lambda)):
        a = node.args
        n = len(a.posonlyargs) + len(a.args)
        return n - len(a.defaults), (None if a.vararg else n)
    return None


def deep_terms(ev, t, limit=4000):
    """All sub-terms of t, following on-demand inlining of non-primitive repo helpers."""
    seen = set()
    stack = [t]
    n = 0
    while stack and n < limit:
        x = stack.pop()
        if x is None or id(x) in seen:
            continue
        seen.add(id(x))
        n += 1
        yield x
        stack.extend(children(x))
        if x.op == "call":
            r = ev.inline(x)
            if r is not None:
                stack.append(r)
        elif x.op in ("closure",):
            pass


def loc_of(mod, node):
    return f"{mod.relpath}:{getattr(node, 'lineno', '?')}"


def resolve_callee(ev, t):
    """(Ref, pre-bound positional terms) of a call term's callee, looking through functools.partial values
    and module-level `X = partial(f, ...)` assignments.  (None, []) if unresolved."""
    fn = t.fn
    pre = []
    for _ in range(6):
        if fn.op == "partial":
            pre = list(fn.args) + pre
            fn = fn.fn
            continue
        if fn.op == "ref":
            r = fn.ref
            if r.kind == "repo" and r.okind == "assign" and isinstance(r.node, ast.Call):
                from ..terms import Scope

                v = ev.ev(r.node, Scope(), r.mod)
                if v.op == "partial":
                    fn = v
                    continue
            return r, pre
        return None, pre
    return None, pre


def callee_ref(t):
    """Resolved Ref of a call term's callee (through partial), or None."""
    fn = t.fn
    while fn.op == "partial":
        fn = fn.fn
    if fn.op == "ref":
        return fn.ref
    return None


def project(ev, t, i, depth=0):
    """Component i of a tuple-valued term, pushed through if/seq/inlinable calls; None if not visible."""
    if t is None or depth > 8:
        return None
    from ..terms import T

    if t.op in ("tuple", "list"):
        if any(e.op == "star" for e in t.elts):
            return None
        if -len(t.elts) <= i < len(t.elts):
            return t.elts[i]
        return None
    if t.op == "if":
        a, b = project(ev, t.then, i, depth + 1), project(ev, t.other, i, depth + 1)
        if t.then.op == "raise":
            return b
        if t.other.op == "raise":
            return a
        if a is None or b is None:
            return None
        from ..kfun import same

        if a is b or same(a, b):
            return a  # the component does not depend on the branch
        return T("if", t.node, t.mod, cond=t.cond, then=a, other=b)
    if t.op == "seq":
        return project(ev, t.value, i, depth + 1)
    if t.op == "call":
        r = ev.inline(t)
        if r is not None:
            return project(ev, r, i, depth + 1)
    return None


def maker_name(entry):
    mk = entry.maker
    if mk is None:
        return entry.spec
    if isinstance(mk, ast.Name):
        return mk.id
    if isinstance(mk, ast.Call):
        return norm_text(mk)[:60]
    if isinstance(mk, ast.Lambda):
        return "<lambda>"
    return norm_text(mk)[:40]


def construct_of(entry, extra=""):
    """Position-independent identification of a rule entry: primitive + mode + argnum (+ maker name)."""
    return f"{entry.mode}:{entry.prim_id}[{entry.argnum}]{(':' + extra) if extra else ''}"
