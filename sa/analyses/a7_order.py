"""A7.order - layout-relative option values.  `order="A"` / `order="K"` of ravel / reshape mean "the index order of
THIS array's memory layout".  The (co)tangent a derivative rule works on has its own layout, so a rule that hands the
primitive's `order` argument on unchanged re-reads the (co)tangent in an order chosen from the wrong array.  Decided
on the evaluated rule terms, once per relative value: with every test of the option against constants resolved for
that value, the bare option parameter must no longer reach any call on a non-raising path."""
from .. import facts
from ..terms import walk
from ..tutil import cases, expand, specialise, unseq
from .common import construct_of

W = "the primitive applied with that order value to a Fortran-contiguous array (np.asfortranarray(x)): the (co)tangent is C-contiguous, so the rule permutes it in C order while the forward pass used Fortran order"


def _is_opt(t, pname, ppos):
    return t.op == "arg" and (t.get("name") == pname or (isinstance(t.index, int) and t.index == ppos and t.get("name") in (None, pname)))


def layout_options(ctx, world, modes=("vjp", "jvp")):
    ctx.describe("A7.order", "a rule of ravel / reshape never forwards a layout-relative `order` value ('A', 'K': relative to the memory layout of the array the function is applied to) to a call on the cotangent / tangent: for each such value, after resolving the rule's own tests of `order`, the bare parameter no longer reaches a call; 'same' (the primitive re-applied to the tangent) is such a forward")
    fx = facts.load("layout_relative_options")["functions"]
    n = 0
    for e in world.table.entries:
        if e.mode not in modes or not world.in_numpy_scope(e):
            continue
        spec = fx.get(e.prim.qual) if e.prim is not None else None
        if spec is None:
            continue
        pname, rel = spec["param"], spec["relative"]
        sig = world.env.signature(e.prim.qual)
        ppos = sig["pos"].index(pname) if sig and pname in sig["pos"] else None
        inst = construct_of(e)
        if e.argnum not in (0, None):
            continue
        n += 1
        if e.spec != "maker":
            if e.spec == "same":
                ctx.fail("A7.order", inst, f"{e.mode}:{e.prim_id}|same", e.loc, f"the 'same' rule re-applies {e.prim_id} to the tangent with the caller's `{pname}`: for {pname} in {rel} the index order is then chosen from the tangent's memory layout, not the argument's", W)
            else:
                ctx.ob("A7.order", inst, True, e.loc)
            continue
        ir = world.ir(e)
        if ir is None or not ir.ok:
            ctx.ob("A7.order", inst, None, e.loc)
            continue
        res = unseq(expand(world.ev, ir.result, ()))
        bad = None
        for v in rel:
            def decide(a, v=v):
                if a.op == "cmp" and a.opname in ("Eq", "Is") and ((_is_opt(a.l, pname, ppos) and a.r.op == "const") or (_is_opt(a.r, pname, ppos) and a.l.op == "const")):
                    c = a.r if a.r.op == "const" else a.l
                    return c.value == v
                if a.op == "cmp" and a.opname == "In" and _is_opt(a.l, pname, ppos) and a.r.op in ("tuple", "list", "set") and all(x.op == "const" for x in a.r.elts):
                    return v in [x.value for x in a.r.elts]
                return None

            for c in cases(specialise(res, decide)):
                if c.leaf.op == "raise":
                    continue
                for t in walk(c.leaf):
                    if t.op == "call" and (any(_is_opt(x, pname, ppos) for x in t.args) or any(_is_opt(x, pname, ppos) for x in t.kw.values())):
                        bad = bad or (v, t)
        # NumPy's own meaning of 'A': Fortran index order exactly when the array is F-contiguous AND NOT C-contiguous
        # (1-D arrays and shapes such as (1, n) are both): a path that answers "F" for order='A' must have excluded
        # C-contiguity (flags.c_contiguous false, or np.isfortran true)
        if not bad and "A" in rel:
            def decideA(a):
                if a.op == "cmp" and a.opname in ("Eq", "Is") and ((_is_opt(a.l, pname, ppos) and a.r.op == "const") or (_is_opt(a.r, pname, ppos) and a.l.op == "const")):
                    c = a.r if a.r.op == "const" else a.l
                    return c.value == "A"
                if a.op == "cmp" and a.opname == "In" and _is_opt(a.l, pname, ppos) and a.r.op in ("tuple", "list", "set") and all(x.op == "const" for x in a.r.elts):
                    return "A" in [x.value for x in a.r.elts]
                return None

            spec_ = specialise(res, decideA)
            for t in walk(spec_):
                if t.op != "call":
                    continue
                ops_ = [x for x in list(t.kw.items()) if x[0] == pname]
                for _k, o_ in ops_:
                    for c in cases(o_):
                        if c.leaf.op == "const" and c.leaf.value == "F":
                            excl = False
                            for a, pol in c.facts:
                                if a.op == "attr" and a.name == "c_contiguous" and pol is False:
                                    excl = True
                                if a.op == "call" and a.fn.op in ("ref", "attr") and (getattr(a.fn, "name", "") == "isfortran" or (a.fn.op == "ref" and a.fn.ref.qual.endswith(".isfortran"))) and pol is True:
                                    excl = True
                            if not excl:
                                bad = ("A", t)
                                note_ = "answers 'F' for an array that may also be C-contiguous (1-D, (1, n), (n, 1)): NumPy reads those in C order"
        if bad:
            v, t = bad
            from ..model import norm_text

            txt = norm_text(t.node)[:70] if t.node is not None else str(t)[:70]
            if "note_" in dir():
                ctx.fail("A7.order", inst, f"{e.mode}:{e.prim_id}|{pname}-A-resolution", e.loc, f"with {pname}='A' the value handed to `{txt}` {note_}", "reshape(arange(6.), (2, 3), order='A'): the argument is both C- and F-contiguous")
                del note_
            else:
                ctx.fail("A7.order", inst, f"{e.mode}:{e.prim_id}|{pname}", e.loc, f"with {pname}='{v}' the rule forwards the layout-relative value unchanged to `{txt}`, which applies it to the layout of the (co)tangent instead of the argument's", W)
        else:
            ctx.ob("A7.order", inst, True, e.loc)
    ctx.floor("A7.order rules of ravel / reshape", n, 2 if len(modes) == 1 else 4)


def layout_constants(ctx, world):
    """call-site clause: library code never asks NumPy for a layout-relative index order itself"""
    import ast

    from ..model import norm_text
    from .common import loc_of

    ctx.describe("A7.order/calls", "no call of ravel / reshape / ndarray.flatten inside autograd/ passes a constant layout-relative order ('A', 'K'): the element order of the result would depend on the memory layout of the operand, which equal values do not share (flatten(x) and flatten(np.asfortranarray(x)) must agree; a gradient never has its argument's layout)")
    fx = facts.load("layout_relative_options")["functions"]
    rel_all = {"A", "K"}
    n = 0
    for mod in world.repo.mods.values():
        for x in ast.walk(mod.tree):
            if not isinstance(x, ast.Call):
                continue
            name = None
            if isinstance(x.func, (ast.Name, ast.Attribute)):
                r = world.repo.resolve_expr(mod, x.func)
                if r is not None and getattr(r, "qual", None) in fx:
                    name = r.qual
                elif r is not None and r.kind == "wrapped" and ("numpy." + r.name) in fx:
                    name = "numpy." + r.name
            if name is None and isinstance(x.func, ast.Attribute) and x.func.attr in ("ravel", "flatten", "reshape"):
                name = "method ." + x.func.attr
            if name is None:
                continue
            n += 1
            vals = [k.value for k in x.keywords if k.arg == "order"]
            if name in fx:
                sig = world.env.signature(name)
                pp = sig["pos"].index("order") if sig and "order" in sig["pos"] else None
                if pp is not None and len(x.args) > pp:
                    vals.append(x.args[pp])
            elif name in ("method .ravel", "method .flatten") and x.args:
                vals.append(x.args[0])
            bad = [v for v in vals if isinstance(v, ast.Constant) and v.value in rel_all]
            inst = f"{mod.name}:{norm_text(x)[:60]}"
            if bad:
                ctx.fail("A7.order", inst, f"call:{mod.name}|{norm_text(x)[:80]}", loc_of(mod, x), f"`{norm_text(x)[:70]}` asks for the index order of the operand's memory layout (order='{bad[0].value}')", "a container leaf that is Fortran-contiguous (a transposed matrix, np.asfortranarray(M)): it is laid out column-major while an equal C-contiguous leaf - and every gradient - is laid out row-major")
            else:
                ctx.ob("A7.order", inst, True, loc_of(mod, x), nontrivial=bool(vals))
    ctx.floor("A7.order ravel/reshape/flatten call sites", n, 10)
