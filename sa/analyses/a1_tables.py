"""A1 - table consistency: set algebra on the Rule Table against the NumPy fact tables."""
import ast

from .. import facts

from ..model import AnalysisError, norm_text
from ..regs import class_lookup, class_mro
from .common import (
    base_name,
    callee_ref,
    construct_of,
    deep_terms,
    is_numpy_callable,
    linear_in,
    loc_of,
    locally_constant,
    locally_constant_arg,
    prim_positional_arity,
)

W_FLOAT = "any float input x: the true derivative is non-zero, autograd returns an untraced (constant) value, the dependence is dropped silently"


def nograd(ctx, world):
    """A1.nograd: every function declared notrace must be locally constant."""
    ctx.describe("A1.nograd", "every callable registered notrace (register_notrace, numpy_wrapper.notrace_functions) is in the locally-constant facts about NumPy")
    t = world.table
    n = 0
    for ntype, lst in sorted(t.notrace.items()):
        for ref, m, site in lst:
            n += 1
            ok, why = locally_constant(world, ref)
            inst = f"{ntype.rsplit('.', 1)[-1]}:{ref.qual}"
            if ok:
                ctx.ob("A1.nograd", inst, True, loc_of(m, site), sample=why)
            else:
                ctx.fail("A1.nograd", inst, f"notrace:{ref.qual}", loc_of(m, site), f"{ref.qual} is registered as non-differentiable for {ntype} but {why}", W_FLOAT)
    m = world.repo.mod("autograd.numpy.numpy_wrapper")
    for q in sorted(world.repo.wrapper_notrace_names()):
        n += 1
        from ..model import Ext

        ok, why = locally_constant(world, Ext(q))
        if ok:
            ctx.ob("A1.nograd", f"wrapper:{q}", True, m.relpath, sample=why)
        else:
            ctx.fail("A1.nograd", f"wrapper:{q}", f"notrace_functions:{q}", m.relpath, f"{q} is wrapped with notrace_primitive but {why}", W_FLOAT)
    ctx.floor("A1.nograd instances", n, 90)


def sym(ctx, world):
    ctx.describe("A1.sym", "the notrace sets of VJPNode and JVPNode are equal")
    t = world.table
    a, b = t.notrace_quals("autograd.core.VJPNode"), t.notrace_quals("autograd.core.JVPNode")
    for q in sorted(a | b):
        if q in a and q in b:
            ctx.ob("A1.sym", q, True)
        else:
            missing = "JVPNode" if q in a else "VJPNode"
            site = [(m, s) for r, m, s in t.notrace.get("autograd.core.VJPNode", []) + t.notrace.get("autograd.core.JVPNode", []) if r.qual == q][0]
            ctx.fail("A1.sym", q, f"notrace-asym:{q}", loc_of(*site), f"{q} is notrace for one node type but not for {missing}", "differentiate through it in the other mode: one mode returns zero/constant, the other raises or differentiates")
    ctx.floor("A1.sym instances", len(a | b), 40)


def none_rules(ctx, world, scope_numpy_only=True):
    ctx.describe("A1.none", "every None rule (zero derivative by declaration) is for a locally-constant argument")
    n = 0
    for e in world.table.entries:
        if e.spec != "none":
            continue
        if scope_numpy_only and not world.in_numpy_scope(e):
            ok, why = locally_constant_arg(world, e.prim, e.argnum)
            if not ok:
                ctx.note(f"A1.none (advisory, outside autograd.numpy*): {e} - {why}")
            continue
        n += 1
        ok, why = locally_constant_arg(world, e.prim, e.argnum)
        if ok:
            ctx.ob("A1.none", construct_of(e), True, e.loc, sample=why)
        else:
            ctx.fail("A1.none", construct_of(e), construct_of(e), e.loc, f"None rule declares a zero derivative but {why}", W_FLOAT)
    ctx.floor("A1.none instances", n, 12)


def lin(ctx, world):
    ctx.describe("A1.lin", "every 'same' / def_linear entry is for a (function, argument) pair that is real-linear (facts), i.e. exactly when the primitive applied to the tangent IS the JVP")
    n = 0
    for e in world.table.entries:
        if e.spec not in ("same", "linear"):
            continue
        if not world.in_numpy_scope(e):
            continue
        n += 1
        ok, why = linear_in(world, e.prim, e.argnum)
        if ok is None:
            ok2, why2 = body_linear(world, e.prim, e.argnum)
            ok, why = (True, why2) if ok2 else (False, why + "; " + why2)
        if ok and is_numpy_callable(e.prim):
            # linear only while certain options are absent: 'same' / def_linear hand the caller's options on as well
            aff = facts.load("linear_in").get("affine_options", {}).get(base_name(e.prim))
            sig_ = world.env.signature(e.prim.qual) if aff else None
            present = [o for o in (aff or []) if sig_ and o in sig_["pos"] + sig_["kwonly"]]
            if present:
                ok, why = False, f"{base_name(e.prim)} is linear in its argument only without {present}: the rule re-applies it to the tangent WITH the caller's {' / '.join(present)}, which adds the constant to the tangent (affine)"
        if ok:
            ctx.ob("A1.lin", construct_of(e), True, e.loc, sample=why)
        else:
            ctx.fail(
                "A1.lin",
                construct_of(e),
                construct_of(e),
                e.loc,
                f"JVP declared as the primitive itself applied to the tangent, but {why}",
                "any generic point and tangent: f(.., v, ..) != J v (e.g. an affine or non-linear function of that argument)",
            )
    ctx.floor("A1.lin instances", n, 50)


def body_linear(world, ref, argnum):
    """A repo primitive is linear in an argument if its body is a composition of linear_in operations on it."""
    from .a5_linear import linearity_of_function

    if ref.kind not in ("repo", "classattr") or not isinstance(ref.node, ast.FunctionDef):
        return False, "no body to analyse"
    return linearity_of_function(world, ref, argnum)


def arity(ctx, world):
    ctx.describe("A1.arity", "no maker is silently dropped by zip(argnums, makers); no maker is registered beyond the primitive's positional parameters; no malformed rule spec")
    seen = set()
    for e in world.table.entries:
        if not world.in_numpy_scope(e):
            continue
        if isinstance(e.argnum, tuple) and e.argnum[0] == "dropped":
            ctx.fail("A1.arity", f"{e.mode}:{e.prim_id}:maker#{e.argnum[1]}", f"dropped:{e.mode}:{e.prim_id}#{e.argnum[1]}", e.loc, "more makers than argnums=: zip() drops this rule silently", "differentiate w.r.t. the argument the author meant this rule for")
            continue
        if e.spec.startswith("bad:"):
            ctx.fail("A1.arity", construct_of(e), construct_of(e, "badspec"), e.loc, f"rule spec {e.spec[4:]} is neither None, 'same' nor callable", "first use raises only at registration... or never")
            continue
        if (id(e.site), e.prim_id) in seen or e.argnum is None:
            continue
        seen.add((id(e.site), e.prim_id))  # one call site inside a registration loop serves several primitives
        ar = prim_positional_arity(world, e.prim)
        nums = [x.argnum for x in world.table.entries if x.site is e.site and x.prim_id == e.prim_id and isinstance(x.argnum, int)]
        inst = f"{e.mode}:{e.prim_id}@{norm_text(e.site.func)}"
        if ar is None or ar[1] is None:
            ctx.ob("A1.arity", inst, True, e.loc, nontrivial=False)
            continue
        if nums and max(nums) >= ar[1]:
            ctx.fail("A1.arity", inst, f"arity:{e.mode}:{e.prim_id}", e.loc, f"rule registered for argnum {max(nums)} but {e.prim_id} takes at most {ar[1]} positional arguments", "the rule can never be selected")
        else:
            ctx.ob("A1.arity", inst, True, e.loc)


def methods(ctx, world):
    ctx.describe("A1.methods", "every method bound on ArrayBox by setattr denotes the same-named wrapped function (flatten -> ravel is ndarray semantics); the target is a traced primitive or a locally-constant notrace function")
    t = world.table
    allowed_alias = {"flatten": "ravel"}
    nt = t.notrace_quals("autograd.core.VJPNode")
    n = 0
    undecided_methods = []
    for cls, name, tgt, m, site, expr in t.setattrs:
        if not cls.endswith("ArrayBox"):
            continue
        if name.startswith("__") and name.endswith("__"):
            continue  # special methods: the operator table (A14) decides them
        n += 1
        inst = f"ArrayBox.{name}"
        if tgt is None:
            # notrace_primitive(getattr(np.ndarray, name)) and similar: a freshly wrapped external, not the exported function
            v = expr
            if isinstance(v, ast.Call) and v.args:
                f = world.repo.resolve_expr(m, v.func)
                a0 = v.args[0]
                if isinstance(a0, ast.Call) and isinstance(a0.func, ast.Name) and a0.func.id == "getattr" and len(a0.args) == 2 and isinstance(a0.args[1], ast.Constant):
                    a0 = ast.Attribute(value=a0.args[0], attr=a0.args[1].value, ctx=ast.Load())
                inner = world.repo.resolve_expr(m, a0)
                if f is not None and inner is not None and inner.kind == "ext":
                    ctx.fail("A1.methods", inst, f"method:{name}->{f.qual.rsplit('.', 1)[-1]}({inner.qual})", loc_of(m, site), f"ArrayBox.{name} is bound to a freshly wrapped `{inner.qual}` ({f.qual.rsplit('.', 1)[-1]}), not to the exported function anp.{name}: a different callable (an unbound ndarray method rejects scalar values; a new primitive object has no derivative rules)", f"x.{name}() on a traced value whose raw value is a NumPy scalar, or differentiation through the method form")
                    continue
            ctx.ob("A1.methods", inst, None, loc_of(m, site))
            undecided_methods.append(inst)
            continue
        if tgt.kind == "wrapped":
            want = allowed_alias.get(name, name)
            if base_name(tgt) != want:
                obj_a = world.env.get("numpy", want)
                obj_b = world.env.get(tgt.ns, tgt.name)
                if obj_a is None or obj_a is not obj_b:
                    ctx.fail("A1.methods", inst, f"method:{name}->{tgt.qual}", loc_of(m, site), f"ArrayBox.{name} is bound to {tgt.qual}, not to the function ndarray.{name} denotes", f"x.{name}(...) on a traced array computes a different function than on an ndarray")
                    continue
            if tgt.how == "notrace" or tgt.qual in nt:
                ok, why = locally_constant(world, tgt)
                if not ok:
                    ctx.fail("A1.methods", inst, f"method-notrace:{name}", loc_of(m, site), f"method {name} is untraced but {why}", W_FLOAT)
                    continue
            ctx.ob("A1.methods", inst, True, loc_of(m, site))
        else:
            # repo-defined wrapper (wrapped_reshape): must reach the same-named primitive on every return
            ok = _wrapper_reaches(world, tgt, name)
            if ok:
                ctx.ob("A1.methods", inst, True, loc_of(m, site), sample=f"every return of {tgt.qual} calls anp.{name}")
            else:
                ctx.fail("A1.methods", inst, f"method:{name}->{tgt.qual}", loc_of(m, site), f"{tgt.qual} does not return anp.{name}(self, ..., **kwargs) on every path (a path drops the receiver, calls another function or loses the keyword options)", f"x.{name}(..., option=...) on a traced array, compared with the same call on an ndarray")
    ctx.floor("A1.methods decided instances", n - len(undecided_methods), 26)


def _wrapper_reaches(world, ref, name):
    node = ref.node
    if not isinstance(node, ast.FunctionDef):
        return False
    rets = [n for n in ast.walk(node) if isinstance(n, ast.Return)]
    if not rets:
        return False
    for r in rets:
        v = r.value
        if not isinstance(v, ast.Call):
            return False
        f = world.repo.resolve_expr(ref.mod, v.func)
        if f is None or f.kind != "wrapped" or f.name != name:
            return False
        if not v.args or not isinstance(v.args[0], ast.Name) or v.args[0].id != node.args.args[0].arg:
            return False
        # keyword options of the method call reach the function
        if node.args.kwarg is not None:
            if not any(k.arg is None and isinstance(k.value, ast.Name) and k.value.id == node.args.kwarg.arg for k in v.keywords):
                return False
    return True


def helpers(ctx, world):
    ctx.describe("A1.helpers", "every repo-defined primitive called from a rule's backward-time closure has its own VJP rule (else reverse-over-reverse raises or is wrong); JVP presence is tabulated")
    t = world.table
    vj = t.by_prim("vjp")
    jv = t.by_prim("jvp")
    used = {}
    users = {}
    # methods of ArrayBox written out in the class body that call a repo primitive (x.astype(..) is anp._astype(x, ..)
    # when x is traced, and at backward time of a higher-order derivative it is)
    box_methods = {}
    nb = world.repo.mods.get("autograd.numpy.numpy_boxes")
    if nb is not None:
        br = world.repo.resolve(nb, "ArrayBox")
        if br is not None and br.kind == "repo" and br.okind == "class":
            for st_ in br.node.body:
                if isinstance(st_, ast.FunctionDef):
                    for c_ in ast.walk(st_):
                        if isinstance(c_, ast.Call):
                            rr_ = world.repo.resolve_expr(nb, c_.func)
                            if rr_ is not None and rr_.kind in ("repo", "classattr") and world.repo.is_primitive_ref(rr_):
                                box_methods.setdefault(st_.name, rr_)
    for e in t.entries:
        if e.spec != "maker" or not world.in_numpy_scope(e):
            continue
        ir = world.ir(e)
        if ir is None or not ir.ok:
            continue
        for x in deep_terms(world.ev, ir.result):
            if x.op == "call":
                r = callee_ref(x)
                if r is None and x.fn.op == "attr" and x.fn.name in box_methods and not x.fn.name.startswith("__"):
                    from .a3_reduce import _value_dependent

                    if _value_dependent(world.ev, x.fn.obj):  # (a method of a raw index / shape array is plain NumPy)
                        r = box_methods[x.fn.name]
                if r is not None and r.kind in ("repo", "classattr") and world.repo.is_primitive_ref(r):
                    used.setdefault(r.qual, (r, e))
                    if e.mode == "vjp":
                        users.setdefault(r.qual, {})[e.prim_id] = e
    # helper primitives WITHOUT a forward-mode rule: forward-over-reverse through every rule that calls them raises.
    # Today's instances are confined to their own family (confirmed by reading); a new user spreads the limitation
    jvpless_ok = {
        "autograd.numpy.fft.truncate_pad": ("numpy.fft.", "autograd.numpy.fft."),  # the fft rules and truncate_pad's own rule
        "autograd.numpy.numpy_wrapper._astype": ("autograd.numpy.numpy_wrapper._astype",),  # the cast's own rule casts back
    }
    for q_, us_ in sorted(users.items()):
        if q_ in jv or q_ not in vj:
            continue
        for pid_, e_ in sorted(us_.items()):
            if pid_.startswith(jvpless_ok.get(q_, ())) and jvpless_ok.get(q_):
                ctx.ob("A1.helpers", f"jvp-less helper {q_} used by {pid_}", True, e_.loc, nontrivial=False, sample="known loud limitation confined to this family")
            else:
                ctx.fail("A1.helpers", f"{q_} <- {pid_}", f"jvpless-helper:{q_}<-{pid_}", e_.loc, f"the reverse-mode rule of {pid_} calls the helper primitive {q_}, which has no forward-mode rule: forward-over-reverse (make_jvp of grad) through {pid_} raises although its first derivative is supported", f"a forward-over-reverse Hessian-vector product through {pid_}")
    for q, (r, e) in sorted(used.items()):
        if q in vj:
            ctx.ob("A1.helpers", q, True, loc_of(r.mod, r.node), sample=f"used by {construct_of(e)}; JVP {'present' if q in jv else 'absent'}")
            if q not in jv:
                ctx.note(f"A1.helpers: {q} has no JVP rule (forward-over-reverse through it raises: loud)")
        else:
            ctx.fail("A1.helpers", q, f"helper-without-vjp:{q}", loc_of(r.mod, r.node), f"primitive {q} is called at backward time by {construct_of(e)} but has no VJP rule", "second-order reverse-mode differentiation of that primitive")
    # VSpace arithmetic primitives + sparse_add have both rules
    core = world.repo.mod("autograd.core")
    for q in ["autograd.core.sparse_add"] + [f"autograd.core.VSpace.{n}" for n in ("add", "mut_add", "scalar_mul", "inner_prod", "covector")]:
        for mode, tab in (("vjp", vj), ("jvp", jv)):
            if q in tab:
                ctx.ob("A1.helpers", f"{mode}:{q}", True, core.relpath)
            else:
                ctx.fail("A1.helpers", f"{mode}:{q}", f"vspace-prim-without-{mode}:{q}", core.relpath, f"accumulation primitive {q} has no {mode.upper()} rule", "higher-order differentiation (accumulation happens on traced cotangents)")
    ctx.floor("A1.helpers helper primitives found", len(used), 6)


def types(ctx, world):
    ctx.describe("A1.types", "Box.register value types == VSpace.register value types; sparse_object_types == {SparseObject, SparseBox}")
    t = world.table

    def q(tref, text):
        return tref.qual if tref is not None else text

    boxes = {q(r, txt): (c, m, s) for c, txt, r, m, s in t.box_reg}
    spaces = {q(r, txt): (c, m, s) for c, txt, r, mk, m, s in t.vspace_reg}
    for k in sorted(set(boxes) | set(spaces)):
        if k in boxes and k in spaces:
            ctx.ob("A1.types", k, True, loc_of(boxes[k][1], boxes[k][2]), sample=f"{boxes[k][0]} / {spaces[k][0]}")
        else:
            have = boxes.get(k) or spaces.get(k)
            ctx.fail("A1.types", k, f"type-asym:{k}", loc_of(have[1], have[2]), f"value type {k} has a {'Box' if k in boxes else 'VSpace'} registration but no {'VSpace' if k in boxes else 'Box'}", "differentiate w.r.t. a value of that type: boxing succeeds but vspace() raises (or vice versa) in the middle of a backward pass")
    ctx.floor("A1.types instances", len(set(boxes) | set(spaces)), 15)
    core = world.repo.mod("autograd.core")
    b = core.top.get("sparse_object_types")
    if not b:
        raise AnalysisError("core.sparse_object_types vanished")
    val = b[-1][1]
    names = set()
    if isinstance(val, ast.Set):
        for e in val.elts:
            r = world.repo.resolve_expr(core, e)
            names.add(r.qual if r else norm_text(e))
    want = {"autograd.core.SparseObject", "autograd.core.SparseBox"}
    if names == want:
        ctx.ob("A1.types", "sparse_object_types", True, core.relpath)
    else:
        ctx.fail("A1.types", "sparse_object_types", "sparse_object_types", loc_of(core, b[-1][2]), f"sparse_object_types is {sorted(names)}, expected both SparseObject and SparseBox", "an indexed (sparse) cotangent that is itself traced (higher order) or plain is then accumulated as if dense")
