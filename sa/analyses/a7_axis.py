"""A7 - axis-hazard taint.  Sources: rule parameters that denote axes.  Sinks: uses whose meaning differs
for a negative axis (arithmetic, slice bounds, order comparison, sorting/argsort, truthiness).  Safe uses:
passing it on as an argument, subscripting / storing at that position, `is None`, isinstance.  Sanitisers:
`axis % n`, a dominating `if axis < 0: raise`, the normalisation idiom `if axis < 0: axis += n`."""
from .. import facts
from ..model import norm_text
from ..terms import children
from .common import base_name, construct_of, is_numpy_callable, project, resolve_callee

AX = "AX"


def _same_branches(t, c):
    from ..terms import T

    return T("if", t.node, t.mod, cond=c, then=t.then, other=t.other)


def _swapped(t, c):
    from ..terms import T

    return T("if", t.node, t.mod, cond=c, then=t.other, other=t.then)


def axis_param_names(world, entry):
    """positions / names of the primitive's parameters that denote axes"""
    fx = facts.load("axis_params")
    names = set(fx["names"])
    prim = entry.prim
    bn = base_name(prim) if is_numpy_callable(prim) else None
    excl = set(fx["not_axis"].get(bn, [])) if bn else set()
    pos = {}
    if is_numpy_callable(prim):
        sig = world.env.signature(prim.qual)
        if sig:
            for i, p in enumerate(sig["pos"]):
                if p in names and p not in excl:
                    pos[i] = p
    elif prim.kind in ("repo", "classattr") and hasattr(prim.node, "args"):
        a = prim.node.args
        for i, p in enumerate(a.posonlyargs + a.args):
            if p.arg in names:
                pos[i] = p.arg
    return pos, names - excl


class AxisTaint:
    def __init__(self, world, axis_pos, axis_names):
        self.world, self.ev = world, world.ev
        self.pos, self.names = axis_pos, axis_names
        self.sinks = []  # (kind, text, line)
        self.seen = {}

    def is_src(self, t):
        # kwargs.pop("axis", d) / kwargs.get("axis", d) / kwargs["axis"]: the option read out of the catch-all
        if t.op == "call" and t.fn.op == "attr" and t.fn.name in ("pop", "get") and t.fn.obj.op == "kwrest" and t.args and t.args[0].op == "const" and t.args[0].value in self.names:
            return True
        if t.op == "sub" and t.obj.op == "kwrest" and t.idx.op == "const" and t.idx.value in self.names:
            return True
        if t.op != "arg":
            return False
        if isinstance(t.index, int) and t.index in self.pos:
            return True
        return t.get("name") in self.names and t.get("name") is not None

    def sink(self, kind, t):
        txt = norm_text(t.node) if t.node is not None else "?"
        key = (kind, txt)
        if key not in [(k, x) for k, x, _ in self.sinks]:
            self.sinks.append((kind, txt, t.line))

    def of(self, t, safe=frozenset()):
        if t is None:
            return None
        k = (id(t), safe)
        if k in self.seen:
            return self.seen[k][1]
        self.seen[k] = (t, None)
        r = self._of(t, safe)
        self.seen[k] = (t, r)
        return r

    def _is_argument_list(self, t, depth=0):
        """is t (a view of) the tuple of the primitive's variadic positional arguments?"""
        while t is not None and t.op == "seq":
            t = t.value
        if t is None or depth > 6:
            return False
        if t.op == "rest":
            return True
        if t.op == "bin" and t.opname in ("Mult", "Add"):
            return self._is_argument_list(t.l, depth + 1) or self._is_argument_list(t.r, depth + 1)
        if t.op == "if":
            return self._is_argument_list(t.then, depth + 1) or self._is_argument_list(t.other, depth + 1)
        if t.op == "call" and t.fn.op == "ref" and t.fn.ref.qual in ("builtins.tuple", "builtins.list") and len(t.args) == 1:
            return self._is_argument_list(t.args[0], depth + 1)
        if t.op == "sub" and t.idx.op == "slice":
            return self._is_argument_list(t.obj, depth + 1)
        return False

    def key(self, t):
        """identity of an axis value for sanitising: the parameter (and component) it came from"""
        if t.op == "arg":
            return ("arg", t.index if isinstance(t.index, int) else t.get("name"))
        if t.op == "sub" and t.idx.op == "const":
            b = self.key(t.obj)
            return b + (t.idx.value,) if b else None
        if t.op == "if":
            return self.key(t.other) or self.key(t.then)
        return None

    def _guard(self, cond):
        """axis key if cond is `AX < 0` (possibly conjoined with `AX is not None`): true branch = negative axis"""
        if cond.op == "bool" and cond.opname == "and":
            for v in cond.vals:
                k = self._guard(v)
                if k is not None:
                    return k
            return None
        if cond.op == "cmp" and cond.opname == "Lt" and cond.r.op == "const" and cond.r.value == 0:
            if self.of(cond.l, frozenset(["__probe__"])) == AX or self._is_ax_quiet(cond.l):
                return self.key(cond.l)
        return None

    def _is_ax_quiet(self, t):
        if self.is_src(t):
            return True
        if t.op == "sub" and t.idx.op == "const":
            return self._is_ax_quiet(t.obj)
        if t.op == "if":
            return self._is_ax_quiet(t.then) or self._is_ax_quiet(t.other)
        return False

    def _of(self, t, safe):
        o = t.op
        if self.is_src(t):
            return None if self.key(t) in safe else AX
        if o in ("const", "sym", "ref", "rest", "kwrest", "closure", "unknown", "fstr", "arg"):
            return None
        if o == "bin":
            a, b = self.of(t.l, safe), self.of(t.r, safe)
            if t.opname == "Mod" and a == AX:
                return None  # axis % ndim : sanitiser
            if AX in (a, b) and t.opname in ("Add", "Sub", "Mult", "FloorDiv", "Div", "Pow"):
                # tuple/list concatenation is not arithmetic
                if t.opname == "Add" and (t.l.op in ("tuple", "list") or t.r.op in ("tuple", "list")):
                    return AX
                self.sink("arithmetic on an axis", t)
                return None
            return None
        if o == "un":
            a = self.of(t.x, safe)
            if a == AX and t.opname == "Not":
                self.sink("truthiness of an axis", t)
            if a == AX and t.opname == "USub":
                self.sink("arithmetic on an axis", t)
            return None
        if o == "cmp":
            a, b = self.of(t.l, safe), self.of(t.r, safe)
            if AX in (a, b) and t.opname in ("Lt", "LtE", "Gt", "GtE"):
                self.sink("order comparison of an axis", t)
            return None
        if o == "bool":
            for v in t.vals:
                if self.of(v, safe) == AX:
                    self.sink("truthiness of an axis", v)
            return None
        if o == "slice":
            for x in (t.lo, t.hi, t.step):
                if self.of(x, safe) == AX:
                    self.sink("axis used as a slice bound", t)
            return None
        if o == "sub":
            ob = t.obj
            if ob.op == "call":
                inl = self.ev.inline(ob)
                if inl is not None and inl.op in ("if", "seq"):
                    ob = inl
                    while ob.op == "seq":
                        ob = ob.value
            if ob.op == "if":
                from ..tutil import atom

                ca, cpol = atom(ob.cond)
                if ca.op == "call" and ca.fn.op == "ref" and ca.fn.ref.qual.endswith("isinstance") and len(ca.args) == 2 and ca.args[1].op == "ref" and ca.args[1].ref.qual in ("builtins.tuple", "builtins.list"):
                    # subscripting / unpacking implies the value is a sequence (an int would raise TypeError)
                    self.of(t.idx, safe)
                    v = self.of(ob.then if cpol else ob.other, safe)
                    return AX if v == AX and t.idx.op in ("const", "slice") else None
            v = self.of(t.obj, safe)
            if v == "ENUM_AX":
                self.of(t.idx, safe)
                return AX if (t.idx.op == "const" and t.idx.value == 1) else None
            iv = self.of(t.idx, safe)
            if iv == AX and t.idx.op not in ("const", "slice") and self._is_argument_list(t.obj):
                # the primitive's own variadic arguments (spacings, operands ...) are listed by POSITION in the call,
                # not by axis number: indexing them with an axis picks the wrong entry (and, for a negative axis,
                # counts from the end)
                self.sink("an axis used as an index into the primitive's positional arguments", t)
            if t.idx.op == "const" and isinstance(t.idx.value, int):
                pr = project(self.ev, t.obj, t.idx.value)
                if pr is not None:
                    return self.of(pr, safe)
            return AX if v == AX and t.idx.op in ("const", "slice") else None
        if o in ("tuple", "list", "set"):
            vs = [self.of(e, safe) for e in t.elts]
            return AX if AX in vs else None
        if o == "star":
            return self.of(t.x, safe)
        if o == "iterelem":
            return self.of(t.src, safe)
        if o == "comp":
            self.of(t.src, safe)
            for c in t.conds:
                self.of(c, safe)
            return self.of(t.elt, safe)
        if o == "grow":
            self.of(t.obj, safe)
            self.of(t.val, safe)
            return None
        if o == "store":
            self.of(t.obj, safe)
            self.of(t.idx, safe)  # a position: safe use
            self.of(t.val, safe)
            return None
        if o == "attr":
            self.of(t.obj, safe)
            return None
        if o == "seq":
            for e in t.effects:
                self.of(e, safe)
            return self.of(t.value, safe)
        if o in ("assert",):
            self.of(t.cond, safe)
            return None
        if o == "when":
            self.of(t.eff, safe)
            return None
        if o == "raise":
            return None
        if o == "loop":
            self.of(t.init, safe)
            if t.get("it") is not None:
                self.of(t.it, safe)
            return self.of(t.next, safe)
        if o == "loopvar":
            return None
        if o == "if":
            c = t.cond
            # `if not c: A else: B` is `if c: B else: A`
            from ..tutil import atom, pos_form

            if c.op == "un" and c.opname == "Not" and c.x.op == "bool":
                # De Morgan: `not (axis is None or axis >= 0)` is `axis is not None and axis < 0`
                c = pos_form(c)
                t = _same_branches(t, c)
            elif c.op == "bool" and c.opname == "or":
                # `if axis is None or not axis < 0: A else: B` is `if axis is not None and axis < 0: B else: A`
                from ..terms import T as _T

                c = pos_form(_T("un", c.node, c.mod, opname="Not", x=c))
                t = _swapped(t, c)
            a_, pol_ = atom(c)
            if a_ is not c:
                c = a_
                t = _swapped(t, c) if not pol_ else _same_branches(t, c)
            # path facts on `isinstance(axis, tuple)`: a value normalised under that test is only used under it
            if c.op == "call" and c.fn.op == "ref" and c.fn.ref.qual in ("builtins.isinstance", "autograd.builtins.isinstance") and len(c.args) == 2:
                k = self.key(c.args[0])
                tn = c.args[1]
                if k is not None and tn.op == "ref":
                    tag = ("isinst", k, tn.ref.qual)
                    if (tag, True) in safe:
                        return self.of(t.then, safe)
                    if (tag, False) in safe:
                        return self.of(t.other, safe)
                    a = self.of(t.then, safe | {(tag, True)})
                    b = self.of(t.other, safe | {(tag, False)})
                    return AX if AX in (a, b) else None
            if c.op == "cmp" and c.opname in ("Is", "IsNot", "Eq", "NotEq") and c.r.op == "const" and c.r.value is None:
                k = self.key(c.l)
                if k is not None and self._is_ax_quiet(c.l):
                    # in the branch where the axis is None there is no axis to be negative
                    none_then = c.opname in ("Is", "Eq")
                    a = self.of(t.then, safe | {k} if none_then else safe)
                    b = self.of(t.other, safe if none_then else safe | {k})
                    return AX if AX in (a, b) else None
            gk = self._guard(c)
            if gk is not None:
                # `if axis < 0: raise ...` sanitises the other branch; `if axis < 0: axis = axis + n` is the
                # normalisation idiom: the merged value is clean
                if t.then.op == "raise":
                    return self.of(t.other, safe | {gk})
                if t.then.op == "bin" and t.then.opname == "Add" and self.key(t.then.l) == gk and self.key(t.other) == gk:
                    self.of(t.then.r, safe)
                    return None
                self.of(t.then, safe | {gk})  # inside the branch the sign is known
                return self.of(t.other, safe | {gk})
            if self.of(c, safe) == AX:
                # `if axis:` - accepted only when the false branch still passes the axis on (axis == 0 handled there)
                oth = t.other
                while oth.op == "seq":
                    oth = oth.value
                # (also accepted: the false branch is written for the leading axis explicitly - x[::-1], x[1:] - which is
                # what axis == 0, and axis=None of an already flattened operand, mean)
                leading = oth.op == "sub" and oth.idx.op == "slice"
                if not leading and not _mentions(t.other, lambda x: self.is_src(x)):
                    self.sink("truthiness of an axis", c)
            a, b = self.of(t.then, safe), self.of(t.other, safe)
            return AX if AX in (a, b) else None
        if o == "partial":
            for a in t.args:
                self.of(a, safe)
            return None
        if o == "call":
            return self._call(t, safe)
        for c in children(t):
            self.of(c, safe)
        return None

    def _call(self, t, safe):
        ref, pre = resolve_callee(self.ev, t)
        vals = [self.of(a, safe) for a in t.args]
        for v in t.kw.values():
            self.of(v, safe)
        if t.fn.op == "attr":
            self.of(t.fn.obj, safe)
        if ref is not None:
            q = ref.qual
            last = q.rsplit(".", 1)[-1]
            if last in ("argsort", "sort") or q == "builtins.sorted":
                if vals and vals[0] == AX:
                    self.sink("sorting / argsort of axes", t)
                    return None
            if q in ("builtins.list", "builtins.tuple", "builtins.reversed", "builtins.set", "builtins.iter") and vals and vals[0] == AX:
                return AX
            if q == "builtins.enumerate" and vals and vals[0] == AX:
                return "ENUM_AX"  # pairs (position, axis): component 1 is the axis, component 0 a plain position
            if q in ("builtins.max", "builtins.min", "builtins.abs") and AX in vals:
                self.sink("arithmetic on an axis", t)
                return None
            if is_numpy_callable(ref) or q.startswith("builtins."):
                return None
            if ref.kind in ("repo", "classattr") and (self.world.repo.is_primitive_ref(ref) or self.world.repo.is_notrace_ref(ref)):
                return None
        r = self.ev.inline(t)
        if r is not None:
            return self.of(r, safe)
        return None


def _mentions(t, pred, depth=0, seen=None):
    seen = seen if seen is not None else set()
    if t is None or id(t) in seen or depth > 60:
        return False
    seen.add(id(t))
    if pred(t):
        return True
    return any(_mentions(c, pred, depth + 1, seen) for c in children(t))


def hazards(ctx, world, modes=("vjp", "jvp")):
    ctx.describe("A7", "no rule uses an axis parameter in a way whose meaning changes for a negative axis (arithmetic, slice bound, order comparison, argsort/sorted, truthiness) unless sanitised (axis % n, dominating `axis < 0` guard or normalisation)")
    n = 0
    for e in world.table.entries:
        if e.spec != "maker" or e.mode not in modes or not world.in_numpy_scope(e):
            continue
        ir = world.ir(e)
        if ir is None or not ir.ok:
            continue
        pos, names = axis_param_names(world, e)
        A = AxisTaint(world, pos, names)
        A.of(ir.made if e.mode == "vjp" else None)
        A.of(ir.result)
        from ..tutil import expand as _expand

        # (helpers and local closures inlined: a rule whose result is a call of its own nested helper mentions the
        # axis only inside that helper's body)
        used = bool(A.sinks) or _mentions(_expand(world.ev, ir.result, ()), A.is_src) or (ir.made is not None and _mentions(_expand(world.ev, ir.made, ()), A.is_src))
        if not used:
            continue
        n += 1
        inst = construct_of(e)
        if not A.sinks:
            ctx.ob("A7", inst, True, e.loc)
            continue
        fnode = ir.maker.fnode if ir.maker is not None else None
        owner = getattr(fnode, "name", None) or e.prim_id
        for kind, txt, line in A.sinks:
            ctx.fail(
                "A7",
                inst + "|" + txt,
                f"{e.mode}:{owner}|{txt}",
                f"{e.mod.relpath}:{line}",
                f"{kind}: `{txt}` gives a different result when the axis is written negatively",
                "the same call with the axis given as a negative number (e.g. axis=-1 instead of axis=ndim-1)",
            )
    ctx.floor(f"A7 rules using an axis parameter ({'+'.join(modes)})", n, (25 if "vjp" in modes else 0) + (8 if "jvp" in modes else 0))


def none_axis(ctx, world, modes=("vjp", "jvp")):
    """A7.none - for roll / cumsum / repeat / take / sort ... `axis=None` means "the flattened array", which no explicit
    axis (and no tuple of all axes) reproduces.  On the path where the primitive was called with axis=None, a rule of
    such a primitive that calls such a function on the (co)tangent has to pass None as well (or have flattened its
    operand itself): substituting tuple(range(ndim)) moves different elements."""
    from ..terms import walk as _walk
    from ..tutil import atom, expand, specialise, unseq

    fl = set(facts.load("axis_none_flattens")["flattens"])
    keeps = set(facts.load("axis_none_flattens")["shape_preserving"])
    ctx.describe("A7.none", "in a rule of a NumPy function whose axis=None means 'the flattened array' while the result keeps the argument's shape (roll), every call of such a function receives, on the path where the primitive's axis is None, either None as its axis or an operand the rule has flattened itself (ravel / reshape(-1) / flatten)")
    n = 0
    for e in world.table.entries:
        if e.spec != "maker" or e.mode not in modes or not world.in_numpy_scope(e) or not is_numpy_callable(e.prim) or base_name(e.prim) not in keeps:
            continue  # (for the flatteners whose result is 1-D when axis=None the cotangent is 1-D too: any axis of it is the flattened array)
        psig = world.env.signature(e.prim.qual)
        ir = world.ir(e)
        if not psig or "axis" not in psig["defaults"] or psig["defaults"]["axis"] is not None or ir is None or not ir.ok:
            continue
        k_axis = psig["pos"].index("axis") if "axis" in psig["pos"] else None

        def is_axis_arg(t):
            return t.op == "arg" and (t.get("name") == "axis" or (k_axis is not None and t.get("index") == k_axis))

        def decide(a):
            # the valuation "the primitive was called with axis=None"
            if a.op == "cmp" and a.opname in ("Is", "Eq") and ((is_axis_arg(a.l) and a.r.op == "const" and a.r.value is None) or (is_axis_arg(a.r) and a.l.op == "const" and a.l.value is None)):
                return True
            if is_axis_arg(a):
                return False  # truthiness of None
            return None

        for root in (ir.made, ir.result):
            if root is None:
                continue
            sp = specialise(unseq(expand(world.ev, root, ())), decide)
            for t in _walk(sp):
                if t.op != "call":
                    continue
                ref, pre = resolve_callee(world.ev, t)
                if ref is None or not is_numpy_callable(ref) or base_name(ref) not in fl:
                    continue
                qsig = world.env.signature(ref.qual)
                if not qsig or "axis" not in qsig["pos"] + qsig["kwonly"]:
                    continue
                allargs = list(pre) + list(t.args)
                if any(a.op == "star" for a in allargs) or t.get("dstar"):
                    continue
                if "axis" in t.kw:
                    ax = t.kw["axis"]
                elif "axis" in qsig["pos"] and qsig["pos"].index("axis") < len(allargs):
                    ax = allargs[qsig["pos"].index("axis")]
                else:
                    ax = None  # left at the callee's default
                n += 1
                inst = f"{construct_of(e)} -> {base_name(ref)}"
                if ax is None:
                    dflt = qsig["defaults"].get("axis", None)
                    ok = dflt is None
                else:
                    ok = is_axis_arg(ax) or (ax.op == "const" and ax.value is None)
                if not ok and allargs:
                    # the rule flattened the operand itself: any axis of a 1-D array is the flattened array
                    op0 = allargs[0]
                    r0, _ = resolve_callee(world.ev, op0) if op0.op == "call" else (None, None)
                    if r0 is not None and is_numpy_callable(r0) and base_name(r0) in ("ravel", "flatten"):
                        ok = True
                    elif op0.op == "call" and op0.fn.op == "attr" and op0.fn.name in ("ravel", "flatten"):
                        ok = True
                    elif r0 is not None and is_numpy_callable(r0) and base_name(r0) == "reshape" and len(op0.args) >= 2 and ((op0.args[1].op == "const" and op0.args[1].value == -1) or (op0.args[1].op in ("tuple", "list") and len(op0.args[1].elts) == 1)):
                        ok = True
                if ok:
                    ctx.ob("A7.none", inst, True, e.loc)
                else:
                    ctx.fail("A7.none", inst, f"{e.mode}:{e.prim_id}|none-axis:{base_name(ref)}", e.loc, f"on the path where {base_name(e.prim)} was called with axis=None (the flattened array) the rule calls {base_name(ref)} with axis={str(ax)[:60]}: an explicit axis moves different elements than the flattened operation did", f"{base_name(e.prim)}(x, ...) without an axis on an array with ndim >= 2")
    ctx.floor(f"A7.none calls ({'+'.join(modes)})", n, 1 if "vjp" in modes else 0)  # today's JVP table has no such call (roll, cumsum, ... are registered as 'same')


def zero_shapes(ctx, world, modes=("vjp", "jvp")):
    """A7.zero - the clause of A7 that matters for exact zeros: where a rule BUILDS the zero it returns on an
    independent / empty path (zeros(shape), full(shape, 0), ...), a shape computed from an axis parameter by
    arithmetic or slicing is a different shape when the axis is written negatively - the zero then lives in the wrong
    space and silently broadcasts (or empties) whatever it is added to."""
    from ..tutil import expand

    ctx.describe("A7.zero", "the shape handed to zeros / ones / empty / full inside a rule is not computed from an axis parameter by arithmetic or slice bounds (unless sanitised): such a shape is wrong for a negative axis, and a zero of the wrong shape broadcasts silently")
    n = 0
    for e in world.table.entries:
        if e.spec != "maker" or e.mode not in modes or not world.in_numpy_scope(e):
            continue
        ir = world.ir(e)
        if ir is None or not ir.ok:
            continue
        pos, names = axis_param_names(world, e)
        if not pos and not names:
            continue
        probe = AxisTaint(world, pos, names)
        for root in (ir.made if e.mode == "vjp" else None, ir.result):
            if root is None:
                continue
            from ..terms import walk as _walk

            for t in _walk(expand(world.ev, root, ())):
                if t.op != "call" or not t.args:
                    continue
                ref, pre = resolve_callee(world.ev, t)
                if ref is None or not is_numpy_callable(ref) or base_name(ref) not in ("zeros", "ones", "empty", "full") or pre:
                    continue
                shp = t.kw.get("shape", t.args[0])
                if not _mentions(shp, probe.is_src):
                    continue
                n += 1
                A = AxisTaint(world, pos, names)
                A.of(shp)
                inst = f"{construct_of(e)}|{base_name(ref)}({(norm_text(shp.node) if shp.node is not None else '?')[:40]})"
                if not A.sinks:
                    ctx.ob("A7.zero", inst, True, e.loc)
                else:
                    kind, txt, line = A.sinks[0]
                    ctx.fail("A7.zero", inst, f"{e.mode}:{e.prim_id}|zero-shape:{txt}", f"{e.mod.relpath}:{line}", f"the shape of the zero built by this rule uses `{txt}` ({kind}): for a negative axis it is a different shape", "the empty / independent case reached with the axis left at a negative default (e.g. np.diff of a length-1 array, axis=-1)")
    ctx.floor(f"A7.zero constructor shapes that depend on an axis ({'+'.join(modes)})", n, 1 if "vjp" in modes else 0)
