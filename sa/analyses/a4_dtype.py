"""A4.dtypecmp - kind decisions on dtypes.  `np.dtype("complex64") == complex` is False: comparing a dtype with a Python
scalar type by equality / identity / membership recognises only the ONE dtype NumPy maps that type to (complex128,
float64, the platform int), so a real/complex (or float/int) decision made that way silently misclassifies every other
width.  Kind decisions go through iscomplexobj / issubdtype / dtype.kind."""
import ast

from ..model import norm_text
from .common import loc_of

SCALAR_TYPES = {"builtins.complex", "builtins.float", "builtins.int", "builtins.bool"}


def _mentions_dtype(e):
    for x in ast.walk(e):
        if isinstance(x, ast.Attribute) and x.attr == "dtype":
            return True
        if isinstance(x, ast.Name) and "dtype" in x.id.lower():
            return True
        if isinstance(x, ast.Call) and isinstance(x.func, ast.Attribute) and x.func.attr in ("result_type", "promote_types", "dtype", "common_type"):
            return True
    return False


def dtype_comparisons(ctx, world):
    ctx.describe("A4.dtypecmp", "no comparison (==, !=, is, is not, in, not in) of a dtype-valued expression with the Python scalar types complex / float / int / bool: equality holds for exactly one width (complex128 / float64), so a complex64 or float32 value takes the other branch; kind tests use iscomplexobj / issubdtype / .kind")
    n = 0
    for mod in world.repo.mods.values():
        if mod.name.startswith(("autograd.scipy",)):
            continue
        for x in ast.walk(mod.tree):
            if not isinstance(x, ast.Compare):
                continue
            operands = [x.left] + list(x.comparators)
            scal = []
            for o in operands:
                cands = list(o.elts) if isinstance(o, (ast.Tuple, ast.List, ast.Set)) else [o]
                for c in cands:
                    if isinstance(c, (ast.Name, ast.Attribute)):
                        r = world.repo.resolve_expr(mod, c)
                        if r is not None and getattr(r, "qual", None) in SCALAR_TYPES:
                            scal.append(c)
            if not scal:
                continue
            others = [o for o in operands if not any(s is o or (isinstance(o, (ast.Tuple, ast.List, ast.Set)) and s in o.elts) for s in scal)]
            if not any(_mentions_dtype(o) for o in others):
                continue
            n += 1
            inst = f"{mod.name}:{norm_text(x)[:60]}"
            ctx.fail("A4.dtypecmp", inst, f"dtypecmp:{mod.name}|{norm_text(x)[:80]}", loc_of(mod, x), f"`{norm_text(x)[:70]}` compares a dtype with a Python scalar type: true for one width only (complex128 / float64)", "the same call with complex64 (or float32) operands: the kind decision takes the other branch, e.g. the imaginary part of a cotangent is dropped")
        # issubclass(dtype.type, complex) / isinstance(dtype.type(..), complex): the Python class hierarchy knows only
        # complex128 (and float64) as subclasses of the builtin scalar types
        for x in ast.walk(mod.tree):
            if not (isinstance(x, ast.Call) and isinstance(x.func, ast.Name) and x.func.id in ("issubclass", "isinstance") and len(x.args) == 2 and not x.keywords):
                continue
            fr = world.repo.resolve_expr(mod, x.func)
            if fr is None or fr.qual not in ("builtins.issubclass", "builtins.isinstance", "autograd.builtins.isinstance"):
                continue
            cands = list(x.args[1].elts) if isinstance(x.args[1], (ast.Tuple, ast.List)) else [x.args[1]]
            scal = [c for c in cands if isinstance(c, (ast.Name, ast.Attribute)) and (lambda r: r is not None and getattr(r, "qual", None) in ("builtins.complex", "builtins.float"))(world.repo.resolve_expr(mod, c))]
            sub_ = x.args[0]
            is_type_of_dtype = isinstance(sub_, ast.Attribute) and sub_.attr == "type" and _mentions_dtype(sub_.value)
            if not fr.qual.endswith("issubclass") or not scal or not is_type_of_dtype:
                continue
            n += 1
            inst = f"{mod.name}:{norm_text(x)[:60]}"
            ctx.fail("A4.dtypecmp", inst, f"dtypecmp:{mod.name}|{norm_text(x)[:80]}", loc_of(mod, x), f"`{norm_text(x)[:70]}` asks the Python class hierarchy about a dtype's scalar type: only complex128 / float64 derive from the builtin complex / float", "the same call with complex64 (or clongdouble) operands: the value is classified as real and the imaginary part of its cotangent is dropped")
    ctx.ob("A4.dtypecmp", "dtype-valued expressions are never compared with Python scalar types", True, "autograd/*", nontrivial=False) if n == 0 else None


def cotangent_template(ctx, world):
    """A4.template: repeat_to_match_shape(g, shape, dtype, axis, keepdims) rebuilds a cotangent in the space of the
    differentiated argument: its shape and dtype operands have to be taken from THAT argument on every path (the
    reduction's own dtype= option describes the accumulator of the forward pass, not the argument)."""
    from ..ruleir import leaves
    from ..terms import walk
    from ..tutil import expand, unseq
    from .common import construct_of

    ctx.describe("A4.template", "in every VJP rule the shape and dtype handed to repeat_to_match_shape derive from the differentiated argument on every path (shape(x) / result_type(x) / metadata(x)), never from another parameter of the primitive such as the reduction's dtype= option")
    n = 0
    for e in world.table.entries:
        if e.mode != "vjp" or e.spec != "maker" or not world.in_numpy_scope(e) or not isinstance(e.argnum, int):
            continue
        ir = world.ir(e)
        if ir is None or not ir.ok:
            continue
        calls = []
        for root in (ir.made, ir.result):
            if root is None:
                continue
            for t in walk(unseq(expand(world.ev, root, {"autograd.numpy.numpy_vjps.repeat_to_match_shape"}))):
                if t.op == "call" and t.fn.op == "ref" and t.fn.ref.qual == "autograd.numpy.numpy_vjps.repeat_to_match_shape" and not any(t is c for c in calls):
                    calls.append(t)
        for c in calls:
            n += 1
            inst = construct_of(e)
            bad = None
            for pos, pname in ((1, "shape"), (2, "dtype")):
                op_ = c.args[pos] if len(c.args) > pos else c.kw.get(pname)
                if op_ is None:
                    continue
                for _conds, leaf in leaves(world.ev, op_):
                    args_in = [x for x in walk(leaf) if x.op == "arg" and isinstance(x.index, int)]
                    foreign = [x for x in args_in if x.index != e.argnum]
                    own = [x for x in args_in if x.index == e.argnum]
                    if foreign and not own and bad is None:
                        bad = (pname, foreign[0])
            if bad is None:
                ctx.ob("A4.template", inst, True, e.loc)
            else:
                pname, a = bad
                ctx.fail("A4.template", inst, f"vjp:{e.prim_id}|template-{pname}", e.loc, f"on some path the {pname} of the rebuilt cotangent is the primitive's parameter `{a.get('name') or a.index}`, not a property of the differentiated argument", "the reduction called with dtype= different from the argument's dtype (np.sum(x, dtype=np.float32) on float64 x; dtype=float64 on a complex x): the gradient has the accumulator's dtype / kind")
    ctx.floor("A4.template repeat_to_match_shape call sites in VJP rules", n, 3)
