"""A4.dtypecmp - kind decisions on dtypes.  `np.dtype("complex64") == complex` is False: comparing a dtype with a Python
scalar type by equality / identity / membership recognises only the ONE dtype NumPy maps that type to (complex128,
float64, the platform int), so a real/complex (or float/int) decision made that way silently misclassifies every other
width.  Kind decisions go through iscomplexobj / issubdtype / dtype.kind."""
import ast

from ..model import norm_text
from .common import loc_of

SCALAR_TYPES = {"builtins.complex", "builtins.float", "builtins.int", "builtins.bool"}


def _mentions_dtype(e):
    for x in ast.walk(e):
        if isinstance(x, ast.Attribute) and x.attr == "dtype":
            return True
        if isinstance(x, ast.Name) and "dtype" in x.id.lower():
            return True
        if isinstance(x, ast.Call) and isinstance(x.func, ast.Attribute) and x.func.attr in ("result_type", "promote_types", "dtype", "common_type"):
            return True
    return False


def dtype_comparisons(ctx, world):
    ctx.describe("A4.dtypecmp", "no comparison (==, !=, is, is not, in, not in) of a dtype-valued expression with the Python scalar types complex / float / int / bool: equality holds for exactly one width (complex128 / float64), so a complex64 or float32 value takes the other branch; kind tests use iscomplexobj / issubdtype / .kind")
    n = 0
    for mod in world.repo.mods.values():
        if mod.name.startswith(("autograd.scipy",)):
            continue
        for x in ast.walk(mod.tree):
            if not isinstance(x, ast.Compare):
                continue
            operands = [x.left] + list(x.comparators)
            scal = []
            for o in operands:
                cands = list(o.elts) if isinstance(o, (ast.Tuple, ast.List, ast.Set)) else [o]
                for c in cands:
                    if isinstance(c, (ast.Name, ast.Attribute)):
                        r = world.repo.resolve_expr(mod, c)
                        if r is not None and getattr(r, "qual", None) in SCALAR_TYPES:
                            scal.append(c)
            if not scal:
                continue
            others = [o for o in operands if not any(s is o or (isinstance(o, (ast.Tuple, ast.List, ast.Set)) and s in o.elts) for s in scal)]
            if not any(_mentions_dtype(o) for o in others):
                continue
            n += 1
            inst = f"{mod.name}:{norm_text(x)[:60]}"
            ctx.fail("A4.dtypecmp", inst, f"dtypecmp:{mod.name}|{norm_text(x)[:80]}", loc_of(mod, x), f"`{norm_text(x)[:70]}` compares a dtype with a Python scalar type: true for one width only (complex128 / float64)", "the same call with complex64 (or float32) operands: the kind decision takes the other branch, e.g. the imaginary part of a cotangent is dropped")
    ctx.ob("A4.dtypecmp", "dtype-valued expressions are never compared with Python scalar types", True, "autograd/*", nontrivial=False) if n == 0 else None
