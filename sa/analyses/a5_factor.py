"""A5 - cross-table factor agreement: for an elementwise primitive the VJP  g -> cast(unbroadcast(g * D))
and the JVP  g -> cast(broadcast(g * D'))  are adjoint iff D == D' (a diagonal operator is self-adjoint).
Both bodies are brought to a normal form (exact rational-function arithmetic over opaque atoms) and
compared."""
from fractions import Fraction

from .. import facts
from ..terms import T, const
from .common import base_name, construct_of, is_numpy_callable, project, resolve_callee

ALIASES = {"absolute": "abs", "conjugate": "conj", "true_divide": "divide", "remainder": "mod"}


class NF:
    """sum of monomials: {((atom, exp), ...sorted): Fraction coefficient}"""

    def __init__(self, terms=None):
        self.t = {k: v for k, v in (terms or {}).items() if v != 0}

    @staticmethod
    def const(c):
        return NF({(): c})

    @staticmethod
    def atom(s):
        return NF({((s, Fraction(1)),): Fraction(1)})

    def __add__(self, o):
        d = dict(self.t)
        for k, v in o.t.items():
            d[k] = d.get(k, 0) + v
        return NF(d)

    def scale(self, c):
        return NF({k: v * c for k, v in self.t.items()})

    def __mul__(self, o):
        d = {}
        for k1, v1 in self.t.items():
            for k2, v2 in o.t.items():
                m = dict(k1)
                for a, e in k2:
                    m[a] = m.get(a, 0) + e
                key = tuple(sorted((a, e) for a, e in m.items() if e != 0))
                d[key] = d.get(key, 0) + v1 * v2
        return NF(d)

    def single(self):
        return len(self.t) == 1

    def inverse(self):
        (k, v), = self.t.items()
        return NF({tuple(sorted((a, -e) for a, e in k)): 1 / v})

    def power(self, c):
        (k, v), = self.t.items()
        if v < 0 and c.denominator != 1:
            return None
        try:
            coef = Fraction(v) ** c if c.denominator == 1 else Fraction(float(v) ** float(c)).limit_denominator(10**9)
        except Exception:
            return None
        return NF({tuple(sorted((a, e * c) for a, e in k)): coef})

    def key(self):
        return tuple(sorted((k, v) for k, v in self.t.items()))

    def text(self):
        if not self.t:
            return "0"
        parts = []
        for k, v in sorted(self.t.items()):
            mono = "*".join(a if e == 1 else f"{a}^{e}" for a, e in k)
            parts.append(f"{v}*{mono}" if mono and v != 1 else (mono or str(v)))
        return " + ".join(parts)


MASK_MARKERS = (" NotEq ", " Eq ", " Lt ", " LtE ", " Gt ", " GtE ", " Is ", " IsNot ", "if(", "logical_", "where(", "isclose(", "isfinite(", "isnan(", "signbit(")


def _skeleton(nf):
    """the normal form with every mask / selection atom replaced by one placeholder"""
    out = {}
    for k, v in nf.t.items():
        mono = {}
        for atom_, e in k:
            name = "<mask>" if any(m_ in atom_ for m_ in MASK_MARKERS) else atom_
            mono[name] = mono.get(name, 0) + e
        key = tuple(sorted(mono.items()))
        out[key] = out.get(key, 0) + v
    return tuple(sorted((k, v) for k, v in out.items() if v != 0))


class Canon:
    def __init__(self, world, prim, nin):
        self.world, self.ev = world, world.ev
        self.prim, self.nin = prim, nin
        self.memo = {}

    def depends_on_g(self, t, depth=0):
        from ..terms import walk

        for x in walk(t):
            if x.op == "sym" and x.get("role") == "g":
                return True
        return False

    def nf(self, t, depth=0):
        k = id(t)
        if k in self.memo:
            return self.memo[k][1]
        r = self._nf(t, depth)
        self.memo[k] = (t, r)
        return r

    def atom_text(self, t, depth=0):
        """canonical text of a non-arithmetic term"""
        o = t.op
        if depth > 30:
            return "..."
        if o == "sym":
            if t.get("role") == "ans" and self.nin:
                return self._ans_text()
            return t.name
        if o == "arg":
            return f"arg{t.index}" if t.index is not None else f"kw:{t.name}"
        if o == "const":
            return repr(t.value)
        if o == "ref":
            q = t.ref.qual
            return "pi" if q.endswith(".pi") else q
        if o == "call":
            ref, pre = resolve_callee(self.ev, t)
            args = list(pre) + list(t.args)
            if ref is not None and is_numpy_callable(ref):
                bn = ALIASES.get(base_name(ref), base_name(ref))
                a = ",".join(self.nf(x, depth + 1).text() for x in args)
                kw = ",".join(f"{k}={self.nf(v, depth + 1).text()}" for k, v in sorted(t.kw.items()))
                return f"{bn}({a}{';' + kw if kw else ''})"
            r = self.ev.inline(t)
            if r is not None:
                return self.nf(r, depth + 1).text()
            a = ",".join(self.nf(x, depth + 1).text() for x in args)
            return f"{ref.qual if ref else '?'}({a})"
        if o == "cmp":
            return f"({self.nf(t.l, depth + 1).text()} {t.opname} {self.nf(t.r, depth + 1).text()})"
        if o == "attr":
            if t.name in ("shape", "ndim", "size", "real", "imag"):
                return f"{t.name}({self.nf(t.obj, depth + 1).text()})"
            return f"{self.atom_text(t.obj, depth + 1)}.{t.name}"
        if o == "sub":
            return f"{self.atom_text(t.obj, depth + 1)}[{self.atom_text(t.idx, depth + 1)}]"
        if o in ("tuple", "list"):
            return "(" + ",".join(self.nf(x, depth + 1).text() for x in t.elts) + ")"
        if o == "if":
            return f"if({self.atom_text(t.cond, depth + 1)}?{self.nf(t.then, depth + 1).text()}:{self.nf(t.other, depth + 1).text()})"
        if o == "bin":
            return f"({self.nf(t.l, depth + 1).text()} {t.opname} {self.nf(t.r, depth + 1).text()})"
        if o == "un":
            return f"({t.opname} {self.nf(t.x, depth + 1).text()})"
        if o == "bool":
            return "(" + f" {t.opname} ".join(self.atom_text(v, depth + 1) for v in t.vals) + ")"
        if o == "seq":
            return self.nf(t.value, depth + 1).text()
        if o == "slice":
            return f"{self.atom_text(t.lo, depth+1)}:{self.atom_text(t.hi, depth+1)}:{self.atom_text(t.step, depth+1)}"
        return f"<{o}>"

    def _ans_text(self):
        bn = ALIASES.get(base_name(self.prim), base_name(self.prim))
        return f"{bn}({','.join('arg%d' % i for i in range(self.nin))})"

    def _nf(self, t, depth):
        o = t.op
        if depth > 40:
            return NF.atom("...")
        if o == "const" and isinstance(t.value, (int, float)) and not isinstance(t.value, bool):
            try:
                return NF.const(Fraction(t.value))
            except Exception:
                return NF.atom(repr(t.value))
        if o == "const" and isinstance(t.value, complex):
            if t.value.real == 0:
                return NF.atom("1j").scale(Fraction(t.value.imag))
            return NF.atom(repr(t.value))
        if o == "bin":
            op = t.opname
            if op == "Add":
                return self.nf(t.l, depth + 1) + self.nf(t.r, depth + 1)
            if op == "Sub":
                return self.nf(t.l, depth + 1) + self.nf(t.r, depth + 1).scale(-1)
            if op == "Mult":
                return self.nf(t.l, depth + 1) * self.nf(t.r, depth + 1)
            if op == "Div":
                d = self.nf(t.r, depth + 1)
                if d.single():
                    return self.nf(t.l, depth + 1) * d.inverse()
                return self.nf(t.l, depth + 1) * NF({(("(" + d.text() + ")", Fraction(-1)),): Fraction(1)})
            if op == "Pow":
                e = self.nf(t.r, depth + 1)
                if list(e.t.keys()) == [()]:
                    c = e.t[()]
                    b = self.nf(t.l, depth + 1)
                    if b.single():
                        p = b.power(c)
                        if p is not None:
                            return p
                    return NF({(("(" + b.text() + ")", c),): Fraction(1)})
            return NF.atom(self.atom_text(t, depth))
        if o == "un" and t.opname == "USub":
            return self.nf(t.x, depth + 1).scale(-1)
        if o == "un" and t.opname == "UAdd":
            return self.nf(t.x, depth + 1)
        if o == "seq":
            return self.nf(t.value, depth + 1)
        if o == "call":
            ref, pre = resolve_callee(self.ev, t)
            args = list(pre) + list(t.args)
            if ref is not None:
                q = ref.qual
                # shape / kind plumbing is stripped here (decided by A3 / A4)
                if q == "autograd.numpy.numpy_vjps.unbroadcast" and args:
                    return self.nf(args[0], depth + 1)
                if q == "autograd.numpy.numpy_jvps.broadcast" and args:
                    return self.nf(args[0], depth + 1)
                if q == "autograd.numpy.numpy_vjps.match_complex" and len(args) >= 2:
                    return self.nf(args[1], depth + 1)
                if is_numpy_callable(ref):
                    bn = base_name(ref)
                    if bn in ("zeros", "zeros_like"):
                        return NF.atom("<zeros>")  # an all-zero array of whatever (broadcastable) shape
                    if bn == "real" and args and self.depends_on_g(args[0]):
                        return self.nf(args[0], depth + 1)
                    if bn in ("negative",) and len(args) == 1:
                        return self.nf(args[0], depth + 1).scale(-1)
                    if bn in ("multiply",) and len(args) == 2:
                        return self.nf(args[0], depth + 1) * self.nf(args[1], depth + 1)
                    if bn in ("divide", "true_divide") and len(args) == 2:
                        return self._nf(T("bin", t.node, t.mod, opname="Div", l=args[0], r=args[1]), depth + 1)
                    if bn in ("deg2rad", "radians") and len(args) == 1:
                        return self.nf(args[0], depth + 1) * NF.atom("pi") * NF.const(Fraction(1, 180))
                    if bn in ("rad2deg", "degrees") and len(args) == 1:
                        return self.nf(args[0], depth + 1) * NF.atom("pi").inverse() * NF.const(Fraction(180))
                    if bn in ("square",) and len(args) == 1:
                        a = self.nf(args[0], depth + 1)
                        return a * a
                    if bn in ("reciprocal",) and len(args) == 1:
                        a = self.nf(args[0], depth + 1)
                        if a.single():
                            return a.inverse()
            r = self.ev.inline(t)
            if r is not None:
                return self.nf(r, depth + 1)
            return NF.atom(self.atom_text(t, depth))
        if o == "sym" and t.get("role") == "g":
            return NF.atom("g")
        if o == "ref" and t.ref.qual.endswith(".pi"):
            return NF.atom("pi")
        return NF.atom(self.atom_text(t, depth))


def elementwise_nin(world, prim):
    if not is_numpy_callable(prim):
        return None
    ns, _, name = prim.qual.rpartition(".")
    uf = world.env.ufunc(ns, name)
    if uf is not None:
        return uf.nin if uf.signature is None else None  # generalised ufuncs (matmul) are not elementwise
    bn = base_name(prim)
    el = facts.load("broadcasting")["elementwise_functions"]
    if bn in el and bn != "_doc":
        sig = world.env.signature(prim.qual)
        return {"where": 3, "clip": 3}.get(bn, 1)
    return None


def same_term(prim_ref, nin, argnum):
    """Term of  prim(arg0, .., g at argnum, ..)  for a 'same' JVP."""
    args = []
    for i in range(nin):
        if i == argnum:
            args.append(T("sym", name="g", role="g"))
        else:
            args.append(T("arg", index=i, name=None, default=None))
    return T("call", fn=T("ref", ref=prim_ref), args=args, kw={}, dstar=[], ctx=(0, ()))


def agree(ctx, world):
    ctx.describe("A5", "for every elementwise primitive with a rule in both tables, the VJP factor and the JVP factor have equal normal forms (alpha-renaming by role, helpers inlined, ans -> P(args), shape/kind casts stripped, exact rational arithmetic over opaque atoms)")
    vj, jv = {}, {}
    for e in world.table.entries:
        if not world.in_numpy_scope(e) or not isinstance(e.argnum, int) and e.spec != "linear":
            continue
        (vj if e.mode == "vjp" else jv).setdefault(e.prim_id, {})[e.argnum] = e
    n = 0
    for pid in sorted(set(vj) & set(jv)):
        any_e = next(iter(vj[pid].values()))
        nin = elementwise_nin(world, any_e.prim)
        if nin is None:
            continue
        for k in sorted(vj[pid], key=str):
            ve = vj[pid][k]
            je = jv[pid].get(k) or jv[pid].get(None)
            if je is None or ve.spec != "maker" or not isinstance(k, int):
                continue
            if je.spec == "none":
                continue
            vir = world.ir(ve)
            if vir is None or not vir.ok:
                ctx.ob("A5", f"{pid}[{k}]", None, ve.loc)
                continue
            C = Canon(world, ve.prim, nin)
            a = C.nf(vir.result)
            if je.spec in ("same", "linear"):
                jt = same_term(ve.prim, nin, k)
            else:
                jir = world.ir(je)
                if jir is None or not jir.ok:
                    ctx.ob("A5", f"{pid}[{k}]", None, je.loc)
                    continue
                jt = jir.result
            b = C.nf(jt)
            n += 1
            inst = f"{pid}[{k}]"
            if a.key() == b.key():
                ctx.ob("A5", inst, True, ve.loc, sample=a.text()[:160])
            elif _skeleton(a) == _skeleton(b):
                # the two factors have the same rational structure and differ only inside a selection / mask
                # sub-expression (comparison, logical_*, where, conditional on an optional bound ...), which this
                # normal form treats as an uninterpreted atom: two spellings of the same mask (ans != None versus
                # ans != -inf for an absent bound) cannot be told apart from different masks - undecided, not a verdict
                ctx.ob("A5", inst, None, ve.loc, sample=f"masks differ: vjp {a.text()[:100]} | jvp {b.text()[:100]}")
            else:
                ctx.fail(
                    "A5",
                    inst,
                    f"factor:{pid}[{k}]",
                    f"{ve.loc} / {je.loc}",
                    f"VJP factor and JVP factor differ:  vjp = {a.text()[:200]}   jvp = {b.text()[:200]}",
                    "any generic point x and any v, g: <g, JVP(v)> != <VJP(g), v>; one of the two tables computes a wrong derivative",
                    sample=f"vjp {a.text()[:120]} | jvp {b.text()[:120]}",
                )
    ctx.floor("A5 factor pairs", n, 55)


def alias_agree(ctx, world, modes=("vjp", "jvp")):
    """A5.alias - two names of ONE NumPy function (np.abs is np.absolute, np.divide is np.true_divide, np.mod is
    np.remainder, np.conj is np.conjugate) are wrapped as separate primitives with separately written rules: the
    rules have to be the same function (equal normal forms), otherwise the derivative depends on the spelling."""
    ctx.describe("A5.alias", "primitives that wrap the same NumPy function object under two names have rules with equal normal forms, per mode and argument (same normal form as A5: helpers inlined, ans -> P(args), casts stripped)")
    np_ = world.env.np if hasattr(world.env, "np") else None
    groups = {}
    for e in world.table.entries:
        if e.mode not in modes or e.spec != "maker" or not isinstance(e.argnum, int) or not world.in_numpy_scope(e):
            continue
        if e.prim is None or e.prim.kind != "wrapped" or not e.prim.qual.startswith("numpy."):
            continue
        try:
            obj = world.env.get_dotted(e.prim.qual)
        except Exception:
            obj = None
        if obj is None:
            continue
        groups.setdefault((id(obj), e.mode, e.argnum), []).append(e)
    n = 0
    for (oid, mode, k), ents in sorted(groups.items(), key=lambda kv: (kv[1][0].prim_id, kv[0][1], kv[0][2])):
        names = sorted({e.prim_id for e in ents})
        if len(names) < 2:
            continue
        forms = []
        for e in ents:
            nin = elementwise_nin(world, e.prim)
            ir = world.ir(e)
            if nin is None or ir is None or not ir.ok:
                forms = None
                break
            forms.append((e, Canon(world, e.prim, nin).nf(ir.result)))
        if not forms:
            continue
        n += 1
        inst = f"{mode}:{' = '.join(names)}[{k}]"
        ref_e, ref_nf = forms[0]
        diff = [(e, a) for e, a in forms[1:] if a.key() != ref_nf.key()]
        if not diff:
            ctx.ob("A5.alias", inst, True, ref_e.loc, sample=ref_nf.text()[:120])
        else:
            e2, a2 = diff[0]
            ctx.fail("A5.alias", inst, f"alias:{mode}:{'='.join(names)}[{k}]", f"{ref_e.loc} / {e2.loc}", f"{ref_e.prim_id} and {e2.prim_id} are the same NumPy function but their {mode.upper()} rules differ:  {ref_e.prim_id}: {ref_nf.text()[:120]}   {e2.prim_id}: {a2.text()[:120]}", "the point where the two formulas differ (x = 0 for abs / absolute: 0 versus nan)")
    ctx.floor("A5.alias alias groups with rules", n, 2)


_MASK_FN = {
    "equal": "eq", "not_equal": "ne", "less": "lt", "greater": "lt", "less_equal": "le", "greater_equal": "le", "isclose": "isclose",
    "sign": "sign", "signbit": "signbit", "isnan": "isnan", "isfinite": "isfinite", "isinf": "isinf", "iscomplex": "iscomplex", "isreal": "isreal", "heaviside": "heaviside",
}
_MASK_CMP = {"Eq": "eq", "NotEq": "ne", "Lt": "lt", "Gt": "lt", "LtE": "le", "GtE": "le"}
_MASK_NEG = {"eq": "ne", "ne": "eq", "lt": "le", "le": "lt"}
_STRUCT_ATTR = {"shape", "ndim", "dtype", "size"}
_STRUCT_FN = {"shape", "ndim", "size", "result_type", "iscomplexobj", "isscalar"}
_STRUCT_REPO = ("builtins.len", "builtins.isinstance", "builtins.type", "autograd.core.vspace", "autograd.extend.vspace")


def _mask_signatures(world, result, diff_roles):
    """the selection predicates a rule applies to the primal VALUES (its differentiable operands and its answer) in
    value position: (predicate class, operand roles).  Tests in `if` conditions, assertions and anything computed from
    shapes / dtypes are control flow or plumbing, not part of the linear map, and are left out."""
    from ..terms import children
    from ..tutil import expand

    ev = world.ev

    def structural(t):
        if t.op == "attr" and t.name in _STRUCT_ATTR:
            return True
        if t.op == "call":
            r, _ = resolve_callee(ev, t)
            if r is not None:
                if is_numpy_callable(r):
                    return base_name(r) in _STRUCT_FN
                return r.qual in _STRUCT_REPO or r.qual.endswith(".metadata")
        return False

    def roles(t, acc, seen):
        if t is None or id(t) in seen or structural(t):
            return
        seen.add(id(t))
        if t.op == "sym" and t.get("role") == "ans":
            acc.add("ans")
        if t.op == "arg" and t.get("index") is not None:
            acc.add(t.index)
        for c in children(t):
            roles(c, acc, seen)

    out = []
    seen = set()

    def collect(t, neg):
        if t is None or (id(t), neg) in seen:
            return
        seen.add((id(t), neg))
        if t.op == "if":
            collect(t.then, False)
            collect(t.other, False)
            return
        if t.op in ("raise", "assert", "when") or structural(t):
            return
        kind, ops, flip = None, [], False
        if t.op == "cmp" and t.opname in _MASK_CMP:
            kind, ops = _MASK_CMP[t.opname], [t.l, t.r]
        elif t.op == "un" and t.opname in ("Invert", "Not"):
            collect(t.x, not neg)
            return
        elif t.op == "bin" and t.opname in ("BitOr", "BitAnd"):
            collect(t.l, neg)
            collect(t.r, neg)
            return
        elif t.op == "call":
            r, _ = resolve_callee(ev, t)
            if r is not None and is_numpy_callable(r):
                bn = base_name(r)
                if bn in ("logical_not", "invert", "bitwise_not") and t.args:
                    collect(t.args[0], not neg)
                    return
                if bn in ("logical_or", "logical_and", "bitwise_or", "bitwise_and") and len(t.args) >= 2:
                    # De Morgan: the negation of a conjunction / disjunction of selections negates each of them
                    for a_ in t.args[:2]:
                        collect(a_, neg)
                    return
                if bn in _MASK_FN:
                    kind, ops = _MASK_FN[bn], list(t.args)
        if kind is not None:
            acc = set()
            for o in ops:
                roles(o, acc, set())
            acc &= diff_roles
            if acc:
                if neg and kind in _MASK_NEG:
                    kind = _MASK_NEG[kind]
                # !=, < and <= are one class: on operands that are ordered by construction (ans >= a_min) they are
                # interchangeable spellings; == (exact selection) and isclose (tolerance) are not
                kind = "ineq" if kind in ("ne", "lt", "le") else kind
                out.append((kind, tuple(sorted(map(str, acc)))))
        for c in children(t):
            collect(c, False)

    collect(expand(ev, result, ()), False)
    return sorted(set(out))


def mask_agree(ctx, world):
    """A5.mask - where a derivative is defined through a selection on the primal values (which entries attain the
    maximum, which side of a bound, the sign), the VJP and the JVP of that argument must select with the same
    predicate on the same operands: `x == ans` in one table and `isclose(x, ans)` (or `x >= ans`) in the other are two
    different linear maps wherever the predicates disagree, so <g, JVP v> != <VJP g, v> there."""
    ctx.describe("A5.mask", "for every (primitive, argument) with both rules, the set of selection predicates applied in value position to the primal values - comparison class (exact ==, an inequality, isclose, sign, isfinite, ...) and which differentiable operands / answer they compare - is the same in the VJP and in the JVP")
    by = {}
    for e in world.table.entries:
        if e.spec == "maker" and world.in_numpy_scope(e) and is_numpy_callable(e.prim) and isinstance(e.argnum, int) and e.api in ("defvjp", "defjvp"):
            by.setdefault(e.prim_id, {})[(e.mode, e.argnum)] = e
    n = 0
    for pid, d in sorted(by.items()):
        dp = {a for (_, a) in d}
        for a in sorted(dp):
            ev_, ej = d.get(("vjp", a)), d.get(("jvp", a))
            if ev_ is None or ej is None:
                continue
            irv, irj = world.ir(ev_), world.ir(ej)
            if irv is None or irj is None or not irv.ok or not irj.ok:
                continue
            roles_ = set(dp) | {"ans"}
            sv, sj = _mask_signatures(world, irv.result, roles_), _mask_signatures(world, irj.result, roles_)
            if not sv and not sj:
                continue
            n += 1
            inst = f"mask:{pid}[{a}]"
            loc = f"{ev_.loc} / {ej.loc}"
            if sv == sj:
                ctx.ob("A5.mask", inst, True, loc, sample=str(sv))
            else:
                only_v = [s for s in sv if s not in sj]
                only_j = [s for s in sj if s not in sv]
                ctx.fail("A5.mask", inst, inst, loc, f"the VJP selects with {only_v or 'no predicate'} where the JVP selects with {only_j or 'no predicate'} (predicate class, operands compared)", "a point where the two predicates differ (values within isclose tolerance but not equal, a tie, a value on the bound): the two modes then describe different linear maps")
    ctx.floor("A5.mask (primitive, argument) pairs with value selections", n, 10)
