"""Kernel protocol rules on core.py: A13.zero, A13.once, A13.align (defvjp dispatch), A6.raise, A9 (ownership
typestate / purity / in-place sites), A10 (closure re-use), A2.tuple/A2.slot."""
import ast

from ..kfun import calls_in, contains, eval_function, is_call_to, paths, registered_closure, returned_closure, same, strip_seq
from ..model import AnalysisError, norm_text
from ..regs import class_lookup, class_mro
from ..ruleir import apply_value, leaves
from ..terms import Scope, T, children, walk
from ..tutil import atom, cases, expand, specialise, unseq
from .common import loc_of, project

CORE = "autograd.core"


def _is_vspace_zeros(t, of):
    """t == vspace(<of>).zeros()"""
    t = strip_seq(t)
    if t is None or t.op != "call" or t.fn.op != "attr" or t.fn.name != "zeros" or t.args:
        return False
    v = t.fn.obj
    return is_call_to(v, "autograd.core.vspace") and len(v.args) == 1 and of(v.args[0])


# ----------------------------------------------------------------------------------------- make_vjp / make_jvp
KEEP = {
    "autograd.tracer.trace",
    "autograd.core.backward_pass",
    "autograd.core.vspace",
    "autograd.core.VJPNode.new_root",
    "autograd.core.JVPNode.new_root",
    "autograd.util.subval",
    "autograd.util.subvals",
    "autograd.core.add_outgrads",
    "autograd.core.sum_outgrads",
    "autograd.core.translate_vjp",
    "autograd.core.translate_jvp",
    "autograd.core.defvjp_argnums",
    "autograd.core.defjvp_argnums",
    "autograd.core.defjvp_argnum",
    "autograd.core.defvjp_argnum",
    "autograd.util.toposort",
}


def _is_none(t):
    return t.op == "const" and t.value is None


def none_test(is_x):
    """oracle factory for `x is None`: decide(value) resolves `x is None`, `x is not None`, `x == None`, and the
    truthiness of x (objects here are never falsy unless None)"""

    def is_atom(a):
        if a.op == "cmp" and a.opname in ("Is", "Eq") and ((is_x(a.l) and _is_none(a.r)) or (is_x(a.r) and _is_none(a.l))):
            return "none"
        if is_x(a):
            return "truthy"
        return None

    def decide(val):
        def d(a):
            k = is_atom(a)
            if k == "none":
                return val
            if k == "truthy":
                return not val
            return None

        return d

    return is_atom, decide


def _tests(r, is_atom):
    return [t for t in walk(r) if t.op == "if" and is_atom(atom(t.cond)[0])]


def zero_paths(ctx, world):
    ctx.describe("A13.zero", "an output independent of the input gives zeros of the right space and never None: make_vjp -> vspace(x).zeros() (argument's space); make_jvp -> vspace(end_value).zeros() (output's space); translate_vjp(None) -> zeros of vspace(args[argnum]); translate_jvp(None) -> zeros of vspace(ans); the (vjp, value) / (value, tangent) tuple orders.  Decided by case analysis on the `end_node is None` / `rule is None` / `rule == 'same'` / `callable(rule)` atoms, whatever the polarity, order or nesting of the tests")
    ev = world.ev
    # --- make_vjp
    r, syms, m, node, sc = eval_function(world, CORE, "make_vjp")
    loc = loc_of(m, node)
    q = "autograd.core.make_vjp"
    x, fun = syms["#1"], syms["#0"]
    r = unseq(expand(ev, r, KEEP))
    tr = [t for t in walk(r) if is_call_to(t, "autograd.tracer.trace")]
    if not tr:
        raise AnalysisError("make_vjp no longer calls trace()")
    trc = tr[0]
    okroot = len(trc.args) == 3 and trc.args[1] is fun and trc.args[2] is x and trc.args[0].op == "call" and trc.args[0].fn.op == "ref" and trc.args[0].fn.ref.qual == "autograd.core.VJPNode.new_root"
    ctx.ob("A13.zero", "make_vjp: trace(VJPNode.new_root(), fun, x)", bool(okroot), loc)
    if not okroot:
        ctx.fail("A13.zero", "make_vjp:trace-call", f"{q}:trace-call", loc, "make_vjp does not call trace(VJPNode.new_root(), fun, x)", "any reverse-mode call")
    is_val = lambda t: t.op == "sub" and same(t.obj, trc) and t.idx.op == "const" and t.idx.value == 0
    is_node = lambda t: t.op == "sub" and same(t.obj, trc) and t.idx.op == "const" and t.idx.value == 1
    is_atom, decide = none_test(is_node)
    branches = []
    if not _tests(r, is_atom):
        ctx.fail("A13.zero", "make_vjp:none-test", f"{q}:none-test", loc, "make_vjp does not test `end_node is None`", "a function whose output is independent of its input")
    else:
        branches = [("independent", specialise(r, decide(True))), ("dependent", specialise(r, decide(False)))]
    for name, br in branches:
        for c in cases(br):
            b = c.leaf
            if not (b.op == "tuple" and len(b.elts) == 2):
                ctx.fail("A2.tuple", f"make_vjp:{name} returns a pair", f"{q}:{name}-pair", loc, "make_vjp does not return a (vjp, value) pair", "every caller destructures (vjp, value)")
                continue
            f, v = b.elts
            ok = is_val(v) and f.op == "closure"
            if ok:
                ctx.ob("A2.tuple", f"make_vjp:{name} path returns (vjp function, end_value)", True, loc)
            else:
                ctx.fail("A2.tuple", f"make_vjp:{name} order", f"{q}:{name}-order", loc, f"make_vjp's {name} path does not return (vjp function, end_value) in that order (found {str(b)[:80]})", "make_vjp(f)(x): callers call element 0 and return element 1 as the primal value")
                continue
            g = T("sym", name="g", role="g")
            res = unseq(expand(ev, ev.apply(f, [g], {}, []), KEEP))
            if name == "independent":
                if _is_vspace_zeros(res, lambda t: t is x):
                    ctx.ob("A13.zero", "make_vjp: independent output -> vspace(x).zeros()", True, loc)
                else:
                    ctx.fail("A13.zero", "make_vjp:zeros", f"{q}:zeros", loc, f"independent output does not give vspace(x).zeros() (found {str(res)[:80]})", "grad of a constant function w.r.t. an array/container argument: result is None / has the cotangent's space instead of the argument's")
            else:
                ok = is_call_to(res, "autograd.core.backward_pass") and len(res.args) == 2 and not res.kw and res.args[0] is g and is_node(res.args[1])
                if ok:
                    ctx.ob("A13.once", "make_vjp: vjp(g) = backward_pass(g, end_node), fresh state per call", True, loc)
                else:
                    ctx.fail("A13.once", "make_vjp:backward", f"{q}:backward", loc, f"vjp(g) is not backward_pass(g, end_node) (found {str(res)[:80]})", "any reverse-mode call")
    # --- make_jvp
    clo_j, top_j, osy, m, outer_fn, osc = returned_closure(world, CORE, "make_jvp")
    node = clo_j.fnode
    loc = loc_of(m, node)
    q = "autograd.core.make_jvp"
    g = T("sym", name="g", role="param")
    r = unseq(expand(ev, ev.apply(clo_j, [g], {}, []), KEEP))
    tr = [t for t in walk(r) if is_call_to(t, "autograd.tracer.trace")]
    if not tr:
        raise AnalysisError("make_jvp no longer calls trace()")
    trc = tr[0]
    root = trc.args[0]
    okroot = root.op == "call" and root.fn.op == "ref" and root.fn.ref.qual == "autograd.core.JVPNode.new_root" and len(root.args) == 1 and root.args[0] is g
    if okroot:
        ctx.ob("A13.zero", "make_jvp: trace(JVPNode.new_root(g), fun, x)", True, loc)
    else:
        ctx.fail("A13.zero", "make_jvp:root", f"{q}:root", loc, "the forward-mode root node is not JVPNode.new_root(g)", "any forward-mode call")
    is_val = lambda t: t.op == "sub" and same(t.obj, trc) and t.idx.op == "const" and t.idx.value == 0
    is_node = lambda t: t.op == "sub" and same(t.obj, trc) and t.idx.op == "const" and t.idx.value == 1
    is_atom, decide = none_test(is_node)
    if _tests(r, is_atom):
        none_cs, dep_cs = cases(specialise(r, decide(True))), cases(specialise(r, decide(False)))
        ok1 = bool(none_cs) and all(b.leaf.op == "tuple" and len(b.leaf.elts) == 2 and is_val(b.leaf.elts[0]) and _is_vspace_zeros(b.leaf.elts[1], is_val) for b in none_cs)
        ok2 = bool(dep_cs) and all(b.leaf.op == "tuple" and len(b.leaf.elts) == 2 and is_val(b.leaf.elts[0]) and b.leaf.elts[1].op == "attr" and b.leaf.elts[1].name == "g" and is_node(b.leaf.elts[1].obj) for b in dep_cs)
        if ok1:
            ctx.ob("A13.zero", "make_jvp: independent output -> (end_value, vspace(end_value).zeros())", True, loc)
        else:
            ctx.fail("A13.zero", "make_jvp:zeros", f"{q}:zeros", loc, f"independent output does not give (end_value, vspace(end_value).zeros()) (found {str(none_cs[0].leaf)[:90] if none_cs else None})", "forward mode of a constant function whose output space differs from the input's")
        if ok2:
            ctx.ob("A2.tuple", "make_jvp: dependent path returns (end_value, end_node.g)", True, loc)
        else:
            ctx.fail("A2.tuple", "make_jvp:order", f"{q}:order", loc, f"dependent path does not return (end_value, end_node.g) (found {str(dep_cs[0].leaf)[:90] if dep_cs else None})", "make_jvp(f)(x)(v): callers take element 1 as the tangent")
    else:
        ctx.fail("A13.zero", "make_jvp:none-test", f"{q}:none-test", loc, "make_jvp does not test `end_node is None`", "forward mode of a constant function")
    # --- translate_vjp / translate_jvp: classify every path by the atoms it decides
    for which in ("vjp", "jvp"):
        r, syms, m, node, sc = eval_function(world, CORE, f"translate_{which}")
        loc = loc_of(m, node)
        r = unseq(expand(ev, r, KEEP))
        argnum, fun, rf = syms["#2"], syms["#1"], syms["#0"]
        is_none_a = lambda a: a.op == "cmp" and a.opname in ("Is", "Eq") and ((a.l is rf and _is_none(a.r)) or (a.r is rf and _is_none(a.l)))
        is_same_a = lambda a: a.op == "cmp" and a.opname == "Eq" and ((a.l is rf and a.r.op == "const" and a.r.value == "same") or (a.r is rf and a.l.op == "const" and a.l.value == "same"))
        is_call_a = lambda a: is_call_to(a, "builtins.callable") and len(a.args) == 1 and a.args[0] is rf
        got = {"none": [], "same": [], "pass": [], "other": []}
        for c in cases(r):
            if c.pol(is_none_a) is True:
                got["none"].append(c)
            elif which == "jvp" and c.pol(is_same_a) is True:
                got["same"].append(c)
            elif c.pol(is_call_a) is True:
                got["pass"].append(c)
            else:
                got["other"].append(c)
        gs, ans_s, rest0, kwr = T("sym", name="g", role="g"), T("sym", name="ans", role="ans"), T("rest", start=0), T("kwrest")
        # None rule
        ok_none = bool(got["none"])
        for c in got["none"]:
            clo = c.leaf
            if clo.op != "closure":
                ok_none = False
                continue
            if which == "vjp":
                made = ev.apply(clo, [ans_s, T("star", x=rest0)], {}, [kwr])
                res = unseq(expand(ev, apply_value(ev, made, [gs]), KEEP))
                ok_none = ok_none and _is_vspace_zeros(res, lambda t: t.op == "sub" and t.obj.op == "rest" and t.obj.start == 0 and t.idx is argnum)
            else:
                res = unseq(expand(ev, ev.apply(clo, [gs, ans_s, T("star", x=rest0)], {}, [kwr]), KEEP))
                ok_none = ok_none and _is_vspace_zeros(res, lambda t: t is ans_s)
        if which == "vjp":
            nm, why, wit = "translate_vjp(None) -> zeros of vspace(args[argnum])", "a None VJP rule does not give vspace(args[argnum]).zeros()", "a primitive with a None rule whose arguments have different shapes: the zero has another argument's space"
            key = "autograd.core.translate_vjp:none"
        else:
            nm, why, wit = "translate_jvp(None) -> zeros of vspace(ans)", "a None JVP rule does not give vspace(ans).zeros()", "forward mode through a primitive with a None rule whose output space differs from the tangent's"
            key = "autograd.core.translate_jvp:translate_jvp(None)"
        if ok_none:
            ctx.ob("A13.zero", nm, True, loc)
        else:
            ctx.fail("A13.zero", nm if which == "jvp" else "translate_vjp:none", key, loc, why, wit)
        # 'same'
        if which == "jvp":
            ok_same = bool(got["same"])
            for c in got["same"]:
                clo = c.leaf
                if clo.op != "closure":
                    ok_same = False
                    continue
                res = unseq(expand(ev, ev.apply(clo, [gs, ans_s, T("star", x=rest0)], {}, [kwr]), KEEP))
                ok_same = ok_same and _is_same_call(res, fun, argnum, gs, rest0, kwr)
            nm = "translate_jvp('same') -> fun(*subval(args, argnum, g), **kwargs)"
            if ok_same:
                ctx.ob("A13.align", nm, True, loc)
            else:
                ctx.fail("A13.align", nm, "autograd.core.translate_jvp:translate_jvp('same')", loc, "'same' does not substitute the tangent at *argnum* and pass the keywords on", "a 'same' rule registered for argnum 1, or a call with keyword options (axis=...)")
        # callable passes through, everything else raises
        ok_pass = bool(got["pass"]) and all(c.leaf is rf for c in got["pass"]) and bool(got["other"]) and all(c.leaf.op == "raise" for c in got["other"])
        nm = f"translate_{which}: callable passes through, anything else raises"
        if ok_pass:
            ctx.ob("A6.raise", nm, True, loc)
        else:
            ctx.fail("A6.raise", nm if which == "jvp" else "translate_vjp:other", "autograd.core.translate_vjp:other" if which == "vjp" else "autograd.core.translate_jvp:translate_jvp:", loc, f"translate_{which} no longer returns the rule unchanged / raises for a malformed spec", f"def{which} with a malformed rule")
    # def_linear: the rule handed to defjvp_argnum (lambda or def)
    r2, syms2, m, node, sc2 = eval_function(world, CORE, "def_linear")
    ok = False
    regs = [t for e in sc2.effects for t in walk(e) if is_call_to(t, "autograd.core.defjvp_argnum")]
    if len(regs) == 1 and len(regs[0].args) == 2 and regs[0].args[0] is syms2["#0"]:
        clo, pre, prekw = ev.as_closure(regs[0].args[1])
        if clo is not None and not pre and not prekw:
            an, gs, rest0, kwr = T("sym", name="argnum", role="argnum"), T("sym", name="g", role="g"), T("sym", name="args", role="param"), T("sym", name="kwargs", role="param")
            res = unseq(expand(ev, ev.apply(clo, [an, gs, T("sym", name="ans", role="ans"), rest0, kwr], {}, []), KEEP))
            ok = _is_same_call(res, syms2["#0"], an, gs, rest0, kwr)
    if ok:
        ctx.ob("A13.align", "def_linear -> fun(*subval(args, argnum, g), **kwargs)", True, loc_of(m, node))
    else:
        ctx.fail("A13.align", "def_linear", "autograd.core.def_linear", loc_of(m, node), "def_linear's rule is not fun(*subval(args, argnum, g), **kwargs)", "a linear primitive differentiated w.r.t. its second argument or called with keyword options")


def _rule_dict(sc, ev=None, structure=False):
    """the dictionary of translated rules built by defvjp / defjvp: a dict comprehension / loop-built dict (comp
    normal form) or dict(zip(keys, values)), written in place or returned by a module-level helper that is called
    with the pieces; returns the variable's term (identity is what dispatchers capture) - or, with structure=True,
    the dictionary term itself (the helper's body with its parameters bound) - or None"""

    def is_dict(v_):
        if v_.op == "comp" and v_.get("kind") == "DictComp":
            return True
        return is_call_to(v_, "builtins.dict") and len(v_.args) == 1 and not v_.kw and (is_call_to(v_.args[0], "builtins.zip") or v_.args[0].op == "comp")

    for v_ in sc.vars.values():
        if v_ is None:
            continue
        if is_dict(v_):
            return v_
        if ev is not None and v_.op == "call" and v_.fn.op == "ref" and v_.fn.ref.kind == "repo" and isinstance(getattr(v_.fn.ref, "node", None), ast.FunctionDef):
            r_ = ev.inline(v_)
            r_ = unseq(r_) if r_ is not None else None
            if r_ is not None and is_dict(r_):
                return r_ if structure else v_
    return None


def _is_same_call(res, fun, argnum, g, args, kw):
    if res is None or res.op != "call" or res.fn is not fun:
        return False
    if len(res.args) != 1 or res.args[0].op != "star":
        return False
    sv = res.args[0].x
    if not is_call_to(sv, "autograd.util.subval") or len(sv.args) != 3:
        return False
    a0 = sv.args[0]
    ok_args = a0 is args or (a0.op == "rest" and args.op == "rest" and a0.start == args.start)
    ok_kw = len(res.dstar) == 1 and (res.dstar[0] is kw or res.dstar[0].op == kw.op == "kwrest")
    return ok_args and sv.args[1] is argnum and sv.args[2] is g and ok_kw


# ----------------------------------------------------------------------------------------- backward_pass
def backward_pass(ctx, world):
    ctx.describe("A13.once", "backward_pass: within one iteration of the loop over toposort(end_node) the node's cotangent is taken from outgrads at that node, node.vjp is called exactly once on every path, each (parent, ingrad) of zip(node.parents, ingrads) flows into exactly one add_outgrads whose first operand is the current outgrads entry of that parent, and nothing else writes outgrads; the user's cotangent enters as (g, False)")
    m, fn = world.repo.find_def(CORE, "backward_pass")
    loc = loc_of(m, fn)
    q = "autograd.core.backward_pass"
    gp, endp = fn.args.args[0].arg, fn.args.args[1].arg
    # outgrads = {end_node: (g, False)}
    init = None
    og = None
    for st in fn.body:
        if isinstance(st, ast.Assign) and isinstance(st.value, ast.Dict) and len(st.targets) == 1 and isinstance(st.targets[0], ast.Name):
            og = st.targets[0].id
            init = st.value
            break
    if og is None:
        # the accumulator is whatever add_outgrads results are stored into
        for x in ast.walk(fn):
            if isinstance(x, ast.Assign) and isinstance(x.targets[0], ast.Subscript) and isinstance(x.targets[0].value, ast.Name) and isinstance(x.value, ast.Call) and isinstance(x.value.func, ast.Name) and x.value.func.id == "add_outgrads":
                og = x.targets[0].value.id
        if og is None:
            raise AnalysisError("backward_pass: accumulator dict vanished")
        ctx.fail(
            "A13.once",
            "backward_pass: accumulator is a fresh dict per call",
            f"{q}:accumulator-not-fresh",
            loc,
            f"the cotangent accumulator `{og}` is not a dict literal created unconditionally inside backward_pass (it is a parameter / shared / conditionally created): state survives from one backward evaluation to the next",
            "the same vjp function evaluated again after an evaluation that raised half-way (stale cotangents are added to the next result), or evaluated re-entrantly",
        )
        return
    # the table's value when the main loop is entered (a display, or an empty display plus stores: same term)
    rt0, syms0, m0_, node0_, sc0 = eval_function(world, CORE, "backward_pass")
    at_entry = sc0.lookup(og)
    at_entry = at_entry.init if at_entry is not None and at_entry.op == "loop" else None
    ok = at_entry is not None and at_entry.op == "dict" and not at_entry.get("dstar") and len(at_entry.items) == 1 and at_entry.items[0][0] is syms0[endp]
    if ok:
        v = at_entry.items[0][1]
        ok = v.op == "tuple" and len(v.elts) == 2 and v.elts[0] is syms0[gp] and v.elts[1].op == "const" and v.elts[1].value is False
    if ok:
        ctx.ob("A9.proto", "backward_pass: user cotangent enters as (g, False): never mutated", True, loc)
    else:
        ctx.fail("A9.proto", "backward_pass:init", f"{q}:init-flag", loc, f"outgrads is not initialised as {{end_node: (g, False)}} (found {str(at_entry)[:80] if at_entry is not None else norm_text(init)})", "a function that returns its input (or an input-aliasing view) twice added: the caller's cotangent array g is modified in place")
    loops = [st for st in fn.body if isinstance(st, ast.For)]
    main = None
    for lp in loops:
        r = world.repo.resolve_expr(m, lp.iter.func) if isinstance(lp.iter, ast.Call) else None
        if r is not None and r.qual == "autograd.util.toposort" and len(lp.iter.args) == 1 and isinstance(lp.iter.args[0], ast.Name) and lp.iter.args[0].id == endp:
            main = lp
    if main is None or not isinstance(main.target, ast.Name):
        ctx.fail("A13.once", "backward_pass:loop", f"{q}:loop", loc, "no `for node in toposort(end_node)` loop", "any reverse-mode call")
        return
    nodev = main.target.id
    ctx.ob("A13.once", "backward_pass: iterates toposort(end_node)", True, loc)
    ps = paths(main.body)
    n_ok = 0
    problems = []
    for p in ps:
        vjp_calls = []
        reads = []
        adds = []
        other_writes = []
        for e in p:
            if e.kind not in ("stmt", "loop", "cond"):
                continue
            node = e.node if e.kind != "loop" else e.node.iter
            for c in calls_in(node):
                f = c.func
                if isinstance(f, ast.Attribute) and f.attr == "vjp" and isinstance(f.value, ast.Name) and f.value.id == nodev:
                    vjp_calls.append(c)
                if isinstance(f, ast.Attribute) and isinstance(f.value, ast.Name) and f.value.id == og and f.attr in ("pop", "get", "__getitem__") and c.args and isinstance(c.args[0], ast.Name) and c.args[0].id == nodev:
                    reads.append(c)
                if isinstance(f, ast.Attribute) and isinstance(f.value, ast.Name) and f.value.id == og and f.attr in ("update", "clear", "setdefault", "popitem"):
                    other_writes.append(c)
            if e.kind == "stmt" and isinstance(e.node, ast.Assign):
                for t in e.node.targets:
                    if isinstance(t, ast.Subscript) and isinstance(t.value, ast.Name) and t.value.id == og:
                        adds.append(e.node)
            if e.kind == "stmt" and isinstance(e.node, (ast.AugAssign, ast.Delete)):
                tg = [e.node.target] if isinstance(e.node, ast.AugAssign) else e.node.targets
                for t in tg:
                    if isinstance(t, ast.Subscript) and isinstance(t.value, ast.Name) and t.value.id == og:
                        other_writes.append(e.node)
        if other_writes:
            problems.append(f"outgrads written by `{norm_text(other_writes[0])[:60]}`")
        n_ok += 1
    # ---- term level: data flow of one iteration (insensitive to naming / unpacking / helper extraction)
    rt, syms, m_, node_, sc = eval_function(world, CORE, "backward_pass")
    rt = unseq(rt) if rt is not None else None
    g_s, end_s = syms[gp], syms[endp]
    outer = sc.lookup(og)
    if outer is not None and outer.op == "loop" and outer.get("it") is not None:
        tp = outer.it
        elem_of = lambda t, src: t.op == "iterelem" and t.src is src
        is_outer_var = lambda t: t.op == "loopvar" and t.name == og and t.node is outer.node
        def is_entry(t):
            # outgrads.pop(node) / outgrads.get(node) / outgrads[node]   (the node's flagged cotangent)
            if t.op == "call" and t.fn.op == "attr" and t.fn.name in ("pop", "get") and is_outer_var(t.fn.obj) and len(t.args) >= 1 and elem_of(t.args[0], tp):
                return True
            return t.op == "sub" and is_outer_var(t.obj) and elem_of(t.idx, tp)
        is_cot = lambda t: t.op == "sub" and t.idx.op == "const" and t.idx.value == 0 and is_entry(t.obj)
        def is_vjp_call(t):
            return t.op == "call" and t.fn.op == "attr" and t.fn.name == "vjp" and elem_of(t.fn.obj, tp) and len(t.args) == 1 and not t.kw
        vcs = [t for t in walk(outer.next) if is_vjp_call(t)]
        # every node.vjp(...) evaluated in one iteration (also those whose result is discarded)
        all_vjp = {id(t): t for t in vcs}
        for e_ in sc.effects:
            for t in walk(unseq(expand(world.ev, e_, KEEP))):
                if t.op == "call" and t.fn.op == "attr" and t.fn.name == "vjp" and t.fn.obj.op == "iterelem":
                    all_vjp.setdefault(id(t), t)
        sites = {id(t.node) for t in all_vjp.values()}
        if len(sites) != 1:
            problems.append(f"node.vjp called {len(sites)} times on a path")
        if vcs and all(is_cot(t.args[0]) for t in vcs):
            ctx.ob("A13.once", "backward_pass: node.vjp receives component 0 of outgrads[node]", True, loc)
        else:
            problems.append("node.vjp's argument is not component 0 of the node's outgrads entry")
        inner = outer.next
        edge_ok = False
        if inner is not None and inner.op == "loop" and inner.get("it") is not None and is_outer_var(inner.init):
            z = inner.it
            zok = is_call_to(z, "builtins.zip") and len(z.args) == 2 and not z.kw and z.args[0].op == "attr" and z.args[0].name == "parents" and elem_of(z.args[0].obj, tp) and is_vjp_call(z.args[1])
            is_inner_var = lambda t: t.op == "loopvar" and t.name == og and t.node is inner.node
            e_par = lambda t: t.op == "sub" and elem_of(t.obj, z) and t.idx.op == "const" and t.idx.value == 0
            e_ing = lambda t: t.op == "sub" and elem_of(t.obj, z) and t.idx.op == "const" and t.idx.value == 1
            st_ = inner.next
            if zok and st_ is not None and st_.op == "store" and is_inner_var(st_.obj) and e_par(st_.idx):
                v = st_.val
                if is_call_to(v, "autograd.core.add_outgrads") and len(v.args) == 2 and not v.kw:
                    p0, p1 = v.args
                    prev_ok = p0.op == "call" and p0.fn.op == "attr" and p0.fn.name == "get" and is_inner_var(p0.fn.obj) and len(p0.args) in (1, 2) and e_par(p0.args[0]) and (len(p0.args) == 1 or _is_none(p0.args[1])) and not p0.kw
                    if not prev_ok and p0.op == "if":
                        # outgrads[parent] if parent in outgrads else None   (either polarity)
                        a_, pol_ = atom(p0.cond)
                        yes, no = (p0.then, p0.other) if pol_ else (p0.other, p0.then)
                        prev_ok = a_.op == "cmp" and a_.opname == "In" and e_par(a_.l) and is_inner_var(a_.r) and yes.op == "sub" and is_inner_var(yes.obj) and e_par(yes.idx) and _is_none(no)
                    edge_ok = prev_ok and e_ing(p1)
        if edge_ok:
            ctx.ob("A13.once", "backward_pass: each (parent, ingrad) edge -> exactly one outgrads[parent] = add_outgrads(outgrads.get(parent), ingrad)", True, loc)
        else:
            problems.append("the per-edge accumulation is not `for parent, ingrad in zip(node.parents, ingrads): outgrads[parent] = add_outgrads(outgrads.get(parent), ingrad)`")
        # return value: component 0 of the entry popped in the last iteration
        def last_of(t, pred):
            return t is not None and t.op == "loop" and t.node is outer.node and t.next is not None and pred(t.next)
        ret_ok = rt is not None and ((rt.op == "sub" and rt.idx.op == "const" and rt.idx.value == 0 and last_of(rt.obj, is_entry)) or last_of(rt, is_cot))
    else:
        problems.append("the per-edge accumulation is not `for parent, ingrad in zip(node.parents, ingrads): outgrads[parent] = add_outgrads(outgrads.get(parent), ingrad)`")
        ret_ok = False
    if not problems:
        ctx.ob("A13.once", f"backward_pass: node.vjp called exactly once on each of {n_ok} path(s) of an iteration; no other writer of outgrads", True, loc)
    for pb in sorted(set(problems)):
        ctx.fail("A13.once", f"backward_pass:{pb[:50]}", f"{q}|{pb[:70]}", loc, pb, "a graph with fan-out (a value used by two operations) or a primitive with two differentiated arguments: a contribution is dropped, duplicated or routed to the wrong parent")
    if ret_ok:
        ctx.ob("A13.once", "backward_pass: returns the cotangent component (not the (value, flag) pair)", True, loc)
    else:
        ctx.fail("A13.once", "backward_pass:return", f"{q}:return", loc, "backward_pass does not return component 0 of the root's outgrads entry", "every reverse-mode call")


# ----------------------------------------------------------------------------------------- add_outgrads typestate
def ownership(ctx, world):
    ctx.describe("A9.proto", "add_outgrads ownership typestate over all its paths: a returned flag True implies the buffer is owned (result of add / mut_add / sparse_add); the in-place operand of mut_add / sparse_add is owned on every path (None, the result of mut_add(None, .)/add, or the previous buffer under the branch fact mutable == True); the first contribution is passed on as (g, False)")
    r, syms, m, node, sc = eval_function(world, CORE, "add_outgrads")
    loc = loc_of(m, node)
    q = "autograd.core.add_outgrads"
    prev, g = syms["#0"], syms["#1"]
    n = 0
    is_prev_buf = lambda t: t.op == "sub" and t.obj is prev and t.idx.op == "const" and t.idx.value == 0
    is_prev_flag = lambda t: t.op == "sub" and t.obj is prev and t.idx.op == "const" and t.idx.value == 1

    def owned(t, facts):
        """is the buffer term owned under the path facts?"""
        t = strip_seq(t)
        if t.op == "const" and t.value is None:
            return True, "None (allocates zeros)"
        if is_prev_buf(t):
            if ("mutable", True) in facts:
                return True, "previous buffer under mutable == True"
            return False, "previous buffer is not known to be owned on this path"
        if t is g:
            return False, "the incoming contribution g is borrowed"
        if t.op == "call":
            if t.fn.op == "attr" and t.fn.name in ("mut_add", "add") and is_call_to(t.fn.obj, "autograd.core.vspace"):
                if t.fn.name == "add":
                    return True, "vs.add allocates"
                return owned(t.args[0], facts) if t.args else (False, "?")
            if is_call_to(t, "autograd.core.sparse_add") and len(t.args) == 3:
                return owned(t.args[1], facts)
        return False, f"unknown buffer {str(t)[:50]}"

    def walk_paths(t, facts):
        """exhaustive case analysis over the three decision atoms of add_outgrads - (prev present?, prev mutable?,
        g sparse?) - in whatever polarity, order, nesting or expression position (statement `if`, conditional
        expression inside an argument) they are consulted: the function term is specialised under each
        valuation and every remaining path is yielded with that valuation as its facts"""
        is_sparse_atom = lambda a: a.op == "cmp" and a.opname == "In"

        def kind(a):
            if a is prev:
                return ("prev", True)
            if a.op == "cmp" and a.opname in ("Is", "Eq") and ((a.l is prev and _is_none(a.r)) or (a.r is prev and _is_none(a.l))):
                return ("prev", False)
            if is_prev_flag(a):
                return ("mutable", True)
            if is_sparse_atom(a):
                return ("sparse", True)
            return None

        t = unseq(t)
        for pv in (True, False):
            for mv in ((True, False) if pv else (None,)):
                for sv in (True, False):
                    val = {"prev": pv, "mutable": mv, "sparse": sv}

                    def decide(a, val=val):
                        k = kind(a)
                        if k is None or val[k[0]] is None:
                            return None
                        return val[k[0]] if k[1] else (not val[k[0]])

                    fs = {(k, v) for k, v in val.items() if v is not None}
                    for c in cases(specialise(t, decide)):
                        yield set(fs), c.leaf

    for facts, leaf in walk_paths(r, set()):
        n += 1
        desc = ",".join(f"{k}={v}" for k, v in sorted(facts))
        if not (leaf.op == "tuple" and len(leaf.elts) == 2 and leaf.elts[1].op == "const" and isinstance(leaf.elts[1].value, bool)):
            ctx.fail("A9.proto", f"add_outgrads[{desc}]", f"{q}[{desc}]:shape", loc, f"path does not return (buffer, literal flag): {str(leaf)[:80]}", "fan-out graphs")
            continue
        buf, flag = leaf.elts[0], leaf.elts[1].value
        # every in-place operand inside buf
        bad = None
        for t in walk(buf):
            if t.op == "call" and ((t.fn.op == "attr" and t.fn.name == "mut_add" and t.args) or (is_call_to(t, "autograd.core.sparse_add") and len(t.args) == 3)):
                target = t.args[0] if t.fn.op == "attr" else t.args[1]
                ok, why = owned(target, facts)
                if not ok:
                    bad = (t, why)
        if bad:
            ctx.fail(
                "A9.proto",
                f"add_outgrads[{desc}]:in-place operand",
                f"{q}[{desc}]:inplace",
                loc,
                f"on the path [{desc}] an in-place accumulation writes into a buffer that is not owned: {bad[1]} (`{str(bad[0])[:70]}`)",
                "a value consumed by two operations whose first contribution is the caller's cotangent or a rule's captured array: that array is modified in place",
            )
            continue
        ok_owned, why = owned(buf, facts)
        if flag and not ok_owned:
            ctx.fail("A9.proto", f"add_outgrads[{desc}]:flag", f"{q}[{desc}]:flag", loc, f"path [{desc}] returns flag True with a buffer that is not owned ({why}): a later contribution will be added into it in place", "three contributions to one value where the first is a borrowed array")
            continue
        if not flag and buf is not g:
            ctx.ob("A9.proto", f"add_outgrads[{desc}]", True, loc, sample=f"flag False, buffer {str(buf)[:40]}")
            continue
        ctx.ob("A9.proto", f"add_outgrads[{desc}]", True, loc, sample=f"({str(buf)[:60]}, {flag}) : {why}")
    ctx.floor("A9.proto add_outgrads paths", n, 4)
    # sparse detection covers both sparse object types
    conds = [t for t in walk(r) if t.op == "cmp" and t.opname == "In"]
    ok = bool(conds) and all(c.r.op == "ref" and c.r.ref.qual == "autograd.core.sparse_object_types" and is_call_to(c.l, "builtins.type") and c.l.args[0] is g for c in conds)
    if ok:
        ctx.ob("A9.proto", "add_outgrads: sparse iff type(g) in sparse_object_types", True, loc)
    else:
        ctx.fail("A9.proto", "add_outgrads:sparse-test", f"{q}:sparse-test", loc, "the sparse test is not `type(g) in sparse_object_types`", "an indexed contribution that is itself traced (SparseBox) in a higher-order derivative")
    # mut_add(None, x) and sparse_add(vs, None, x) allocate zeros first
    for path, label in (("VSpace.mut_add", "mut_add"), ("sparse_add", "sparse_add")):
        r2, s2, m2, n2, sc2 = eval_function(world, CORE, path)
        r2 = unseq(expand(world.ev, r2, KEEP)) if r2 is not None else None
        xp = s2["#1"]
        okz = False
        is_none_atom, decide_none = none_test(lambda t: t is xp)
        if r2 is not None and _tests(r2, is_none_atom):
            # with x_prev None, the value handed to the in-place accumulator is a fresh zeros()
            spec = specialise(r2, decide_none(True))
            zs = [t for t in walk(spec) if t.op == "call" and t.fn.op == "attr" and t.fn.name == "zeros" and not t.args]
            okz = bool(zs) and not any(t is xp for t in walk(spec))
        if okz:
            ctx.ob("A9.pure", f"{label}(None, x) accumulates into freshly allocated zeros", True, loc_of(m2, n2))
        else:
            ctx.fail("A9.pure", f"{label}:none", f"autograd.core.{path}:none-zeros", loc_of(m2, n2), f"{label} with x_prev None does not start from self.zeros()/vs.zeros()", "accumulating into 'nothing' returns (or mutates) its argument instead of a fresh value")
        # the accumulated value is what the accumulator RETURNS (an accumulator may rebuild instead of writing in
        # place - containers do): every non-raising path returns the result of the (_)mut_add call
        if r2 is not None:
            okr = True
            for c_ in cases(r2):
                lf = c_.leaf
                if lf.op == "raise":
                    continue
                if not (lf.op == "call" and lf.fn.op == "attr" and lf.fn.name in ("mut_add", "_mut_add")):
                    okr = False
            if okr:
                ctx.ob("A9.pure", f"{label} returns the accumulator's result", True, loc_of(m2, n2))
            else:
                ctx.fail("A9.pure", f"{label}:result", f"autograd.core.{path}:returns-result", loc_of(m2, n2), f"{label} does not return the value its accumulation call produced (an accumulator is free to build a new value: container cotangents do)", "a tuple/list/dict of scalars receiving two dense contributions and then an indexed one: the indexed contribution is built into a new container that is thrown away")


def owned_flags(ctx, world):
    """A9.proto, call-site clause: outside add_outgrads itself a flagged pair `(value, True)` - "this buffer is mine,
    accumulate into it in place" - may only be written for a value the writer allocated (zeros / a copy / the result of
    add or mut_add(None, .)).  Seeding an accumulation with (first_term, True) lets every later term be added INTO the
    first term's memory."""
    ctx.describe("A9.proto", "call sites: wherever the library writes a flagged cotangent pair (value, True) by hand - as the initial value of a reduce(add_outgrads, ..), as the first operand of add_outgrads, or stored in the cotangent table of the backward pass - the value is freshly allocated by the writer; borrowed values enter as (value, False) or None")
    n = 0
    for mod in world.repo.mods.values():
        if mod.name.startswith(("autograd.scipy", "autograd.misc", "autograd.test_util")):
            continue
        for fq, fnode in mod.functions():
            if fq.split(".")[-1] == "add_outgrads":
                continue
            for x in ast.walk(fnode):
                if not (isinstance(x, ast.Tuple) and len(x.elts) == 2 and isinstance(x.elts[1], ast.Constant) and isinstance(x.elts[1].value, bool)):
                    continue
                # is this pair handed to the accumulation?
                p_ = getattr(x, "_parent", None)
                used = False
                if isinstance(p_, ast.Call):
                    r_ = world.repo.resolve_expr(mod, p_.func)
                    q_ = r_.qual if r_ is not None else ""
                    if q_ == "autograd.core.add_outgrads" and p_.args and p_.args[0] is x:
                        used = True
                    if q_ == "functools.reduce" and len(p_.args) == 3 and p_.args[2] is x:
                        r0 = world.repo.resolve_expr(mod, p_.args[0])
                        used = r0 is not None and r0.qual == "autograd.core.add_outgrads"
                if isinstance(p_, ast.Dict) and fq.split(".")[-1] == "backward_pass":
                    used = True
                if not used:
                    continue
                n += 1
                inst = f"{fq}:{norm_text(x)[:40]}"
                v = x.elts[0]
                fresh = isinstance(v, ast.Call) and isinstance(v.func, ast.Attribute) and (v.func.attr in ("zeros", "ones", "copy") or (v.func.attr in ("mut_add", "add") and v.args and isinstance(v.args[0], ast.Constant) and v.args[0].value is None))
                if x.elts[1].value is False or fresh:
                    ctx.ob("A9.proto", inst, True, loc_of(mod, x))
                else:
                    ctx.fail("A9.proto", inst, f"{fq}|owned-flag:{norm_text(v)[:40]}", loc_of(mod, x), f"`{norm_text(x)[:60]}` marks `{norm_text(v)[:40]}` as an owned buffer, but this function did not allocate it: the next contribution is added into that value in place", "a primitive whose (co)tangent contribution aliases one of its inputs (an identity-like linear primitive): the caller's array is overwritten")
    if n == 0:
        # (how the user's cotangent enters the table is decided by A13.once; this clause only watches hand-written
        # (value, True) pairs, of which a correct tree needs none - its positive example is a kept seeded change)
        ctx.ob("A9.proto", "no hand-written flagged pair (value, True) outside add_outgrads", True, "autograd/core.py", nontrivial=False)


# ----------------------------------------------------------------------------------------- purity of VSpace ops / in-place sites
PURE_METHODS = ("_add", "_scalar_mul", "_covector", "_inner_prod", "zeros", "ones", "standard_basis", "randn")
FRESH_CALLS = {"zeros", "ones", "empty", "full", "zeros_like", "ones_like", "empty_like", "array", "copy", "arange", "eye", "list", "dict", "set", "tile", "diagonal_fresh", "OrderedDict", "defaultdict", "deque", "Counter", "bytearray", "frozenset", "tuple"}


def _vspace_classes(world):
    out = []
    for mod in world.repo.mods.values():
        for st in mod.tree.body:
            stack = [st]
            while stack:
                s = stack.pop()
                if isinstance(s, ast.ClassDef):
                    r = world.repo.resolve(mod, s.name)
                    if r is not None and r.kind == "repo" and r.okind == "class":
                        if any(k.qual == "autograd.core.VSpace" for k in class_mro(world.repo, r)):
                            out.append((mod, s))
                elif isinstance(s, ast.If):
                    stack.extend(s.body + s.orelse)
    return out


def purity(ctx, world):
    ctx.describe("A9.pure", "VSpace._add/_scalar_mul/_covector/_inner_prod (and overrides) perform no in-place operation on a parameter; only _mut_add may mutate, and only its first operand")
    n = 0
    for mod, cls in _vspace_classes(world):
        for st in cls.body:
            if not isinstance(st, ast.FunctionDef):
                continue
            params = {a.arg for a in st.args.args[1:]}
            muts = _param_mutations(st, params)
            inst = f"{mod.name}.{cls.name}.{st.name}"
            if st.name in PURE_METHODS:
                n += 1
                if muts:
                    ctx.fail("A9.pure", inst, f"{inst}:mutates", loc_of(mod, muts[0]), f"{inst} mutates its parameter in place: `{norm_text(muts[0])[:70]}`", "grad of f(x) = g(x) + g(x) style fan-out: vs.add() is used exactly when the previous buffer is NOT owned")
                else:
                    ctx.ob("A9.pure", inst, True, loc_of(mod, st))
            if st.name == "_add" and len(st.args.args) == 3:
                # add_outgrads marks the result of vs.add(prev, g) as owned: it must be newly allocated on every path,
                # never one of the operands themselves (or a view of one)
                from ..tutil import cases as _cases, expand as _expand, unseq as _unseq

                try:
                    r_, sy_, m_, fn_, sc_ = eval_function(world, mod.name, f"{cls.name}._add")
                except Exception:
                    r_ = None
                if r_ is not None:
                    ops_ = [sy_["#1"], sy_["#2"]]
                    VIEWS = {"asarray", "asanyarray", "ravel", "reshape", "real", "squeeze", "broadcast_to", "transpose", "atleast_1d", "atleast_2d", "atleast_3d", "view", "swapaxes", "expand_dims"}

                    def alias_of(t, depth=0):
                        if any(t is o for o in ops_):
                            return t
                        if depth > 4:
                            return None
                        if t.op in ("sub", "attr") and t.op == "sub":
                            return alias_of(t.obj, depth + 1)
                        if t.op == "attr" and t.name in ("T", "real", "imag", "flat"):
                            return alias_of(t.obj, depth + 1)
                        if t.op == "call":
                            nm_ = t.fn.name if t.fn.op == "attr" else (t.fn.ref.qual.rsplit(".", 1)[-1] if t.fn.op == "ref" else None)
                            if nm_ in VIEWS:
                                if t.fn.op == "attr":
                                    return alias_of(t.fn.obj, depth + 1)
                                return alias_of(t.args[0], depth + 1) if t.args else None
                        return None

                    bad_ = [c for c in _cases(_unseq(_expand(world.ev, r_, ()))) if c.leaf.op != "raise" and alias_of(c.leaf) is not None]
                    n += 1
                    if bad_:
                        ctx.fail("A9.pure", inst + ":fresh", f"{inst}:returns-operand", loc_of(mod, st), f"{inst} returns one of its operands (or a view of it) on some path instead of a newly allocated sum: `{str(bad_[0].leaf)[:60]}`", "a value with three contributions the second of which is zero (an inactive branch): the first contribution's buffer, not owned by autograd, is then accumulated into in place")
                    else:
                        ctx.ob("A9.pure", inst + ":fresh", True, loc_of(mod, st))
            if (st.name in ("_add", "_mut_add", "_scalar_mul", "_inner_prod", "_covector") and len(st.args.args) >= 2) or st.name in ("zeros", "ones", "standard_basis", "randn"):
                # the operations act in the precision of the space: no operand is converted to a FIXED dtype
                # (np.float64 / np.complex128 ...): a longdouble / clongdouble space would silently lose range and digits
                from ..tutil import expand as _expand2, unseq as _unseq2
                from ..terms import walk as _walk2

                try:
                    r2_, sy2_, m2_, fn2_, sc2_ = eval_function(world, mod.name, f"{cls.name}.{st.name}")
                except Exception:
                    r2_ = None
                if r2_ is not None:
                    fixed = None
                    for t_ in _walk2(_unseq2(_expand2(world.ev, r2_, ()))):
                        if t_.op != "call":
                            continue
                        cands = [t_.kw["dtype"]] if "dtype" in t_.kw else []
                        nm2 = t_.fn.name if t_.fn.op == "attr" else (t_.fn.ref.qual.rsplit(".", 1)[-1] if t_.fn.op == "ref" else "")
                        if nm2 == "astype" and t_.args:
                            cands.append(t_.args[0])
                        if nm2 in ("asarray", "array", "asanyarray") and len(t_.args) > 1:
                            cands.append(t_.args[1])
                        for c_ in list(cands):
                            # result_type(self.dtype, float) / promote_types(d, np.float64): promotion with a FIXED type
                            # is a conversion of everything narrower than it
                            if c_.op == "call" and c_.fn.op == "ref" and c_.fn.ref.qual.rsplit(".", 1)[-1] in ("result_type", "promote_types", "find_common_type"):
                                cands.extend(a_ for a_ in c_.args if a_.op in ("ref", "const"))
                        for c_ in cands:
                            if c_.op == "ref" and (c_.ref.qual.startswith("numpy.") or c_.ref.qual in ("builtins.float", "builtins.complex", "builtins.int")) and fixed is None:
                                fixed = (t_, c_.ref.qual)
                            if c_.op == "const" and isinstance(c_.value, str) and fixed is None:
                                fixed = (t_, repr(c_.value))
                    n += 1
                    if fixed is None:
                        ctx.ob("A9.pure", inst + ":precision", True, loc_of(mod, st))
                    else:
                        ctx.fail("A9.pure", inst + ":precision", f"{inst}:fixed-dtype", loc_of(mod, st), f"{inst} converts an operand to the fixed dtype {fixed[1]} (`{str(fixed[0])[:60]}`): values of a wider space (np.longdouble / np.clongdouble) are silently truncated", "a longdouble vector with entries outside the float64 range (1e-200L squared underflows to 0: <x, x> = 0 for x != 0)")
            if st.name == "_mut_add":
                n += 1
                first = st.args.args[1].arg if len(st.args.args) > 1 else None
                other = [x for x in muts if _mut_target(x) != first]
                if other:
                    ctx.fail("A9.pure", inst, f"{inst}:mutates-second", loc_of(mod, other[0]), f"{inst} mutates an operand other than its accumulator: `{norm_text(other[0])[:70]}`", "three contributions to one value")
                else:
                    ctx.ob("A9.pure", inst, True, loc_of(mod, st))
    ctx.floor("A9.pure methods", n, 12)


def _mut_target(node):
    t = node.target if isinstance(node, ast.AugAssign) else (node.targets[0] if isinstance(node, ast.Assign) else None)
    if t is None and isinstance(node, ast.Call):
        t = node.func.value if isinstance(node.func, ast.Attribute) else None
        if isinstance(node.func, ast.Attribute) and node.func.attr == "at" and node.args:
            t = node.args[0]
    while isinstance(t, (ast.Subscript, ast.Attribute)):
        t = t.value
    return t.id if isinstance(t, ast.Name) else None


INPLACE_METHODS = {"sort", "fill", "resize", "itemset", "put", "partition", "setflags", "append", "extend", "insert", "remove", "pop", "clear", "update", "reverse", "setdefault", "popitem"}


def _param_mutations(fn, names):
    """in-place constructs whose root object is one of `names` (not rebound before), excluding nested defs"""
    out = []
    rebound = set()
    for n in ast.walk(fn):
        if isinstance(n, (ast.FunctionDef, ast.Lambda)) and n is not fn:
            continue
    for st in ast.walk(fn):
        if isinstance(st, ast.AugAssign):
            root = _mut_target(st)
            if root in names:
                out.append(st)
        elif isinstance(st, ast.Assign):
            for t in st.targets:
                if isinstance(t, (ast.Subscript,)):
                    root = t
                    while isinstance(root, (ast.Subscript, ast.Attribute)):
                        root = root.value
                    if isinstance(root, ast.Name) and root.id in names:
                        out.append(st)
        elif isinstance(st, ast.Call):
            for kw in st.keywords:
                if kw.arg == "out" and isinstance(kw.value, ast.Name) and kw.value.id in names:
                    out.append(st)
            if isinstance(st.func, ast.Attribute):
                if st.func.attr == "at" and st.args and isinstance(st.args[0], ast.Name) and st.args[0].id in names:
                    out.append(st)
                elif st.func.attr in INPLACE_METHODS and isinstance(st.func.value, ast.Name) and st.func.value.id in names:
                    out.append(st)
    return out


def inplace_sites(ctx, world, scope="all"):
    ctx.describe("A9.inplace", "every in-place construct in autograd/ (x += .., x[..] = .., out=, ufunc.at, .sort()/.fill()/..., flags.writeable) targets memory that is owned-fresh at that point: a local bound to a freshly allocating expression on every reaching definition; parameters and captured variables are borrowed. The designated accumulators (VSpace._mut_add, the mut_add closure of a SparseObject) may mutate their accumulator operand only")
    n = 0
    for mod in world.repo.mods.values():
        if mod.name.startswith(("autograd.scipy", "autograd.misc", "autograd.test_util")) and scope != "thorough":
            continue
        for fq, fnode in mod.functions():
            if isinstance(fnode, ast.Lambda):
                continue
            if _registration_time(fq):
                continue  # runs at import / registration time and writes dict registries: decided by A11.registries
            params = {a.arg for a in fnode.args.posonlyargs + fnode.args.args + fnode.args.kwonlyargs}
            if fnode.args.vararg:
                params.add(fnode.args.vararg.arg)
            if fnode.args.kwarg:
                params.add(fnode.args.kwarg.arg)
            own = [x for st in fnode.body for x in ast.walk(st) if _encl(x) is fnode]
            local_defs = _local_defs_of(fnode)
            sites = []
            for x in own:
                if isinstance(x, ast.AugAssign):
                    sites.append((x, x.target))
                elif isinstance(x, ast.Assign):
                    for t in x.targets:
                        if isinstance(t, ast.Subscript):
                            sites.append((x, t))
                        elif isinstance(t, ast.Attribute) and t.attr == "writeable":
                            sites.append((x, t))
                elif isinstance(x, ast.Call):
                    for kw in x.keywords:
                        if kw.arg == "out":
                            sites.append((x, kw.value))
                    if isinstance(x.func, ast.Attribute) and x.func.attr == "at" and x.args:
                        sites.append((x, x.args[0]))
                    elif isinstance(x.func, ast.Attribute) and x.func.attr in ("sort", "fill", "resize", "itemset", "put", "setflags"):
                        sites.append((x, x.func.value))
            for site, tgt in sites:
                root = tgt
                while isinstance(root, (ast.Subscript, ast.Attribute)):
                    root = root.value
                if not isinstance(root, ast.Name):
                    continue
                name = root.id
                if isinstance(site, ast.AugAssign) and isinstance(tgt, ast.Name) and name not in params and name not in _free_names(fnode, name):
                    # x += y on a local: rebinding or in-place depending on the type; decide by definitions
                    pass
                if isinstance(tgt, ast.Attribute) and isinstance(root, ast.Name) and root.id == "self" or (isinstance(tgt, ast.Attribute) and tgt.attr not in ("writeable",) and not isinstance(site, ast.Call)):
                    # attribute stores (self.x = ..., f.fun = ...) are object initialisation, not array mutation
                    if not (isinstance(site, ast.AugAssign)):
                        continue
                    if isinstance(tgt, ast.Attribute) and tgt.attr == "top":
                        continue
                n += 1
                inst = f"{fq}:{norm_text(site)[:60]}"
                verdict, why = _fresh_at(world, mod, fnode, name, params, local_defs, site, fq)
                if verdict is True:
                    ctx.ob("A9.inplace", inst, True, loc_of(mod, site), sample=why)
                elif verdict is None:
                    ctx.ob("A9.inplace", inst, None, loc_of(mod, site), sample=why)
                else:
                    ctx.fail(
                        "A9.inplace",
                        inst,
                        f"{fq}|{norm_text(site)[:90]}",
                        loc_of(mod, site),
                        f"in-place write `{norm_text(site)[:70]}` into `{name}`, which is {why}",
                        "inputs / cotangents / captured constants passed as read-only (writeable=False) arrays, or the same VJP function called twice",
                    )
    ctx.floor("A9.inplace sites enumerated", n, 15)


REGISTRATION_TIME = (
    "autograd.core.VSpace.register",
    "autograd.tracer.Box.register",
    "autograd.tracer.register_notrace",
    "autograd.core.defvjp_argnums",
    "autograd.core.defjvp_argnums",
    "autograd.numpy.numpy_wrapper.wrap_namespace",
    "autograd.core.deprecated_defvjp",
    "autograd.core.deprecated_defvjp_is_zero",
    "autograd.core.deprecated_defgrad",
    "autograd.core.primitive_with_deprecation_warnings",
    "autograd.tracer.primitive",
    "autograd.tracer.notrace_primitive",
    "autograd.wrap_util.wraps",
)


def _registration_time(fq):
    return any(fq == r or fq.startswith(r + ".") for r in REGISTRATION_TIME)


def _int_evidence(fnode, name):
    """is the parameter used as an integer (compared with an int literal / used with range / an axis name)?"""
    from .. import facts as _f

    if name in _f.load("axis_params")["names"] or name in ("n", "k", "i", "j", "num", "count", "depth", "order"):
        return True
    for x in ast.walk(fnode):
        if isinstance(x, ast.Compare):
            ops = [x.left] + x.comparators
            if any(isinstance(o, ast.Name) and o.id == name for o in ops) and any(isinstance(o, ast.Constant) and isinstance(o.value, int) for o in ops):
                return True
    return False


def _scalar_local(fnode, name, site):
    """`name op= <int literal>` where `name` is also the operand of a comparison that is used as a branch
    condition (a truth value is taken of the comparison: the operands are scalars - an array operand with more
    than one element would raise) or is unpacked from / iterates over an axis parameter: ints are immutable, so
    the augmented assignment rebinds."""
    from .. import facts as _f

    if not (isinstance(site.value, ast.Constant) and type(site.value.value) is int):
        return False
    axis_names = set(_f.load("axis_params")["names"])
    for x in ast.walk(fnode):
        if isinstance(x, (ast.If, ast.While, ast.IfExp)):
            for c in ast.walk(x.test):
                if isinstance(c, ast.Compare) and any(isinstance(o, ast.Name) and o.id == name for o in [c.left] + c.comparators):
                    if all(isinstance(op, (ast.Lt, ast.LtE, ast.Gt, ast.GtE, ast.Eq, ast.NotEq)) for op in c.ops):
                        return True
        if isinstance(x, ast.Assign) and isinstance(x.value, ast.Name) and x.value.id in axis_names:
            for t in x.targets:
                if isinstance(t, (ast.Tuple, ast.List)) and any(isinstance(e, ast.Name) and e.id == name for e in t.elts):
                    return True
    return False


def _encl(n):
    p = getattr(n, "_parent", None)
    while p is not None and not isinstance(p, (ast.FunctionDef, ast.Lambda)):
        p = getattr(p, "_parent", None)
    return p


def _free_names(fnode, name):
    return set()


def _local_defs_of(fnode):
    """name -> list of defining expressions (None for bindings by unpacking / iteration / with) of a function"""
    own = [x for st in fnode.body for x in ast.walk(st) if _encl(x) is fnode]
    local_defs = {}
    for x in own:
        if isinstance(x, ast.Assign):
            for t in x.targets:
                if isinstance(t, ast.Name):
                    local_defs.setdefault(t.id, []).append(x.value)
                elif isinstance(t, ast.Tuple):
                    for e in t.elts:
                        if isinstance(e, ast.Name):
                            local_defs.setdefault(e.id, []).append(None)
        elif isinstance(x, (ast.For, ast.comprehension)):
            for e in ast.walk(x.target):
                if isinstance(e, ast.Name):
                    local_defs.setdefault(e.id, []).append(None)
        elif isinstance(x, ast.withitem) and x.optional_vars is not None:
            for e in ast.walk(x.optional_vars):
                if isinstance(e, ast.Name):
                    local_defs.setdefault(e.id, []).append(None)
    return local_defs


def _fresh_expr(world, mod, v, local_defs, params, depth=0):
    """does expression v evaluate to freshly allocated memory (owned by this function)?"""
    if v is None or depth > 4:
        return False, "bound by unpacking / iteration"
    if isinstance(v, (ast.List, ast.Dict, ast.Set, ast.ListComp, ast.DictComp, ast.SetComp, ast.Tuple)):
        return True, "literal container"
    if isinstance(v, ast.BinOp):
        return True, "result of an arithmetic expression (new array / new list)"
    if isinstance(v, ast.Constant):
        return True, "constant"
    if isinstance(v, ast.IfExp):
        a, wa = _fresh_expr(world, mod, v.body, local_defs, params, depth + 1)
        b, wb = _fresh_expr(world, mod, v.orelse, local_defs, params, depth + 1)
        return (a and b), (wa if not a else wb)
    if isinstance(v, ast.Call):
        f = v.func
        nm = f.attr if isinstance(f, ast.Attribute) else (f.id if isinstance(f, ast.Name) else None)
        if nm in FRESH_CALLS or nm in ("zeros", "dict_", "list_"):
            return True, f"{nm}(...) allocates"
        if nm == "diagonal":
            a0 = v.args[0] if v.args else None
            if isinstance(a0, ast.Name) and a0.id in local_defs and a0.id not in params:
                oks = [_fresh_expr(world, mod, d, local_defs, params, depth + 1)[0] for d in local_defs[a0.id]]
                if oks and all(oks):
                    return True, "view of a freshly allocated local"
            return False, "a view of its argument"
        if nm in ("astype",):
            return True, "astype copies"
        r = world.repo.resolve_expr(mod, f)
        if r is not None and r.kind == "repo" and r.okind == "assign" and isinstance(r.node, ast.Call):
            # X = partial(f, ...)
            pf = world.repo.resolve_expr(r.mod, r.node.func)
            if pf is not None and pf.qual == "functools.partial" and r.node.args:
                r = world.repo.resolve_expr(r.mod, r.node.args[0])
        if r is not None and r.kind == "repo" and isinstance(r.node, ast.Lambda):
            return _fresh_expr(world, r.mod, r.node.body, {}, {a.arg for a in r.node.args.args}, depth + 1)
        if r is not None and r.kind == "repo" and isinstance(r.node, ast.FunctionDef) and not r.node.decorator_list:
            rets = [x.value for x in ast.walk(r.node) if isinstance(x, ast.Return) and x.value is not None and _encl(x) is r.node]
            ps = {a.arg for a in r.node.args.args}
            if r.node.args.vararg:
                ps.add(r.node.args.vararg.arg)
            if r.node.args.kwarg:
                ps.add(r.node.args.kwarg.arg)
            res = [_fresh_expr(world, r.mod, v2, _local_defs_of(r.node), ps, depth + 1) for v2 in rets]
            if res and all(o for o, _ in res):
                return True, f"{r.name}(...) returns fresh memory on every path"
            return False, f"{r.name}(...) may return (a view of) its argument"
        if r is not None and r.kind == "wrapped":
            from .. import facts as _f

            al = _f.load("alias_preserving")
            if r.name in al["fresh_functions"]:
                return True, f"{r.name}(...) allocates"
            if r.name in al["functions"]:
                return False, f"{r.name}(...) may return a view of its argument"
            return True, f"{r.name}(...) returns a new array"
        return False, f"result of {norm_text(f)[:30]}(...)"
    if isinstance(v, ast.Name):
        if v.id in params:
            return False, "a parameter (borrowed)"
        if v.id in local_defs:
            oks = [_fresh_expr(world, mod, d, local_defs, params, depth + 1) for d in local_defs[v.id]]
            if oks and all(o for o, _ in oks):
                return True, "alias of a fresh local"
            return False, "alias of a non-fresh value"
        return False, "a captured / global variable (borrowed)"
    if isinstance(v, ast.Subscript):
        return False, "an element / view of another object"
    return False, f"{type(v).__name__}"


def _owned_at_every_call_site(world, mod, fnode, pname, _depth=0):
    """A private module-level helper may write into a parameter when EVERY call site in the package passes a
    local of the caller that is freshly allocated there (the caller's own accumulator).  Returns a reason string,
    or None when some call site passes borrowed memory / the helper has no call site (it is API)."""
    if _depth > 2 or not isinstance(getattr(fnode, "_parent", None), ast.Module) or not fnode.name.startswith("_"):
        return None
    a = fnode.args
    pos = [p.arg for p in a.posonlyargs + a.args]
    if pname not in pos:
        return None
    idx = pos.index(pname)
    n_sites = 0
    for m2 in world.repo.mods.values():
        for fq2, caller in m2.functions():
            if isinstance(caller, ast.Lambda):
                body_nodes = list(ast.walk(caller.body))
            else:
                body_nodes = [x for st in caller.body for x in ast.walk(st)]
            for c in body_nodes:
                if not isinstance(c, ast.Call) or _encl(c) is not caller:
                    continue
                r = world.repo.resolve_expr(m2, c.func) if isinstance(c.func, (ast.Name, ast.Attribute)) else None
                if r is None or r.kind != "repo" or r.node is not fnode:
                    continue
                n_sites += 1
                argx = c.args[idx] if idx < len(c.args) and not any(isinstance(x, ast.Starred) for x in c.args[: idx + 1]) else next((k.value for k in c.keywords if k.arg == pname), None)
                if not isinstance(argx, ast.Name) or isinstance(caller, ast.Lambda):
                    return None
                cparams = {p.arg for p in caller.args.posonlyargs + caller.args.args + caller.args.kwonlyargs}
                if caller.args.vararg:
                    cparams.add(caller.args.vararg.arg)
                if caller.args.kwarg:
                    cparams.add(caller.args.kwarg.arg)
                cdefs = _local_defs_of(caller)
                if argx.id in cparams:
                    if not _owned_at_every_call_site(world, m2, caller, argx.id, _depth + 1):
                        return None
                    continue
                if argx.id not in cdefs:
                    return None
                for d in cdefs[argx.id]:
                    ok, _why = _fresh_expr(world, m2, d, cdefs, cparams)
                    if not ok:
                        return None
        # module-level call sites pass module-level objects: never owned by a differentiation
        for st in ast.walk(m2.tree):
            if isinstance(st, ast.Call) and _encl(st) is None:
                r = world.repo.resolve_expr(m2, st.func) if isinstance(st.func, (ast.Name, ast.Attribute)) else None
                if r is not None and r.kind == "repo" and r.node is fnode:
                    return None
    if n_sites == 0:
        return None
    return f"accumulator parameter of the private helper {fnode.name}: each of its {n_sites} call site(s) passes a local that is freshly allocated by the caller"


def _fresh_at(world, mod, fnode, name, params, local_defs, site, fq):
    last = fq.rsplit(".", 1)[-1]
    # designated accumulators
    if last == "_mut_add" and fnode.args.args and len(fnode.args.args) > 1 and name == fnode.args.args[1].arg:
        return True, "VSpace._mut_add's accumulator operand (owned by the add_outgrads protocol, A9.proto)"
    if isinstance(fnode, ast.FunctionDef) and isinstance(getattr(fnode, "_parent", None), ast.FunctionDef) and fnode.args.args and name == fnode.args.args[0].arg:
        # closure handed to SparseObject(vs, mut_add)
        outer = fnode._parent
        for x in ast.walk(outer):
            if not (isinstance(x, ast.Call) and isinstance(x.func, (ast.Name, ast.Attribute))):
                continue
            rr_ = world.repo.resolve_expr(mod, x.func)
            if rr_ is not None and rr_.qual == "autograd.core.SparseObject" and any(isinstance(a, ast.Name) and a.id == fnode.name for a in list(x.args) + [k.value for k in x.keywords]):
                return True, "accumulator of a SparseObject.mut_add closure (owned by the sparse_add protocol, A9.proto)"
    if name in params:
        if isinstance(site, ast.AugAssign) and isinstance(site.target, ast.Name) and _int_evidence(fnode, name):
            return True, "augmented assignment to an integer-valued parameter: a rebinding, not a mutation"
        ok_callers = _owned_at_every_call_site(world, mod, fnode, name)
        if ok_callers:
            return True, ok_callers
        return False, "a parameter (borrowed from the caller)"
    if name not in local_defs:
        outer = getattr(fnode, "_parent", None)
        if isinstance(outer, ast.FunctionDef) and isinstance(fnode, ast.FunctionDef) and _only_called_inside(outer, fnode):
            # a nested helper that never leaves its enclosing function works on that invocation's own storage: the
            # captured variable is owned exactly when the enclosing function allocated it on every definition
            odefs = _local_defs_of(outer)
            oparams = {a.arg for a in outer.args.posonlyargs + outer.args.args + outer.args.kwonlyargs}
            if name in odefs and name not in oparams:
                bad_ = None
                for d in odefs[name]:
                    ok, why = _fresh_expr(world, mod, d, odefs, oparams)
                    if not ok:
                        bad_ = why
                if bad_ is None:
                    return True, "working storage allocated by the enclosing function on every definition; the nested helper is only called there"
        return False, "a captured or global variable (not allocated by this function)"
    if isinstance(site, ast.AugAssign) and isinstance(site.target, ast.Name) and _scalar_local(fnode, name, site):
        return True, "augmented assignment to an integer-valued local (compared as a scalar, stepped by an int literal): a rebinding, not a mutation"
    defs = local_defs[name]
    why_bad = None
    for d in defs:
        ok, why = _fresh_expr(world, mod, d, local_defs, params)
        if not ok:
            why_bad = why
    if why_bad is None:
        return True, "local bound to freshly allocated memory on every definition"
    return False, f"bound to {why_bad}"


def _only_called_inside(outer, inner):
    """every use of the nested function's name inside `outer` is a direct call (it is not returned, stored, passed on
    or yielded), so no reference to it outlives the invocation of `outer`"""
    for x in ast.walk(outer):
        if isinstance(x, ast.Name) and x.id == inner.name and isinstance(x.ctx, ast.Load):
            p = getattr(x, "_parent", None)
            if not (isinstance(p, ast.Call) and p.func is x):
                return False
    return True


# ----------------------------------------------------------------------------------------- A10 closure re-use
ONE_SHOT = {"map", "zip", "filter", "iter", "reversed", "enumerate"}


def closure_reuse(ctx, world):
    ctx.describe("A10", "every backward-time closure returned by a rule maker (and the vjp/jvp closures of make_vjp/make_jvp, defvjp, defvjp_argnum) is re-usable: it does not rebind (nonlocal) or mutate captured variables, and does not consume a captured one-shot iterator (map/zip/filter/generator created at construction time)")
    seen = set()
    n = 0
    makers = []
    for e in world.table.entries:
        if e.spec != "maker" or e.mode != "vjp" or not world.in_numpy_scope(e):
            continue
        ir = world.ir(e)
        if ir is None or ir.maker is None:
            continue
        fn = ir.maker.fnode
        if id(fn) in seen:
            continue
        seen.add(id(fn))
        makers.append((ir.maker.mod, fn, f"{e.prim_id}"))
    # kernel closures
    for modname, path in (("autograd.core", "make_vjp"), ("autograd.core", "defvjp"), ("autograd.core", "defvjp_argnum"), ("autograd.core", "translate_vjp"), ("autograd.differential_operators", "jacobian"), ("autograd.differential_operators", "make_ggnvp")):
        m, node = world.repo.find_def(modname, path)
        makers.append((m, node, f"{modname}.{path}"))
    for mod, fn, label in makers:
        inner = [x for x in ast.walk(fn) if isinstance(x, (ast.FunctionDef, ast.Lambda)) and x is not fn]
        # variables of the maker bound to one-shot iterators
        oneshot = {}
        for x in ast.walk(fn):
            if isinstance(x, ast.Assign) and len(x.targets) == 1 and isinstance(x.targets[0], ast.Name):
                v = x.value
                if _is_one_shot_expr(world, mod, v, 0):
                    if _encl(x) is fn or _encl(x) in inner:
                        oneshot[x.targets[0].id] = (x, _encl(x))
        for clo in inner:
            n += 1
            inst = f"{label}:{getattr(clo, 'name', 'lambda')}@{clo.lineno - fn.lineno}"
            local = _closure_locals(clo)
            bad = None
            body = [clo.body] if isinstance(clo, ast.Lambda) else clo.body
            for st in body:
                for x in ast.walk(st):
                    if _encl(x) is not clo:
                        continue
                    if isinstance(x, ast.Nonlocal):
                        bad = (x, "rebinds a captured variable (nonlocal)")
                    elif isinstance(x, ast.AugAssign):
                        root = _mut_target(x)
                        if root is not None and root not in local:
                            bad = (x, f"mutates the captured variable `{root}` in place")
                    elif isinstance(x, (ast.Assign, ast.For, ast.Delete, ast.AnnAssign)):
                        tg0 = list(x.targets) if isinstance(x, (ast.Assign, ast.Delete)) else [x.target]  # (a copy: the AST is shared)
                        flat = []
                        while tg0:
                            t0 = tg0.pop()
                            if isinstance(t0, (ast.Tuple, ast.List)):
                                tg0.extend(t0.elts)  # shape[i], shape[j] = shape[j], shape[i]
                            elif isinstance(t0, ast.Starred):
                                tg0.append(t0.value)
                            else:
                                flat.append(t0)
                        for t in flat:
                            if isinstance(t, (ast.Subscript, ast.Attribute)):
                                root = t
                                while isinstance(root, (ast.Subscript, ast.Attribute)):
                                    root = root.value
                                if isinstance(root, ast.Name) and root.id not in local:
                                    bad = (x, f"stores into the captured object `{root.id}`")
                    elif isinstance(x, ast.Call) and isinstance(x.func, ast.Attribute) and x.func.attr in INPLACE_METHODS and isinstance(x.func.value, ast.Name) and x.func.value.id not in local:
                        bad = (x, f"calls the mutating method .{x.func.attr}() on the captured `{x.func.value.id}`")
                    elif isinstance(x, ast.Name) and isinstance(x.ctx, ast.Load) and x.id in oneshot and x.id not in local and oneshot[x.id][1] is not clo:
                        bad = (x, f"consumes the one-shot iterator `{x.id}` created once at construction time (`{norm_text(oneshot[x.id][0])[:50]}`)")
            if bad is None:
                # A10.fresh: the closure hands out a buffer that was allocated ONCE at construction time
                rets = [clo.body] if isinstance(clo, ast.Lambda) else [x.value for st in clo.body for x in ast.walk(st) if isinstance(x, ast.Return) and _encl(x) is clo and x.value is not None]
                for rv in rets:
                    if isinstance(rv, ast.Name) and rv.id not in local:
                        for x in ast.walk(fn):
                            if isinstance(x, ast.Assign) and len(x.targets) == 1 and isinstance(x.targets[0], ast.Name) and x.targets[0].id == rv.id and _encl(x) is not clo:
                                v = x.value
                                alloc = isinstance(v, ast.Call) and getattr(v.func, "attr", getattr(v.func, "id", "")) in ("zeros", "ones", "empty", "zeros_like", "ones_like", "empty_like", "full", "copy", "array", "randn")
                                if alloc:
                                    bad = (x, f"returns `{rv.id}`, one buffer allocated at construction time and handed out on every call")
            if bad:
                ctx.fail("A10", inst, f"{label}|{norm_text(bad[0])[:80]}|{bad[1][:30]}", loc_of(mod, bad[0]), f"backward-time closure {bad[1]}: `{norm_text(bad[0])[:70]}`", "call the same VJP function twice (jacobian maps one vjp over a whole basis; hessian-vector products re-enter it): the second call sees the state left by the first")
            else:
                ctx.ob("A10", inst, True, loc_of(mod, clo))
    ctx.floor("A10 closures", n, 120)


def _is_one_shot_expr(world, mod, v, depth):
    """does the expression evaluate to a one-shot iterator: a generator expression, map/zip/filter/iter/..., a call of
    a generator function, or a call of a repo helper that returns one of these (two levels)"""
    if isinstance(v, ast.GeneratorExp):
        return True
    if isinstance(v, ast.IfExp):
        return _is_one_shot_expr(world, mod, v.body, depth) or _is_one_shot_expr(world, mod, v.orelse, depth)
    if isinstance(v, ast.Attribute) and v.attr == "flat":
        return True  # ndarray.flat is a numpy.flatiter: len() and indexing work, but iterating it a second time yields nothing
    if not isinstance(v, ast.Call):
        return False
    r0 = world.repo.resolve_expr(mod, v.func) if isinstance(v.func, (ast.Name, ast.Attribute)) else None
    if r0 is not None and r0.qual in ("numpy.nditer", "numpy.ndenumerate", "numpy.ndindex", "numpy.broadcast"):
        return True
    if isinstance(v.func, ast.Name) and v.func.id in ONE_SHOT and world.repo.resolve(mod, v.func.id) is not None and world.repo.resolve(mod, v.func.id).qual == "builtins." + v.func.id:
        return True
    r = world.repo.resolve_expr(mod, v.func) if isinstance(v.func, (ast.Name, ast.Attribute)) else None
    if r is not None and r.qual in ("itertools.chain", "itertools.starmap", "itertools.islice", "itertools.count", "itertools.repeat", "itertools.accumulate", "itertools.product", "itertools.compress", "itertools.takewhile", "itertools.dropwhile", "itertools.zip_longest"):
        return True
    if depth < 2 and r is not None and r.kind == "repo" and isinstance(r.node, ast.FunctionDef) and not r.node.decorator_list:
        own = [x for st in r.node.body for x in ast.walk(st) if _encl(x) is r.node]
        if any(isinstance(x, (ast.Yield, ast.YieldFrom)) for x in own):
            return True
        return any(isinstance(x, ast.Return) and x.value is not None and _is_one_shot_expr(world, r.mod, x.value, depth + 1) for x in own)
    return False


def _closure_locals(clo):
    names = set()
    a = clo.args
    for p in a.posonlyargs + a.args + a.kwonlyargs:
        names.add(p.arg)
    if a.vararg:
        names.add(a.vararg.arg)
    if a.kwarg:
        names.add(a.kwarg.arg)
    body = [clo.body] if isinstance(clo, ast.Lambda) else clo.body
    for st in body:
        for x in ast.walk(st):
            if isinstance(x, ast.Name) and isinstance(x.ctx, ast.Store):
                # a plain rebinding makes the name local to the closure (unless declared nonlocal)
                names.add(x.id)
            elif isinstance(x, (ast.FunctionDef,)):
                names.add(x.name)
            elif isinstance(x, ast.arg):
                names.add(x.arg)
    # names that are only ever the target of AugAssign/subscript-store are not made local by that
    plain = set()
    for st in body:
        for x in ast.walk(st):
            if isinstance(x, ast.Assign):
                for t in x.targets:
                    for e in ast.walk(t):
                        if isinstance(e, ast.Name) and isinstance(e.ctx, ast.Store) and not isinstance(getattr(e, "_parent", None), (ast.Subscript, ast.Attribute)):
                            plain.add(e.id)
            elif isinstance(x, (ast.For, ast.comprehension)):
                for e in ast.walk(x.target):
                    if isinstance(e, ast.Name):
                        plain.add(e.id)
            elif isinstance(x, (ast.With,)):
                for it in x.items:
                    if it.optional_vars is not None:
                        for e in ast.walk(it.optional_vars):
                            if isinstance(e, ast.Name):
                                plain.add(e.id)
            elif isinstance(x, ast.NamedExpr):
                plain.add(x.target.id)
    params = {p.arg for p in a.posonlyargs + a.args + a.kwonlyargs} | ({a.vararg.arg} if a.vararg else set()) | ({a.kwarg.arg} if a.kwarg else set())
    inner_args = set()
    for st in body:
        for x in ast.walk(st):
            if isinstance(x, ast.arg):
                inner_args.add(x.arg)
    return params | plain | inner_args


# ----------------------------------------------------------------------------------------- defvjp dispatch / A6.raise
def dispatch(ctx, world):
    ctx.describe("A13.align", "defvjp's three dispatch branches (L==1, L==2, generic) are specialisations of one mapping: result i is vjps_dict[argnums[i]](ans, *args, **kwargs)(g), in argnums order; defvjp_argnum / defjvp / defjvp_argnum pair each argnum with its own rule/tangent via zip(argnums, .); argnums= is honoured by zip(argnums, makers)")
    ev = world.ev
    clo_d, pre_d, prekw_d, osy, m, outer_fn, osc, reg_d = registered_closure(world, CORE, "defvjp", ".defvjp_argnums")
    node = clo_d.fnode
    loc = loc_of(m, node)
    q = "autograd.core.defvjp.vjp_argnums"
    argnums, ans, args, kw = (T("sym", name=n_, role="param") for n_ in ("argnums", "ans", "args", "kwargs"))
    r = ev.apply(clo_d, list(pre_d) + [argnums, ans, args, kw], dict(prekw_d), [])
    vd = _rule_dict(osc, ev)
    if vd is None:
        raise AnalysisError("defvjp no longer builds a dictionary of translated rules")
    # a rule dictionary built by a module-level helper is captured by the dispatchers as that call: the helper is kept
    # un-inlined here so that the captured value keeps its identity (its body is decided by the rule-dict clause)
    KEEP_D = set(KEEP)
    for outer_ in ("defvjp", "defjvp"):
        try:
            osc_k = registered_closure(world, CORE, outer_, ".def" + outer_[3:] + "_argnums")[6]
        except AnalysisError:
            continue
        dk = _rule_dict(osc_k, ev)
        if dk is not None and dk.op == "call" and dk.fn.op == "ref":
            KEEP_D.add(dk.fn.ref.qual)
    g = T("sym", name="g", role="g")
    vd_x = unseq(expand(ev, vd, KEEP_D))
    is_vd = lambda t: t is vd or t is vd_x or (vd.op == "call" and same(t, vd_x))

    def rule_call(t, idx_pred):
        """t == vjps_dict[<argnums[idx]>](ans, *args, **kwargs)(g)"""
        t = strip_seq(t)
        if t.op != "call" or len(t.args) != 1 or t.args[0] is not g:
            return False
        mk = strip_seq(t.fn)
        if mk.op != "call":
            return False
        if not (len(mk.args) == 2 and mk.args[0] is ans and mk.args[1].op == "star" and mk.args[1].x is args and len(mk.dstar) == 1 and mk.dstar[0] is kw):
            return False
        f = mk.fn
        return f.op == "sub" and is_vd(f.obj) and idx_pred(f.idx)

    def nth(i, L=None):
        # (on a path where len(argnums) == L is known, argnums[i - L] counted from the end is the same element)
        return lambda t: (t.op == "sub" and t.obj is argnums and t.idx.op == "const" and type(t.idx.value) is int and (t.idx.value == i or (L is not None and t.idx.value == i - L))) or False

    r = unseq(expand(ev, r, KEEP_D)) if r is not None else None
    checked = 0
    len_atom = lambda a: a.op == "cmp" and a.opname == "Eq" and ((is_call_to(a.l, "builtins.len") and a.l.args[0] is argnums and a.r.op == "const") or (is_call_to(a.r, "builtins.len") and a.r.args[0] is argnums and a.l.op == "const"))
    len_val = lambda a: a.r.value if a.r.op == "const" else a.l.value
    seen_L = set()
    generic_seen = False
    for c in cases(r) if r is not None else []:
        if c.leaf.op == "raise":
            continue  # the KeyError -> NotImplementedError translation (A6.raise)
        L = None
        for a, pol in c.facts:
            if len_atom(a) and pol:
                L = len_val(a)
        br = c.leaf
        if br.op != "closure":
            ctx.fail("A13.align", "defvjp:dispatch", f"{q}:dispatch", loc, f"a path of vjp_argnums does not return a vjp function (found {str(br)[:80]})", "any primitive with a defvjp rule")
            continue
        res = unseq(expand(ev, ev.apply(br, [g], {}, []), KEEP_D))
        if L is not None:
            if L in seen_L:
                continue
            seen_L.add(L)
            ok = res.op == "tuple" and len(res.elts) == L
            if ok:
                for i, el in enumerate(res.elts):
                    ok = ok and rule_call(el, nth(i, L))
            checked += 1
            if ok:
                ctx.ob("A13.align", f"defvjp: fast path L=={L} returns (vjps_dict[argnums[i]](ans,*args,**kwargs)(g) for i in order)", True, loc)
            else:
                ctx.fail("A13.align", f"defvjp:L=={L}", f"{q}:L{L}", loc, f"the L=={L} fast path is not the specialisation of the generic mapping (found {str(res)[:120]})", "a primitive differentiated w.r.t. arguments (1,) only, or (0, 1) with different rules: the cotangent is computed by the wrong rule or routed to the wrong parent")
        else:
            if generic_seen:
                continue
            generic_seen = True
            ok = False
            rs = res
            if rs.op == "call" and rs.fn.op == "ref" and rs.fn.ref.qual in ("builtins.tuple", "builtins.list") and len(rs.args) == 1:
                rs = rs.args[0]
            if rs.op == "comp" and not rs.conds:
                el = rs.elt
                # (vjp(g) for vjp in vjps)  with vjps = [vjps_dict[argnum](ans,*args,**kwargs) for argnum in argnums]
                if el.op == "call" and len(el.args) == 1 and el.args[0] is g and el.fn.op == "iterelem" and el.fn.src is rs.src:
                    src = rs.src
                    if src.op == "comp" and src.src is argnums and not src.conds:
                        mk = src.elt
                        ok = mk.op == "call" and mk.fn.op == "sub" and is_vd(mk.fn.obj) and mk.fn.idx.op == "iterelem" and mk.fn.idx.src is argnums and len(mk.args) == 2 and mk.args[0] is ans and mk.args[1].op == "star" and mk.args[1].x is args and len(mk.dstar) == 1 and mk.dstar[0] is kw and src.get("kind") == "ListComp"
            checked += 1
            if ok:
                ctx.ob("A13.align", "defvjp: generic path maps argnums in order through vjps_dict (rules built once, as a list)", True, loc)
            else:
                ctx.fail("A13.align", "defvjp:generic", f"{q}:generic", loc, f"the generic path is not `vjps = [vjps_dict[a](ans,*args,**kwargs) for a in argnums]; lambda g: (vjp(g) for vjp in vjps)` (found {str(res)[:120]})", "a primitive with three or more differentiated arguments")
    if not generic_seen:
        ctx.fail("A13.align", "defvjp:generic", f"{q}:generic", loc, "vjp_argnums has no path for an arbitrary number of differentiated arguments", "a primitive with three or more differentiated arguments")
    ctx.floor("A13.align defvjp branches", checked, 1)
    # extra dispatchers: a registration function that hands a special-cased dispatcher to the *_argnums API on some
    # path (a "single-rule fast path") still has to select the rule BY the differentiated argument: the dispatcher is
    # called with the argnums that are traced, whatever was registered.  One that looks at len(argnums) only applies
    # its rule to whichever argument happens to be traced.
    for (modname_, outer_), extras_ in sorted(getattr(world, "extra_dispatchers", {}).items()):
        for reg_, clo_x, pre_x, prekw_x in extras_:
            inst_ = f"{outer_}: extra dispatcher `{norm_text(reg_.node)[:50] if reg_.node is not None else '?'}`"
            loc_x = loc_of(world.repo.mod(modname_), reg_.node) if reg_.node is not None else loc
            if clo_x is None:
                ctx.ob("A13.align", inst_, None, loc_x)
                continue
            a_ = clo_x.fnode.args
            nparams = len(a_.posonlyargs + a_.args)
            psyms = [T("sym", name=p_.arg, role="param") for p_ in (a_.posonlyargs + a_.args)]
            k_an = len(pre_x)  # the first parameter the API supplies is `argnums`
            if k_an >= nparams:
                ctx.ob("A13.align", inst_, None, loc_x)
                continue
            an_ = psyms[k_an]
            body_ = ev.apply(clo_x, list(pre_x) + psyms[k_an:], dict(prekw_x), [])
            body_ = unseq(expand(ev, body_, KEEP_D)) if body_ is not None else None
            reads_elements = False
            for t_ in (walk(body_) if body_ is not None else []):
                if t_.op == "sub" and t_.obj is an_:
                    reads_elements = True
                elif t_.op == "iterelem" and any(x_ is an_ for x_ in walk(t_.src)):
                    reads_elements = True
                elif t_.op == "cmp" and (t_.l is an_ or t_.r is an_) and t_.opname in ("Eq", "NotEq", "In", "NotIn"):
                    reads_elements = True
                elif t_.op == "star" and t_.x is an_:
                    reads_elements = True
                elif t_.op == "comp" and any(x_ is an_ for x_ in walk(t_.src)):
                    reads_elements = True
            if reads_elements:
                ctx.ob("A13.align", inst_, True, loc_x, sample="selects by the elements of argnums")
            else:
                ctx.fail("A13.align", inst_, f"autograd.core.{outer_}|extra-dispatcher-ignores-argnums", loc_x, f"{outer_} registers a second dispatcher on a special path that never looks at WHICH arguments are differentiated (the elements of its `argnums` parameter; at most their number): its rule is applied to whatever argument is traced, and an argument without a rule no longer raises", "a primitive with one registered rule called with a different argument traced: defvjp(f, rule_for_arg0) and grad(f, 1)")
    # vjps_dict = {argnum: translate_vjp(maker, fun, argnum) for argnum, maker in zip(argnums, makers)}
    for fname, tr, dname in (("defvjp", "translate_vjp", "vjps_dict"), ("defjvp", "translate_jvp", "jvps_dict")):
        rr, sy, m2, fn, scd = eval_function(world, CORE, fname)
        kwv, mk_s, fun_s = sy[fn.args.kwarg.arg] if fn.args.kwarg else None, sy[fn.args.vararg.arg] if fn.args.vararg else None, sy[fn.args.args[0].arg]
        kwonly = [sy[a_.arg] for a_ in fn.args.kwonlyargs]
        d = _rule_dict(scd, world.ev, structure=True)
        d = unseq(expand(ev, d, KEEP)) if d is not None else None  # (helpers that select the argnums option inlined)
        is_count = lambda c: is_call_to(c, "itertools.count") and not c.args and not c.kw

        def is_argnums(t):
            # kwargs.get("argnums", count())  |  kwargs["argnums"] if "argnums" in kwargs else count()
            # |  count() if argnums is None else argnums   (keyword-only parameter with default None)
            if kwv is not None and t.op == "call" and t.fn.op == "attr" and t.fn.name == "get" and t.fn.obj is kwv and len(t.args) == 2 and t.args[0].op == "const" and t.args[0].value == "argnums":
                return is_count(t.args[1])
            if t.op == "if":
                a, pol = atom(t.cond)
                yes, no = (t.then, t.other) if pol else (t.other, t.then)
                if kwv is not None and a.op == "cmp" and a.opname == "In" and a.l.op == "const" and a.l.value == "argnums" and a.r is kwv:
                    return yes.op == "sub" and yes.obj is kwv and yes.idx.op == "const" and yes.idx.value == "argnums" and is_count(no)
                if a.op == "cmp" and a.opname in ("Is", "Eq") and _is_none(a.r) and any(a.l is k_ for k_ in kwonly):
                    return is_count(yes) and no is a.l
            return False

        def translated(v, e_mk, e_an):
            return is_call_to(v, f"autograd.core.{tr}") and len(v.args) == 3 and not v.kw and e_mk(v.args[0]) and v.args[1] is fun_s and e_an(v.args[2])

        okz = False
        if d is not None and mk_s is not None and d.op == "comp" and not d.conds:
            z = d.src
            zok = is_call_to(z, "builtins.zip") and len(z.args) == 2 and not z.kw and is_argnums(z.args[0]) and z.args[1] is mk_s
            e_an = lambda t: t.op == "sub" and t.obj.op == "iterelem" and t.obj.src is z and t.idx.op == "const" and t.idx.value == 0
            e_mk = lambda t: t.op == "sub" and t.obj.op == "iterelem" and t.obj.src is z and t.idx.op == "const" and t.idx.value == 1
            el = d.elt
            if zok and el.op == "tuple" and len(el.elts) == 2 and e_an(el.elts[0]):
                okz = translated(el.elts[1], e_mk, e_an)
        elif d is not None and mk_s is not None and is_call_to(d, "builtins.dict") and is_call_to(d.args[0], "builtins.zip") and len(d.args[0].args) == 2:
            # dict(zip(keys, values)) with values = [translate(maker, fun, key) for key, maker in zip(keys', makers)]:
            # each maker must be translated with the key it is stored under (keys' the same sequence as keys)
            K, V = d.args[0].args
            Vc = V.args[0] if (V.op == "call" and V.fn.op == "ref" and V.fn.ref.qual in ("builtins.list", "builtins.tuple") and len(V.args) == 1) else V
            if is_argnums(K) and Vc.op == "comp" and not Vc.conds:
                z = Vc.src
                zok = is_call_to(z, "builtins.zip") and len(z.args) == 2 and not z.kw and same(z.args[0], K) and z.args[1] is mk_s
                e_an = lambda t: t.op == "sub" and t.obj.op == "iterelem" and t.obj.src is z and t.idx.op == "const" and t.idx.value == 0
                e_mk = lambda t: t.op == "sub" and t.obj.op == "iterelem" and t.obj.src is z and t.idx.op == "const" and t.idx.value == 1
                okz = bool(zok) and translated(Vc.elt, e_mk, e_an)
        if okz:
            ctx.ob("A13.align", f"{fname}: rules keyed by zip(argnums= or 0,1,2.., makers) and translated with their own argnum", True, loc_of(m2, fn))
        else:
            ctx.fail("A13.align", f"{fname}:dict", f"autograd.core.{fname}:rule-dict", loc_of(m2, fn), f"{fname} does not build {{argnum: {tr}(maker, fun, argnum) for argnum, maker in zip(kwargs.get('argnums', count()), makers)}}", "defvjp(f, rule, argnums=(1,)) or a None rule for argument 1")
    # jvp_argnums: sum_outgrads(jvps_dict[argnum](g, ans, *args, **kwargs) for argnum, g in zip(argnums, gs))
    for path, kind, outer_name, api in (("defjvp.jvp_argnums", "dict", "defjvp", ".defjvp_argnums"), ("defjvp_argnum.jvp_argnums", "maker", "defjvp_argnum", ".defjvp_argnums"), ("defvjp_argnum.vjp_argnums", "vmaker", "defvjp_argnum", ".defvjp_argnums")):
        clo3, pre3, prekw3, osy3, m3, outer3, osc3, reg3 = registered_closure(world, CORE, outer_name, api)
        node3 = clo3.fnode
        loc3 = loc_of(m3, node3)
        ok = False
        if kind in ("dict", "maker"):
            an, gs, a_, ar, kw_ = (T("sym", name=n_, role="param") for n_ in ("argnums", "gs", "ans", "args", "kwargs"))
            r = ev.apply(clo3, list(pre3) + [an, gs, a_, ar, kw_], dict(prekw3), [])
        else:
            an = T("sym", name="argnums", role="param")
            star_args = T("sym", name="args", role="param", star=True)
            r = ev.apply(clo3, list(pre3) + [an, T("star", x=star_args)], dict(prekw3), [])
        r = unseq(expand(ev, r, KEEP_D)) if r is not None else None
        if kind in ("dict", "maker"):
            # the sum, by add_outgrads from None, of one term per (argnum, g) of zip(argnums, gs): written with
            # sum_outgrads(<generator>), functools.reduce, or an accumulation loop (fold normal form)
            from ..tutil import as_fold, fuse_source

            z = el = None
            if is_call_to(r, "autograd.core.sum_outgrads") and len(r.args) == 1 and not r.kw:
                z, el = fuse_source(r.args[0])
            elif r is not None and r.op == "sub" and r.idx.op == "const" and r.idx.value == 0 and type(r.idx.value) is int:
                fd = as_fold(ev, r.obj)
                if fd is not None and fd[0].op == "ref" and fd[0].ref.qual == "autograd.core.add_outgrads" and fd[1] is not None and fd[1].op == "const" and fd[1].value is None:
                    z, el = fd[2], fd[3]
            if z is not None:
                zok = is_call_to(z, "builtins.zip") and len(z.args) == 2 and not z.kw and z.args[0] is an and z.args[1] is gs
                el = strip_seq(el)
                _e_src = lambda t: t.op == "iterelem" and t.src is z
                e_an = lambda t: t.op == "sub" and _e_src(t.obj) and t.idx.op == "const" and t.idx.value == 0
                e_g = lambda t: t.op == "sub" and _e_src(t.obj) and t.idx.op == "const" and t.idx.value == 1
                if kind == "dict":
                    jd = _rule_dict(osc3, ev)
                    jd_x = unseq(expand(ev, jd, KEEP_D)) if jd is not None else None
                    ok = zok and el.op == "call" and el.fn.op == "sub" and (el.fn.obj is jd or (jd is not None and jd.op == "call" and same(el.fn.obj, jd_x))) and e_an(el.fn.idx) and len(el.args) == 3 and e_g(el.args[0]) and el.args[1] is a_ and el.args[2].op == "star" and el.args[2].x is ar and len(el.dstar) == 1 and el.dstar[0] is kw_
                else:
                    jm = osy3["#1"]
                    ok = zok and el.op == "call" and el.fn is jm and len(el.args) == 5 and e_an(el.args[0]) and e_g(el.args[1]) and el.args[2] is a_ and el.args[3] is ar and el.args[4] is kw_
        else:
            vm = osy3["#1"]
            if r.op == "closure":
                g2 = T("sym", name="g", role="g")
                res = strip_seq(unseq(expand(ev, ev.apply(r, [g2], {}, []), KEEP_D)))
                if res.op == "comp" and not res.conds:
                    el = strip_seq(res.elt)
                    if el.op == "call" and len(el.args) == 1 and el.args[0] is g2 and el.fn.op == "iterelem" and el.fn.src is res.src:
                        src = el.fn.src
                        if src.op == "comp" and src.src is an and src.get("kind") == "ListComp":
                            mk = strip_seq(src.elt)
                            ok = mk.op == "call" and mk.fn is vm and len(mk.args) == 2 and mk.args[0].op == "iterelem" and mk.args[0].src is an and mk.args[1].op == "star" and mk.args[1].x is star_args
        if ok:
            ctx.ob("A13.align", f"{path}: each argnum paired with its own rule / tangent in argnums order", True, loc3)
        else:
            ctx.fail("A13.align", path, f"autograd.core.{path}", loc3, f"{path} no longer pairs each differentiated argnum with its own rule and tangent via zip(argnums, gs) in order (found {str(r)[:120]})", "a primitive differentiated w.r.t. two arguments with different tangents/rules")
    # sum_outgrads = reduce(add_outgrads, gs, None)[0]
    r, syms, m4, node4, sc4 = eval_function(world, CORE, "sum_outgrads")
    r = strip_seq(r)
    ok = False
    if r.op == "sub" and r.idx.op == "const" and r.idx.value == 0:
        acc = r.obj
        if is_call_to(acc, "functools.reduce"):
            ok = len(acc.args) == 3 and acc.args[0].op == "ref" and acc.args[0].ref.qual == "autograd.core.add_outgrads" and acc.args[1] is syms["#0"] and acc.args[2].op == "const" and acc.args[2].value is None
        elif acc.op == "loop" and acc.get("it") is syms["#0"]:
            # total = None; for g in gs: total = add_outgrads(total, g)
            nx = acc.next
            me_ = lambda t: t.op == "loopvar" and t.name == acc.name and t.node is acc.node
            ok = acc.init is not None and acc.init.op == "const" and acc.init.value is None and is_call_to(nx, "autograd.core.add_outgrads") and len(nx.args) == 2 and not nx.kw and me_(nx.args[0]) and nx.args[1].op == "iterelem" and nx.args[1].src is syms["#0"]
    if ok:
        ctx.ob("A13.align", "sum_outgrads = reduce(add_outgrads, gs, None)[0]", True, loc_of(m4, node4))
    else:
        ctx.fail("A13.align", "sum_outgrads", "autograd.core.sum_outgrads", loc_of(m4, node4), "forward-mode tangents are not summed with reduce(add_outgrads, gs, None)[0]", "forward mode through a primitive with two differentiated arguments")


def programmatic_registrations(ctx, world):
    """A13.align, registration clause: a function of core.py that registers rules itself (the deprecated defvjp /
    defvjp_is_zero / defgrad adapters) passes makers and argnums= of the same length: defvjp pairs them with zip, so
    a shorter maker list silently drops the remaining declarations"""
    from ..tutil import norm_seq

    ctx.describe("A13.align/registrations", "every call defvjp(f, *makers, argnums=A) / defjvp(...) made from inside a function of core.py has len(makers) == len(A) by construction: both are length-preserving views (sorted / tuple / list / a comprehension without filter / a column of zip(*pairs) / [c] * len(.)) of one and the same collection")
    ev = world.ev

    def base(t, depth=0):
        while t is not None and t.op == "seq":
            t = t.value
        if t is None or depth > 8:
            return t
        if t.op == "star":
            return base(t.x, depth + 1)
        if t.op == "call" and t.fn.op == "ref" and t.fn.ref.qual in ("builtins.sorted", "builtins.tuple", "builtins.list", "builtins.reversed", "builtins.iter") and len(t.args) == 1:
            return base(t.args[0], depth + 1)
        if t.op == "call" and t.fn.op == "attr" and t.fn.name in ("keys", "items", "values") and not t.args:
            return base(t.fn.obj, depth + 1)
        if t.op == "call" and t.fn.op == "ref" and t.fn.ref.qual in ("builtins.map", "itertools.starmap") and len(t.args) == 2 and not t.kw:
            return base(t.args[1], depth + 1)  # one result per element
        if t.op == "call" and t.fn.op == "ref" and t.fn.ref.qual == "itertools.repeat" and len(t.args) == 2 and is_call_to(t.args[1], "builtins.len") and len(t.args[1].args) == 1:
            return base(t.args[1].args[0], depth + 1)
        if t.op == "bin" and t.opname == "Mult":
            for seq_, k_ in ((t.l, t.r), (t.r, t.l)):
                if seq_.op in ("list", "tuple") and len(seq_.elts) == 1 and is_call_to(k_, "builtins.len") and len(k_.args) == 1:
                    return base(k_.args[0], depth + 1)
        n_ = norm_seq(t)
        if n_.op == "comp" and not n_.conds and n_.get("kind") in ("GeneratorExp", "ListComp"):
            return base(n_.src, depth + 1)
        return t

    n = 0
    for name in ("deprecated_defvjp", "deprecated_defvjp_is_zero", "deprecated_defgrad"):
        try:
            clo, top, syms, m, fn, sc = returned_closure(world, CORE, name)
        except Exception:
            continue
        a = clo.fnode.args
        ps = [T("sym", name=p.arg, role="param") for p in a.posonlyargs + a.args]
        ev.apply(clo, ps, {}, [])
        cs = ev._last_scope
        for e in list(cs.effects) if cs is not None else []:
            for t in walk(unseq(expand(ev, e, {"autograd.core.defvjp", "autograd.core.defjvp"}))):
                if not (t.op == "call" and t.fn.op == "ref" and t.fn.ref.qual in ("autograd.core.defvjp", "autograd.core.defjvp") and "argnums" in t.kw):
                    continue
                stars = [x for x in t.args[1:] if x.op == "star"]
                if len(stars) != 1 or len(t.args) != 2:
                    continue
                n += 1
                bm, ba = base(stars[0]), base(t.kw["argnums"])
                ok = bm is ba or same(bm, ba)
                inst = f"autograd.core.{name}: makers and argnums= have the same length by construction"
                if ok:
                    ctx.ob("A13.align", inst, True, loc_of(m, clo.fnode))
                else:
                    ctx.fail("A13.align", inst, f"autograd.core.{name}:maker-argnums-length", loc_of(m, clo.fnode), f"the makers handed to defvjp are sized from `{str(bm)[:50]}` but argnums= from `{str(ba)[:50]}`: zip(argnums, makers) silently drops what does not pair up", "a primitive whose rules are declared by several calls of the adapter (f.defvjp_is_zero(argnums=(0,)); f.defvjp_is_zero(argnums=(1,))): only part of the declarations survive")
    ctx.floor("A13.align programmatic registrations seen", n, 1)


def _isbox_known_true(test, taken):
    """does taking (taken=True) / not taking the branch on `test` establish isbox(...)?"""
    pol = bool(taken)
    while isinstance(test, ast.UnaryOp) and isinstance(test.op, ast.Not):
        test, pol = test.operand, not pol
    return pol and isinstance(test, ast.Call) and isinstance(test.func, ast.Name) and test.func.id == "isbox"


def _resolve_unpack(t):
    return t


def raise_discipline(ctx, world):
    ctx.describe("A6.raise", "every except handler on the rule-lookup / boxing path (VJPNode.__init__, JVPNode.__init__, defvjp.vjp_argnums, new_box, vspace) ends in raise on all paths; rule lookup uses indexing, never a defaulting accessor")
    targets = [(CORE, "VJPNode.__init__", "primitive_vjps"), (CORE, "JVPNode.__init__", "primitive_jvps"), (CORE, "defvjp.vjp_argnums", "vjps_dict"), ("autograd.tracer", "new_box", "box_type_mappings"), (CORE, "vspace", "mappings"), (CORE, "defjvp.jvp_argnums", "jvps_dict")]
    n = 0
    for modname, path, table in targets:
        q = f"{modname}.{path}"
        if "." in path and path.split(".")[0] in ("defvjp", "defjvp"):
            # the dispatcher is whatever function the registration hands to def*_argnums, and the rule dictionary is
            # the local it captured: both found by value (not by name / nesting)
            outer_name = path.split(".")[0]
            clo_, pre_, prekw_, osy_, m, outer_fn_, osc_, reg_ = registered_closure(world, modname, outer_name, ".defvjp_argnums" if outer_name == "defvjp" else ".defjvp_argnums")
            fn = clo_.fnode
            dterm_ = _rule_dict(osc_, world.ev)
            dvar = next((nm_ for nm_, v_ in osc_.vars.items() if v_ is dterm_), None) if dterm_ is not None else None
            if dvar is not None:
                table = dvar
                # inside a module-level factory the captured dict has the factory's parameter name
                if isinstance(fn, ast.FunctionDef) and getattr(fn, "_parent", None) is not outer_fn_:
                    call_ = reg_.args[-1]
                    if call_.op == "call":
                        fac, fpre, fkw = world.ev.as_closure(call_.fn)
                        if fac is not None:
                            fparams = [a_.arg for a_ in fac.fnode.args.args]
                            for i_, a_ in enumerate(call_.args):
                                if a_ is osc_.vars[dvar] and i_ < len(fparams):
                                    table = fparams[i_]
            m = world.repo.mods[clo_.mod.name] if hasattr(clo_.mod, "name") else m
        else:
            m, fn = world.repo.find_def(modname, path)
        loc = loc_of(m, fn)
        # the lookup may sit in a helper that is handed the table (rule = _rule_for(primitive_vjps, fun, ...)): such
        # helpers are part of the lookup path, under the name of the parameter that receives the table
        scopes = [(fn, table)]
        for x in ast.walk(fn):
            if isinstance(x, ast.Call) and isinstance(x.func, (ast.Name, ast.Attribute)):
                hr = world.repo.resolve_expr(m, x.func)
                if hr is not None and hr.kind == "repo" and isinstance(hr.node, ast.FunctionDef) and not hr.node.decorator_list and hr.node is not fn:
                    hp = [a_.arg for a_ in hr.node.args.posonlyargs + hr.node.args.args]
                    nm_of = lambda b_: b_.id if isinstance(b_, ast.Name) else (b_.attr if isinstance(b_, ast.Attribute) else None)
                    for i_, a_ in enumerate(x.args):
                        if nm_of(a_) == table and i_ < len(hp):
                            scopes.append((hr.node, hp[i_]))
                    for k_ in x.keywords:
                        if k_.arg in hp and nm_of(k_.value) == table:
                            scopes.append((hr.node, k_.arg))
        # 1. lookups by indexing
        lookups = []
        defaulting = []
        for fn_s, table_s in scopes:
          # aliases of the raising accessor bound in this or an enclosing function: fetch = table.__getitem__
          getters = set()
          anc = fn_s
          while anc is not None:
              if isinstance(anc, (ast.FunctionDef, ast.Lambda, ast.Module)):
                  for y in ast.walk(anc):
                      if isinstance(y, ast.Assign) and len(y.targets) == 1 and isinstance(y.targets[0], ast.Name) and isinstance(y.value, ast.Attribute) and y.value.attr == "__getitem__":
                          b_ = y.value.value
                          if (b_.id if isinstance(b_, ast.Name) else (b_.attr if isinstance(b_, ast.Attribute) else None)) == table_s:
                              getters.add(y.targets[0].id)
              anc = getattr(anc, "_parent", None)
          for x in ast.walk(fn_s):
            if getters and isinstance(x, ast.Name) and isinstance(x.ctx, ast.Load) and x.id in getters:
                lookups.append(x)
            if isinstance(x, ast.Subscript) and isinstance(x.ctx, ast.Load):
                base = x.value
                nm = base.id if isinstance(base, ast.Name) else (base.attr if isinstance(base, ast.Attribute) else None)
                if nm == table_s:
                    lookups.append(x)
            if isinstance(x, ast.Attribute) and x.attr == "__getitem__" and isinstance(x.ctx, ast.Load):
                # table.__getitem__ (called directly or through an alias) is the same raising lookup as table[key]
                base = x.value
                nm = base.id if isinstance(base, ast.Name) else (base.attr if isinstance(base, ast.Attribute) else None)
                if nm == table_s:
                    lookups.append(x)
            if isinstance(x, ast.Call) and isinstance(x.func, ast.Attribute) and x.func.attr in ("get", "setdefault", "pop"):
                base = x.func.value
                nm = base.id if isinstance(base, ast.Name) else (base.attr if isinstance(base, ast.Attribute) else None)
                if nm == table_s:
                    defaulting.append(x)
        n += 1
        if defaulting:
            ctx.fail("A6.raise", f"{q}:lookup", f"{q}:defaulting-lookup", loc_of(m, defaulting[0]), f"rule / type lookup uses a defaulting accessor: `{norm_text(defaulting[0])[:60]}`", "a primitive (or argument, or value type) without a registered rule: a default is used instead of raising")
        elif lookups:
            ctx.ob("A6.raise", f"{q}: lookup in {table} by indexing", True, loc)
        else:
            ctx.fail("A6.raise", f"{q}:lookup", f"{q}:no-lookup", loc, f"no indexing lookup of {table} found", "a missing rule")
        # 2. handlers end in raise
        for x in [y for fn_s, _t in scopes for y in ast.walk(fn_s)]:
            if isinstance(x, ast.Try):
                for h in x.handlers:
                    n += 1
                    ps = paths(h.body)
                    ends = {p[-1].kind for p in ps}
                    if path == "vspace":
                        # vspace: KeyError -> retry on the unboxed value if it is a box, else raise TypeError
                        ok = True
                        for p in ps:
                            last = p[-1]
                            if last.kind == "raise":
                                continue
                            if last.kind == "return":
                                v = last.node.value
                                rec = isinstance(v, ast.Call) and isinstance(v.func, ast.Name) and v.func.id == "vspace"
                                guarded = any(e.kind == "cond" and _isbox_known_true(e.node, e.extra) for e in p)
                                ok = ok and rec and guarded
                            else:
                                ok = False
                    else:
                        ok = ends == {"raise"}
                    inst = f"{q}: except {norm_text(h.type) if h.type else ''}"
                    if ok:
                        ctx.ob("A6.raise", inst + " ends in raise on all paths", True, loc_of(m, h))
                    else:
                        ctx.fail("A6.raise", inst, f"{q}:handler-swallows", loc_of(m, h), f"an except handler on the lookup path does not end in `raise` on every path (ends: {sorted(ends)})", "differentiating through a primitive / argument / value type without a rule: the failure is swallowed and a wrong (zero or truncated) derivative is returned")
    ctx.floor("A6.raise instances", n, 8)
    node_slots(ctx, world)


def node_slots(ctx, world):
    """A2.slot - Node.__init__ hands the rule maker exactly what the wrapper gave it: the (still boxed, for lower
    traces) answer, arguments and keywords, unmodified and in the documented order"""
    from ..tutil import expand, unseq

    ctx.describe("A2.slot", "every Node constructor takes (value, fun, args, kwargs, parent_argnums, parents) and hands (parent_argnums, value, args, kwargs) [+ parent tangents] to the rule maker stored for the primitive")
    for cls, tab, extra in (("VJPNode", "primitive_vjps", 0), ("JVPNode", "primitive_jvps", 1)):
        m, fn = world.repo.find_def(CORE, f"{cls}.__init__")
        ps = [a.arg for a in fn.args.args]
        ok = len(ps) == 7
        okp = False
        if ok:
            n0 = len(world.ev.effects)
            rr, sy, m_, fn_, sc_ = eval_function(world, CORE, f"{cls}.__init__")
            stores = [e[1] for e in world.ev.effects[n0:] if e[0] == "setattr" and e[1].obj is sy[ps[0]]]
            value, fun, args, kwargs, pargn, parents = [sy[x] for x in ps[1:]]
            slot = "vjp" if extra == 0 else "g"
            tgt = [st_ for st_ in stores if st_.idx.value == slot]
            ok = len(tgt) == 1
            if ok:
                c = unseq(expand(world.ev, tgt[0].val, KEEP))
                is_maker = lambda t: t.op == "sub" and t.obj.op == "ref" and t.obj.ref.qual == f"autograd.core.{tab}" and t.idx is fun
                ok = c.op == "call" and is_maker(c.fn) and not c.kw and not c.dstar
                if ok and extra == 0:
                    ok = len(c.args) == 4 and c.args[0] is pargn and c.args[1] is value and c.args[2] is args and c.args[3] is kwargs
                elif ok:
                    ok = len(c.args) == 5 and c.args[0] is pargn and c.args[2] is value and c.args[3] is args and c.args[4] is kwargs
                    pg = c.args[1] if ok else None
                    # parent_gs = [parent.g for parent in parents]  (in order, unfiltered)
                    if ok and pg.op == "call" and pg.fn.op == "ref" and pg.fn.ref.qual in ("builtins.list", "builtins.tuple") and len(pg.args) == 1:
                        pg = pg.args[0]
                    ok = ok and pg.op == "comp" and not pg.conds and pg.get("kind") in ("ListComp", "GeneratorExp") and pg.src is parents and pg.elt.op == "attr" and pg.elt.name == "g" and pg.elt.obj.op == "iterelem" and pg.elt.obj.src is parents
            okp = any(st_.idx.value == "parents" and st_.val is parents for st_ in stores)
        if ok:
            ctx.ob("A2.slot", f"{cls}.__init__: maker = {tab}[fun]; maker(parent_argnums, {'parent_gs, ' if extra else ''}value, args, kwargs)", True, loc_of(m, fn))
        else:
            ctx.fail("A2.slot", f"{cls}.__init__", f"autograd.core.{cls}.__init__:slots", loc_of(m, fn), f"{cls}.__init__ does not look the maker up by `fun` and call it with (parent_argnums, {'parent_gs, ' if extra else ''}value, args, kwargs) in that order", "any primitive call: rules receive the answer where they expect the arguments")
        if cls == "VJPNode":
            if okp:
                ctx.ob("A2.slot", "VJPNode.__init__: self.parents = parents", True, loc_of(m, fn))
            else:
                ctx.fail("A2.slot", "VJPNode.parents", "autograd.core.VJPNode.__init__:parents", loc_of(m, fn), "VJPNode does not store the parents it was given", "any graph with more than one node")


def notrace_callers(ctx, world):
    """A6.notrace - declaring a primitive non-differentiable for a node type (register_notrace) makes the wrapper drop
    every box of that type before the node constructor - and with it the rule lookup that raises for a missing rule -
    is reached.  It is a declaration about ALL arguments of a function, made by whoever owns the function; the
    registration API (defvjp, defjvp, def_linear, the node constructors, the wrapper ...) sees one call with some
    makers and cannot know the arity.  So: inside the kernel modules nothing but the definition itself mentions
    register_notrace in a function body; every use is a module-level declaration (which the Rule Table reads)."""
    ctx.describe("A6.notrace", "register_notrace is used only in module-level declarations: no function of the kernel modules (core, tracer, extend, builtins, wrap_util, util, differential_operators) calls it or hands it on (partial / alias), so no rule registration can switch off the rule lookup - and its `missing rule` error - of a primitive as a side effect")
    kernel = [m for m in world.repo.mods.values() if not m.name.startswith(("autograd.numpy", "autograd.scipy", "autograd.misc", "autograd.test_util"))]
    target = "autograd.tracer.register_notrace"
    m0, fn0 = world.repo.find_def("autograd.tracer", "register_notrace")
    n_decl = 0
    for mod in world.repo.mods.values():
        for x in ast.walk(mod.tree):
            if not isinstance(x, (ast.Name, ast.Attribute)) or not isinstance(getattr(x, "ctx", None), ast.Load):
                continue
            if (x.id if isinstance(x, ast.Name) else x.attr) not in _names_of(world, mod, target):
                continue
            r = world.repo.resolve_expr(mod, x)
            if r is None or getattr(r, "qual", None) != target and getattr(r, "node", None) is not fn0:
                continue
            par = getattr(x, "_parent", None)
            if isinstance(par, ast.Attribute):
                continue  # the inner part of a longer dotted expression
            fn = _encl(x)
            if fn is None:
                n_decl += 1
                continue
            if mod not in kernel:
                n_decl += 1
                continue  # a registration helper of a rule module: expanded (or reported undecided) by the Rule Table
            inst = f"{mod.name}.{getattr(fn, 'name', '<lambda>')}: {norm_text(par if isinstance(par, ast.Call) else x)[:60]}"
            ctx.fail("A6.notrace", inst, f"{mod.name}.{getattr(fn, 'name', '<lambda>')}|uses-register_notrace", loc_of(mod, x), f"`{norm_text(par if isinstance(par, ast.Call) else x)[:70]}` inside {mod.name}.{getattr(fn, 'name', '<lambda>')}: a kernel function declares primitives non-differentiable at run time - the wrapper then never builds a node for them, every argument silently gets a zero derivative and a missing rule no longer raises", "a user-defined primitive with more arguments than rules (or registered in several calls), differentiated with respect to an argument without a rule")
    # the table itself: grown by register_notrace only (a kernel function that adds to it directly is the same defect)
    table = None
    for x in ast.walk(fn0):
        if isinstance(x, ast.Call) and isinstance(x.func, ast.Attribute) and x.func.attr in ("add", "update"):
            b = x.func.value
            while isinstance(b, (ast.Subscript, ast.Attribute)):
                b = b.value
            if isinstance(b, ast.Name):
                table = b.id
    if table is None:
        raise AnalysisError("register_notrace no longer adds to a module-level table: A6.notrace lost its anchor")
    tq = f"autograd.tracer.{table}"
    for mod in kernel:
        for fq, fnode in mod.functions():
            if fnode is fn0:
                continue
            for x in ast.walk(fnode):
                if _encl(x) is not fnode:
                    continue
                base = None
                if isinstance(x, ast.Call) and isinstance(x.func, ast.Attribute) and x.func.attr in ("add", "update", "__setitem__", "setdefault", "__ior__"):
                    base = x.func.value
                elif isinstance(x, (ast.Assign, ast.AugAssign)):
                    for t in x.targets if isinstance(x, ast.Assign) else [x.target]:
                        if isinstance(t, ast.Subscript):
                            base = t
                if base is None:
                    continue
                while isinstance(base, ast.Subscript):
                    base = base.value
                if not isinstance(base, (ast.Name, ast.Attribute)):
                    continue
                r = world.repo.resolve_expr(mod, base)
                if r is not None and getattr(r, "qual", None) == tq:
                    ctx.fail("A6.notrace", f"{fq}: {norm_text(x)[:60]}", f"{fq}|grows-notrace-table", loc_of(mod, x), f"`{norm_text(x)[:70]}` in {fq} adds to the table of non-differentiable primitives outside register_notrace", "a user-defined primitive with more arguments than rules, differentiated with respect to an argument without a rule")
    ctx.ob("A6.notrace", f"no kernel function mentions register_notrace or grows {tq}; {n_decl} module-level declaration site(s)", True, "autograd/*", nontrivial=True)
    ctx.floor("A6.notrace declaration sites outside the kernel", n_decl, 2)


def _names_of(world, mod, target):
    """the names under which `target` is visible in `mod` (definition, from-imports with `as`, re-exports)"""
    cache = world.__dict__.setdefault("_names_of_cache", {})
    k = (mod.name, target)
    if k not in cache:
        short = target.rsplit(".", 1)[1]
        names = {short}
        for st in ast.walk(mod.tree):
            if isinstance(st, ast.ImportFrom):
                for a in st.names:
                    if a.name == short and a.asname:
                        names.add(a.asname)
            elif isinstance(st, ast.Assign) and isinstance(st.value, (ast.Name, ast.Attribute)) and (st.value.id if isinstance(st.value, ast.Name) else st.value.attr) in names:
                for t in st.targets:
                    if isinstance(t, ast.Name):
                        names.add(t.id)
        cache[k] = names
    return cache[k]
