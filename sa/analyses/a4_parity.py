"""A4.parity - conjugation parity of complex rules.  For a complex argument every VJP (and JVP) of this library is
a COMPLEX-linear function of the cotangent (tangent) - `g * f'(x)` for holomorphic f, with conjugations only on the
factors - except for the conjugation primitives themselves, whose rules are anti-linear (`conj(g)`).  An odd number of
conjugations applied to the (co)tangent itself therefore conjugates the whole derivative.  Domain per term:
Z (independent of g), G (complex-linear in g), B (anti-linear: linear in conj(g)), M (mixed / unknown / real-linear).
Only definite verdicts are reported: B where G is required (or G where B is required)."""
from .. import facts
from ..ruleir import leaves
from ..terms import children
from ..tutil import expand, unseq
from .common import base_name, construct_of, is_numpy_callable, linear_in, project, resolve_callee

CONJ = {"conj", "conjugate"}
# NumPy discards the imaginary part of the input of the real transforms: their argument is real, its cotangent is the
# real part taken by match_complex, and a conjugation of a real value is the identity
REAL_ARGUMENT = {"rfft", "rfft2", "rfftn"}
REAL_LINEAR_ONLY = {"real", "imag", "abs", "absolute", "angle", "real_if_close", "fabs"}
FLIP = {"G": "B", "B": "G", "Z": "Z", "M": "M"}


def jn(*xs):
    xs = [x for x in xs if x != "Z"]
    if not xs:
        return "Z"
    return xs[0] if all(x == xs[0] for x in xs) else "M"


class Parity:
    def __init__(self, world, is_var):
        self.world, self.ev, self.is_var = world, world.ev, is_var
        self.memo = {}

    def of(self, t):
        if t is None:
            return "Z"
        k = id(t)
        if k in self.memo:
            return self.memo[k][1]
        self.memo[k] = (t, "M")
        r = self._of(t)
        self.memo[k] = (t, r)
        return r

    def _of(self, t):
        o = t.op
        if self.is_var(t):
            return "G"
        if o in ("sym", "const", "ref", "rest", "kwrest", "closure", "fstr", "unknown", "slice", "arg", "cmp", "bool", "raise", "assert", "when"):
            return "Z"
        if o == "bin":
            a, b = self.of(t.l), self.of(t.r)
            if t.opname in ("Add", "Sub"):
                return jn(a, b)
            if t.opname in ("Mult", "MatMult", "Div"):
                if a != "Z" and b != "Z":
                    return "M"
                return a if b == "Z" else b
            return "Z" if a == b == "Z" else "M"
        if o == "un":
            a = self.of(t.x)
            return a if t.opname in ("USub", "UAdd") else ("Z" if a == "Z" else "M")
        if o == "attr":
            a = self.of(t.obj)
            if a == "Z" or t.name in ("T", "mT"):
                return a
            if t.name in ("shape", "ndim", "dtype", "size"):
                return "Z"
            return "M" if t.name in ("real", "imag") else a
        if o == "sub":
            if t.idx.op == "const" and isinstance(t.idx.value, int):
                pr = project(self.ev, t.obj, t.idx.value)
                if pr is not None:
                    return self.of(pr)
            return self.of(t.obj)
        if o in ("tuple", "list", "set"):
            return jn(*[self.of(e) for e in t.elts])
        if o in ("star", "iterelem"):
            return self.of(t.x if o == "star" else t.src)
        if o == "comp":
            return self.of(t.elt)
        if o == "if":
            return jn(self.of(t.then), self.of(t.other))
        if o == "seq":
            return self.of(t.value)
        if o in ("store", "grow"):
            return jn(self.of(t.obj), self.of(t.val))
        if o == "call":
            return self._call(t)
        ks = [self.of(c) for c in children(t)]
        return "Z" if all(k == "Z" for k in ks) else "M"

    def _call(self, t):
        args = [self.of(a) for a in t.args]
        kws = [self.of(v) for v in t.kw.values()]
        dep = [i for i, a in enumerate(args) if a != "Z"]
        if not dep and all(k == "Z" for k in kws):
            if t.fn.op == "attr" and self.of(t.fn.obj) != "Z":
                pass
            else:
                return "Z"
        fn = t.fn
        if fn.op == "attr":
            ov = self.of(fn.obj)
            if ov == "Z":
                return "M" if dep else "Z"
            if fn.name in CONJ:
                return FLIP[ov]
            if fn.name in ("reshape", "ravel", "flatten", "transpose", "swapaxes", "squeeze", "sum", "mean", "astype", "copy", "view", "take", "repeat", "cumsum", "diagonal", "trace") and not dep:
                return ov
            return "M"
        ref, pre = resolve_callee(self.ev, t)
        npre = len(pre)
        if any(self.of(p) != "Z" for p in pre):
            return "M"
        if ref is not None:
            q = ref.qual
            bn = base_name(ref) if is_numpy_callable(ref) else q.rsplit(".", 1)[-1]
            if bn in CONJ and len(dep) == 1 and dep[0] == 0 and all(k == "Z" for k in kws):
                return FLIP[args[0]]
            if bn in REAL_LINEAR_ONLY:
                return "M"
            if q.endswith(".match_complex") and len(args) >= 2:
                return args[1] if args[0] == "Z" else "M"  # for a complex target the value passes through unchanged
            if q.endswith((".unbroadcast", ".broadcast")) and args:
                return args[0]
            if q.endswith(".unbroadcast_f"):
                return "M"
            if len(dep) == 1 and all(k == "Z" for k in kws):
                ok, _why = linear_in(self.world, ref, dep[0] + npre)
                if ok:
                    return args[dep[0]]
        r = self.ev.inline(t)
        if r is not None:
            return self.of(r)
        return "M"


def conj_parity(ctx, world, modes=("vjp", "jvp")):
    ctx.describe("A4.parity", "for a complex argument every rule is complex-linear in its (co)tangent (conjugations sit on the factors, never an odd number of them on g itself); only the rules of conj / conjugate are anti-linear.  Decided by abstract evaluation of the rule on {independent, linear in g, linear in conj(g), mixed}; only definite verdicts are reported")
    n = 0
    for e in world.table.entries:
        if e.mode not in modes or e.spec != "maker" or not world.in_numpy_scope(e) or not is_numpy_callable(e.prim):
            continue
        ir = world.ir(e)
        if ir is None or not ir.ok:
            continue
        bn = base_name(e.prim)
        if bn in REAL_ARGUMENT and e.mode == "vjp":
            continue
        want = "B" if bn in CONJ else "G"
        P = Parity(world, lambda t: t.op == "sym" and t.get("role") == "g")
        res = unseq(expand(world.ev, ir.result, ()))
        ks = {P.of(leaf) for _c, leaf in leaves(world.ev, res)}
        definite = ks - {"Z", "M"}
        if not definite:
            continue
        n += 1
        inst = construct_of(e)
        if definite == {want}:
            ctx.ob("A4.parity", inst, True, e.loc)
        else:
            got = "anti-linear (linear in conj(g))" if "B" in definite and want == "G" else "complex-linear"
            ctx.fail("A4.parity", inst, f"{e.mode}:{e.prim_id}|parity", e.loc, f"on some path the rule is {got} in its {'cotangent' if e.mode == 'vjp' else 'tangent'}: an odd number of conjugations is applied to g itself, the derivative comes out conjugated", "a complex argument with a cotangent that has an imaginary part (a complex parameter of a real loss, or a holomorphic pipeline)")
    ctx.floor(f"A4.parity rules with a definite parity ({'+'.join(modes)})", n, 40 if "vjp" in modes else 10)


def holomorphic_factors(ctx, world):
    """A4.holo - the derivative of a holomorphic function is holomorphic.  A rule of exp / log / power / sin / dot / det
    ... whose factor takes |.|, Re, Im, arg or the conjugate of an argument (or of the answer) is right on the real
    axis at best: for a complex argument it drops or flips the imaginary part of the derivative (log|x| instead of
    log x in d/dy x**y)."""
    from .. import facts
    from ..ruleir import SUMMARISED
    from ..terms import children, walk
    from ..tutil import expand
    from .common import base_name, construct_of, is_numpy_callable, resolve_callee

    fx = facts.load("holomorphic_functions")
    holo, nonops = set(fx["holomorphic"]), set(fx["non_holomorphic_operations"])
    ctx.describe("A4.holo", "in the VJP / JVP rules of holomorphic NumPy functions (exp, log, power, the trigonometric and hyperbolic functions, products, contractions, det, inv, ...) no abs / real / imag / angle / conj / sign is applied to a value that depends on the function's arguments or answer (kind casts of the finished result inside unbroadcast / match_complex excepted): the factor of a holomorphic function's derivative is an analytic expression")

    def primal_dependent(t, seen=None):
        """carries values of the arguments / the answer (not only of the (co)tangent, not only shapes)"""
        seen = seen if seen is not None else set()
        if t is None or id(t) in seen:
            return False
        seen.add(id(t))
        if t.op == "attr" and t.name in ("shape", "ndim", "size", "dtype"):
            return False
        if t.op == "call":
            r, _ = resolve_callee(world.ev, t)
            if r is not None and ((is_numpy_callable(r) and base_name(r) in ("shape", "ndim", "size", "result_type", "iscomplexobj", "isscalar")) or r.qual.endswith((".vspace", ".metadata")) or r.qual == "builtins.len"):
                return False
        if (t.op == "sym" and t.get("role") == "ans") or (t.op == "arg" and isinstance(t.get("index"), int)):
            return True
        return any(primal_dependent(c, seen) for c in children(t))

    n = 0
    for e in world.table.entries:
        if e.spec != "maker" or not world.in_numpy_scope(e) or not is_numpy_callable(e.prim) or base_name(e.prim) not in holo:
            continue
        ir = world.ir(e)
        if ir is None or not ir.ok:
            continue
        n += 1
        bad = None
        for root in (ir.made, ir.result):
            if root is None or bad is not None:
                continue
            for t in walk(expand(world.ev, root, set(SUMMARISED))):
                op, operand = None, None
                if t.op == "call":
                    r, _ = resolve_callee(world.ev, t)
                    if r is not None and is_numpy_callable(r) and base_name(r) in nonops and t.args:
                        op, operand = base_name(r), t.args[0]
                    elif t.fn.op == "attr" and t.fn.name in ("conj", "conjugate"):
                        op, operand = "." + t.fn.name + "()", t.fn.obj
                elif t.op == "attr" and t.name in ("real", "imag"):
                    op, operand = "." + t.name, t.obj
                if op is not None and primal_dependent(operand):
                    bad = (t, op)
                    break
        inst = construct_of(e)
        if bad is None:
            ctx.ob("A4.holo", inst, True, e.loc)
        else:
            from ..model import norm_text

            txt = norm_text(bad[0].node) if bad[0].node is not None else str(bad[0])
            ctx.fail("A4.holo", inst, f"{e.mode}:{e.prim_id}[{e.argnum}]|nonholo:{bad[1]}", e.loc, f"`{txt[:70]}` applies {bad[1]} to a value of the arguments / the answer inside the rule of the holomorphic function {base_name(e.prim)}: the factor is then not the complex derivative", f"{base_name(e.prim)} at a complex argument with non-zero imaginary part (or negative real part): the derivative loses / flips its imaginary component")
    ctx.floor("A4.holo rules of holomorphic functions", n, 60)
