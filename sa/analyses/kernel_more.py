"""More kernel rules: toposort (A13.topo), container vector spaces (A14.vspace-delegation), container_untake,
dict constructor, wrap_namespace classification (A13.wrapns), tensor-product operators (A15.products)."""
import ast

from ..kfun import Ev, calls_in, eval_function, is_call_to, paths, same, strip_seq
from ..tutil import atom, cases, expand, specialise, unseq
from ..model import AnalysisError, norm_text
from ..terms import Scope, T, walk
from .common import loc_of


def _ok(ctx, rule, inst, ok, loc, construct, why, witness, sample=None):
    if ok is None:
        ctx.ob(rule, inst, None, loc, sample=sample)
    elif ok:
        ctx.ob(rule, inst, True, loc, sample=sample)
    else:
        ctx.fail(rule, inst, construct, loc, why, witness)


# ------------------------------------------------------------------------------------------- toposort
def toposort(ctx, world):
    ctx.describe("A13.topo", "toposort is Kahn's algorithm on consumer edges with multi-edge counting: phase 1 counts one unit per consumer edge (every visit +1, parents pushed on the FIRST visit only); phase 2 yields a node, then for every parent edge either releases the parent (exactly when this is its last outstanding edge) or decrements its count - never both, never neither; it starts from the end node only.  Decided on the loop-carried terms of the evaluated function (helper functions inlined, conditions reduced to canonical atoms): the next-iteration values of the counter table and of the two work lists are classified by the facts `node in counts` and `counts[parent] == 1`")
    ev = world.ev
    n_loops0 = len(ev.loops)
    r, syms, m, fn, sc = eval_function(world, "autograd.util", "toposort")
    loc = loc_of(m, fn)
    q = "autograd.util.toposort"
    W = "a value consumed by two operations (diamond) or passed twice to one operation (x * x): a node's rule runs before all of its consumers have contributed, or twice"
    endp = syms[fn.args.args[0].arg]
    parp = syms[fn.args.args[1].arg] if len(fn.args.args) > 1 else None

    def empty_dict(t):
        return t is not None and ((t.op == "dict" and not t.items) or (is_call_to(t, "builtins.dict") and not t.args and not t.kw) or (t.op == "call" and t.fn.op == "ref" and t.fn.ref.qual.endswith("defaultdict")))

    def start_list(t):
        return t is not None and t.op == "list" and len(t.elts) == 1 and t.elts[0] is endp

    def me(lp):
        return lambda t: t.op == "loopvar" and t.name == lp.name and t.node is lp.node

    def loop_of(stmt, name):
        for lp in reversed(ev.loops[n_loops0:]):
            if lp.node is stmt and lp.name == name:
                return lp
        return None

    def pop_of(t):
        """loopvar L if t == L.pop() (any position argument), else None"""
        if t is not None and t.op == "call" and t.fn.op == "attr" and t.fn.name == "pop" and t.fn.obj.op == "loopvar" and not t.kw:
            return t.fn.obj
        return None

    def parents_of(t):
        """n if t == parents(n)"""
        if t is not None and t.op == "call" and parp is not None and t.fn is parp and len(t.args) == 1 and not t.kw:
            return t.args[0]
        return None

    # the counter table at the end of the function: a loop (phase 2) whose initial value is a loop (phase 1) over {}
    C2 = None
    for name, v in sc.vars.items():
        t = unseq(expand(ev, v, ()))
        if t.op == "loop" and t.init is not None and t.init.op == "loop" and empty_dict(t.init.init):
            C2 = t
    ok_inc = ok_first = ok_start = ok_yield = ok_edge = None
    if C2 is None:
        ctx.fail("A13.topo", "toposort:phases", f"{q}:phases", loc, "toposort does not build its edge-count table with an explicit work-list loop starting from an empty table and release nodes in a second loop over that table (e.g. the counting recurses over parents: its depth is then bounded by the interpreter's stack, not by memory)", "a chain of a few thousand sequential operations (a long Python loop): the backward pass dies with RecursionError / visits nodes in a different order")
        return
    if C2 is not None:
        P1 = C2.init
        c1 = me(P1)
        # ---- phase 1: counting
        n1 = None
        ok_inc = True
        seen = set()
        is_in = None
        for c in cases(P1.next):
            lf = c.leaf
            if lf.op != "store" or not c1(lf.obj):
                ok_inc = False
                continue
            n1 = n1 if n1 is not None else lf.idx
            if lf.idx is not n1 and not same(lf.idx, n1):
                ok_inc = False
            is_in = lambda a, n1=n1: a.op == "cmp" and a.opname == "In" and (a.l is n1 or same(a.l, n1)) and c1(a.r)
            pol = c.pol(is_in)
            seen.add(pol)
            if pol is True:
                v = lf.val
                good = v.op == "bin" and v.opname == "Add" and ((v.l.op == "sub" and c1(v.l.obj) and (v.l.idx is n1 or same(v.l.idx, n1)) and v.r.op == "const" and v.r.value == 1) or (v.r.op == "sub" and c1(v.r.obj) and v.l.op == "const" and v.l.value == 1))
                ok_inc = ok_inc and good
            elif pol is False:
                ok_inc = ok_inc and lf.val.op == "const" and lf.val.value == 1 and type(lf.val.value) is int
            else:
                ok_inc = False
        ok_inc = ok_inc and seen == {True, False}
        # the same count written with the PRIOR count p = counts.get(n, 0): counts[n] = p + 1 on every visit, parents
        # pushed exactly when p is 0 (falsy).  p is 0 on the first visit and >= 1 afterwards, so this is the form above.
        prior_form = False
        if not ok_inc:
            lf0 = unseq(P1.next) if P1.next is not None else None
            prior = None
            if lf0 is not None and lf0.op == "store" and c1(lf0.obj) and lf0.val.op == "bin" and lf0.val.opname == "Add":
                for a_, b_ in ((lf0.val.l, lf0.val.r), (lf0.val.r, lf0.val.l)):
                    if b_.op == "const" and type(b_.value) is int and b_.value == 1 and a_.op == "call" and a_.fn.op == "attr" and a_.fn.name == "get" and c1(a_.fn.obj) and len(a_.args) == 2 and not a_.kw and a_.args[1].op == "const" and type(a_.args[1].value) is int and a_.args[1].value == 0 and (a_.args[0] is lf0.idx or same(a_.args[0], lf0.idx)):
                        prior = a_
            if prior is not None:
                n1 = lf0.idx
                ok_inc = True
                prior_form = True
                is_prior = lambda a, pr=prior: a is pr or same(a, pr) or (a.op == "cmp" and a.opname in ("Eq",) and ((a.l is pr or same(a.l, pr)) and a.r.op == "const" and a.r.value == 0))
                # facts on the prior count: truthy (p != 0: seen before) / falsy or == 0 (first visit)
                def prior_pol(c, pr=prior):
                    for a, p_ in c.facts:
                        if a is pr or same(a, pr):
                            return p_  # truthy: seen before
                        if a.op == "cmp" and a.opname == "Eq" and (((a.l is pr or same(a.l, pr)) and a.r.op == "const" and a.r.value == 0) or ((a.r is pr or same(a.r, pr)) and a.l.op == "const" and a.l.value == 0)):
                            return not p_
                        if a.op == "cmp" and a.opname == "Lt" and a.l.op == "const" and a.l.value == 0 and (a.r is pr or same(a.r, pr)):  # 0 < p
                            return p_
                    return None
                is_in = None
        S1v = pop_of(n1)
        S1 = loop_of(P1.node, S1v.name) if S1v is not None else None
        if S1 is not None and prior_form:
            s1 = me(S1)
            ok_first = True
            seen = set()
            for c in cases(S1.next):
                pol = prior_pol(c)
                seen.add(pol)
                if pol is True:
                    ok_first = ok_first and s1(c.leaf)
                elif pol is False:
                    lf = c.leaf
                    ok_first = ok_first and lf.op == "grow" and lf.how == "extend" and s1(lf.obj) and parents_of(lf.val) is not None and (parents_of(lf.val) is n1 or same(parents_of(lf.val), n1))
                else:
                    ok_first = False
            ok_first = ok_first and seen == {True, False}
            cnd = S1.get("cond")
            ok_first = ok_first and cnd is not None and atom(cnd)[1] and s1(atom(cnd)[0])
        elif S1 is not None and is_in is not None:
            s1 = me(S1)
            ok_first = True
            seen = set()
            for c in cases(S1.next):
                pol = c.pol(is_in)
                seen.add(pol)
                if pol is True:
                    ok_first = ok_first and s1(c.leaf)
                elif pol is False:
                    lf = c.leaf
                    ok_first = ok_first and lf.op == "grow" and lf.how == "extend" and s1(lf.obj) and parents_of(lf.val) is not None and (parents_of(lf.val) is n1 or same(parents_of(lf.val), n1))
                else:
                    ok_first = False
            ok_first = ok_first and seen == {True, False}
            cnd = S1.get("cond")
            ok_first = ok_first and cnd is not None and atom(cnd)[1] and s1(atom(cnd)[0])
        # ---- phase 2
        I2 = C2.next
        if I2 is not None and I2.op == "loop" and I2.get("it") is not None and me(C2)(I2.init):
            n2 = parents_of(I2.it)
            R2v = pop_of(n2)
            R2 = loop_of(C2.node, R2v.name) if R2v is not None else None
            ci = me(I2)
            par = lambda t: t.op == "iterelem" and t.src is I2.it
            cnt = lambda t, cv=ci: t.op == "sub" and cv(t.obj) and par(t.idx)
            dec_of = lambda t: t.op == "store" and ci(t.obj) and par(t.idx) and t.val.op == "bin" and t.val.opname == "Sub" and cnt(t.val.l) and t.val.r.op == "const" and t.val.r.value == 1

            def last_pol(c, counter):
                """True/False when the path establishes that this is / is not the last outstanding edge"""
                for a, p in c.facts:
                    if a.op != "cmp":
                        continue
                    if a.opname == "Eq" and ((counter(a.l) and a.r.op == "const" and a.r.value == 1) or (counter(a.r) and a.l.op == "const" and a.l.value == 1)):
                        return p
                    if a.opname == "Lt" and a.l.op == "const" and a.l.value == 1 and counter(a.r):  # 1 < count
                        return not p
                    if a.opname == "Lt" and counter(a.l) and a.r.op == "const" and a.r.value == 2:  # count < 2
                        return p
                return None

            if R2 is not None:
                ys = [e for e in sc.effects for t in walk(e) if t.op == "yield"]
                yt = [t for e in sc.effects for t in walk(e) if t.op == "yield"]
                ok_yield = len(yt) == 1 and yt[0].x is n2 and yt[0] in sc.effects  # unconditional: the yield is not under a `when`
                RI = R2.next
                ok_start = start_list(R2.init) and (S1 is not None and start_list(S1.init))
                cnd = R2.get("cond")
                loop_ok = cnd is not None and atom(cnd)[1] and me(R2)(atom(cnd)[0])
                if RI is not None and RI.op == "loop" and RI.node is I2.node and me(R2)(RI.init):
                    ri = me(RI)
                    rel_of = lambda t: t.op == "grow" and t.how == "append" and ri(t.obj) and par(t.val)
                    form_a = True
                    seen = set()
                    for c in cases(I2.next):
                        lp_ = last_pol(c, cnt)
                        seen.add(lp_)
                        if lp_ is True:
                            form_a = form_a and (ci(c.leaf) or dec_of(c.leaf))
                        elif lp_ is False:
                            form_a = form_a and dec_of(c.leaf)
                        else:
                            form_a = False
                    form_a = form_a and seen == {True, False}
                    if form_a:
                        seen = set()
                        for c in cases(RI.next):
                            lp_ = last_pol(c, cnt)
                            seen.add(lp_)
                            if lp_ is True:
                                form_a = form_a and rel_of(c.leaf)
                            elif lp_ is False:
                                form_a = form_a and ri(c.leaf)
                            else:
                                form_a = False
                        form_a = form_a and seen == {True, False}
                    form_b = False
                    if not form_a and dec_of(I2.next):
                        # decrement first, release when the new count is zero
                        newc = lambda t: t.op == "sub" and t.obj is I2.next and par(t.idx)
                        def zero_pol(c):
                            for a, p in c.facts:
                                if a.op == "cmp" and a.opname == "Eq" and ((newc(a.l) and a.r.op == "const" and a.r.value == 0) or (newc(a.r) and a.l.op == "const" and a.l.value == 0)):
                                    return p
                                if a.op == "cmp" and a.opname == "Lt" and newc(a.l) and a.r.op == "const" and a.r.value == 1:
                                    return p
                                if a.op == "cmp" and a.opname == "Lt" and a.l.op == "const" and a.l.value == 0 and newc(a.r):
                                    return not p
                            return None
                        form_b = True
                        seen = set()
                        for c in cases(RI.next):
                            zp = zero_pol(c)
                            seen.add(zp)
                            if zp is True:
                                form_b = form_b and rel_of(c.leaf)
                            elif zp is False:
                                form_b = form_b and ri(c.leaf)
                            else:
                                form_b = False
                        form_b = form_b and seen == {True, False}
                    ok_edge = bool((form_a or form_b) and loop_ok)
    _ok(ctx, "A13.topo", "toposort phase 1: every visit counts one consumer edge", ok_inc, loc, f"{q}:count", "phase 1 does not count exactly one unit per visit (first visit = 1, later visits += 1)", W)
    _ok(ctx, "A13.topo", "toposort phase 1: parents are pushed on the first visit only", ok_first, loc, f"{q}:push", "phase 1 pushes a node's parents on other than exactly its first visit (counts of shared ancestors are then multiplied or missing)", W)
    _ok(ctx, "A13.topo", "toposort: both phases start from the end node only", ok_start, loc, f"{q}:start", "a phase does not start from [end_node]", "operations the output does not depend on are differentiated / the end node is skipped")
    _ok(ctx, "A13.topo", "toposort phase 2: pops a released node and yields it", ok_yield, loc, f"{q}:yield", "phase 2 does not yield exactly the node it pops", W)
    _ok(ctx, "A13.topo", "toposort phase 2: per parent edge, release iff last outstanding edge, else decrement", ok_edge, loc, f"{q}:edge", "for a parent edge the parent is not released exactly when its outstanding count is 1 (else decremented by one)", W)
    # counters are compared by value, never by identity (`is` on ints only works for CPython's small-int cache)
    ident = []
    scope_fns, todo = [], [fn]
    while todo:
        f_ = todo.pop()
        if f_ in scope_fns:
            continue
        scope_fns.append(f_)
        for c_ in ast.walk(f_):
            if isinstance(c_, ast.Call) and isinstance(c_.func, ast.Name):
                rr = world.repo.resolve(m, c_.func.id)
                if rr is not None and rr.kind == "repo" and rr.okind == "def" and rr.mod is m and isinstance(rr.node, ast.FunctionDef):
                    todo.append(rr.node)
    for f_ in scope_fns:
        ident += [x for x in ast.walk(f_) if isinstance(x, ast.Compare) and any(isinstance(o, (ast.Is, ast.IsNot)) for o in x.ops) and not any(isinstance(c, ast.Constant) and (c.value is None or isinstance(c.value, bool)) for c in [x.left] + x.comparators)]
    _ok(ctx, "A13.topo", "toposort: edge counters compared by value", not ident, loc_of(m, ident[0]) if ident else loc, f"{q}:identity-comparison", f"`{norm_text(ident[0]) if ident else ''}` compares counters with `is`: true only for CPython's cached small integers", "a value consumed more than 256 times (a parameter reused in a long Python loop)")
    decided = sum(1 for x in (ok_inc, ok_first, ok_yield, ok_edge) if x is not None)
    ctx.floor("A13.topo decided clauses", decided, 4)


# ------------------------------------------------------------------------------------------- container vspaces
def _self_sym(cref):
    return T("sym", name="self", role="param", cls=cref)


VS_VOCAB = ("_map", "_values", "_kv_pairs", "_subval", "seq_type")


def _elem(t, src, i=None):
    """t is the loop element of `src` (component i of it when i is given)"""
    if i is None:
        return t.op == "iterelem" and t.src is src
    return t.op == "sub" and t.obj.op == "iterelem" and t.obj.src is src and t.idx.op == "const" and t.idx.value == i


def container_vspaces(ctx, world):
    ctx.describe("A14.vspace", "ContainerVSpace arithmetic (_add, _mut_add, _scalar_mul, _covector, _inner_prod, zeros, ones, randn) maps the SAME-NAMED operation of each child space over the children with the operands in the same order; Sequence/Dict spaces build values in the order / under the keys of self.shape; container_untake accumulates component-wise with _mut_add(accumulator, contribution) and rebuilds with _subval; autograd's dict constructor passes keys and values of the same dict.  Decided on the evaluated method bodies (helper methods inlined, loops and comprehensions in one normal form)")
    ev = world.ev
    B = "autograd.builtins"
    m = world.repo.mod(B)
    r = world.repo.resolve(m, "ContainerVSpace")
    if r is None or r.kind != "repo":
        raise AnalysisError("builtins.ContainerVSpace vanished")
    n = 0
    for st in r.node.body:
        if not isinstance(st, ast.FunctionDef) or st.name not in ("_add", "_mut_add", "_scalar_mul", "_covector", "_inner_prod", "zeros", "ones", "randn"):
            continue
        n += 1
        inst = f"ContainerVSpace.{st.name}"
        loc = loc_of(m, st)
        selfs = _self_sym(r)
        res, sy, m_, fn_, sc_ = eval_function(world, B, f"ContainerVSpace.{st.name}", bind={st.args.args[0].arg: selfs})
        res = unseq(expand(ev, res, (), keep_attrs=VS_VOCAB)) if res is not None else None
        params = [sy[a.arg] for a in st.args.args[1:]]
        ok = False
        why = "body is not self._map(lambda vs, ...: vs.<op>(...), operands...)"
        maps = [t for t in walk(res) if t.op == "call" and t.fn.op == "attr" and t.fn.name == "_map" and t.fn.obj is selfs] if res is not None else []
        if len(maps) == 1 and maps[0].args and not maps[0].kw:
            mp = maps[0]
            clo, pre, prekw = ev.as_closure(mp.args[0])
            mapped = list(mp.args[1:])
            arr_params = [p_ for p_ in params if any(p_ is a for a in mapped)]
            order_ok = len(mapped) == len(arr_params) and all(a is b for a, b in zip(mapped, arr_params))
            if clo is not None and not pre and not prekw:
                vs = T("sym", name="vs", role="param")
                kids = [T("sym", name=f"child{i}", role="param") for i in range(len(mapped))]
                body = unseq(expand(ev, ev.apply(clo, [vs] + kids, {}, []), ()))
                if body.op == "call" and body.fn.op == "attr" and body.fn.obj is vs and not body.kw:
                    same_name = body.fn.name == st.name
                    want = kids + [p_ for p_ in params if not any(p_ is a for a in mapped)]
                    args_ok = len(body.args) == len(want) and all(a is b for a, b in zip(body.args, want))
                    ok = same_name and order_ok and args_ok
                    if not same_name:
                        why = f"delegates to the children's `{body.fn.name}`, not `{st.name}`"
                    elif not ok:
                        why = f"operands are passed as {[str(a) for a in body.args]}, expected {[str(a) for a in want]}"
        _ok(ctx, "A14.vspace", inst, ok, loc, f"autograd.builtins.{inst}", f"{inst}: {why}", "a tuple/list/dict of arrays that receives two contributions (fan-out) or is scaled: the children are combined with the wrong operation / operand order")
    # standard_basis: one basis vector per (key, child basis vector), placed AT THAT KEY into zeros
    sb = next((st for st in r.node.body if isinstance(st, ast.FunctionDef) and st.name == "standard_basis"), None)
    if sb is not None:
        n += 1
        selfs = _self_sym(r)
        res, sy, m_, fn_, sc_ = eval_function(world, B, "ContainerVSpace.standard_basis", bind={sb.args.args[0].arg: selfs})
        ys = []
        for e_ in list(sc_.effects) + ([res] if res is not None else []):
            for t in walk(unseq(expand(ev, e_, (), keep_attrs=VS_VOCAB + ("zeros", "standard_basis")))):
                if t.op == "yield" and not any(t is y for y in ys):
                    ys.append(t)
        ok = False
        if len(ys) == 1:
            v = ys[0].x
            inner_src = None
            if v.op == "iterelem" and v.src.op == "comp" and not v.src.conds:
                v = v.src.elt
            selfcall = lambda t, nm: t.op == "call" and t.fn.op == "attr" and t.fn.name == nm and t.fn.obj is selfs and not t.kw
            if selfcall(v, "_subval") and len(v.args) == 3:
                z, k, x = v.args
                zero_ok = selfcall(z, "zeros") and not z.args
                if k.op == "sub" and k.obj.op == "iterelem" and k.idx.op == "const" and k.idx.value == 0:
                    S = k.obj.src
                    src_ok = selfcall(S, "_kv_pairs") and len(S.args) == 1 and S.args[0].op == "attr" and S.args[0].name == "shape" and S.args[0].obj is selfs
                    x_ok = x.op == "iterelem" and x.src.op == "call" and x.src.fn.op == "attr" and x.src.fn.name == "standard_basis" and not x.src.args and _elem(x.src.fn.obj, S, 1)
                    ok = bool(zero_ok and src_ok and x_ok)
        _ok(ctx, "A14.vspace", "ContainerVSpace.standard_basis", ok, loc_of(m, sb), "autograd.builtins.ContainerVSpace.standard_basis", "ContainerVSpace.standard_basis does not yield self._subval(self.zeros(), key, x) for every (key, child space) of the container and every x of the child's standard basis (placing a basis vector by anything but its key duplicates it across equal siblings)", "jacobian / standard_basis of a tuple or dict with two children of the same shape and dtype: the basis is not orthonormal")
    # Sequence / Dict construction order
    for cname, checks in (("SequenceVSpace", ("_map", "_subval")), ("DictVSpace", ("_map", "_subval")), ("NamedTupleVSpace", ("_map", "_subval"))):
        cr = world.repo.resolve(m, cname)
        if cr is None or cr.kind != "repo":
            raise AnalysisError(f"builtins.{cname} vanished")
        for st in cr.node.body:
            if not isinstance(st, ast.FunctionDef) or st.name not in checks:
                continue
            n += 1
            inst = f"{cname}.{st.name}"
            loc = loc_of(m, st)
            selfs = _self_sym(cr)
            res, sy, m_, fn_, sc_ = eval_function(world, B, f"{cname}.{st.name}", bind={st.args.args[0].arg: selfs})
            res = unseq(expand(ev, res, {"autograd.util.subvals"}, keep_attrs=VS_VOCAB)) if res is not None else None
            ps = [sy[a.arg] for a in st.args.args[1:]]
            star = sy.get(st.args.vararg.arg) if st.args.vararg else None
            is_shape = lambda t: t.op == "attr" and t.name == "shape" and t.obj is selfs
            ok = False
            if st.name == "_map":
                f = ps[0] if ps else None
                if cname == "DictVSpace":
                    why = "does not build {k: f(vs, *[x[k] for x in args]) for k, vs in self.shape.items()}"
                    d = res
                    if d is not None and d.op == "call" and d.fn.op == "ref" and d.fn.ref.qual == "builtins.dict" and len(d.args) == 1:
                        d = d.args[0]
                    if d is not None and d.op == "comp" and not d.conds and d.elt.op == "tuple" and len(d.elt.elts) == 2:
                        src = d.src
                        src_ok = src.op == "call" and src.fn.op == "attr" and src.fn.name == "items" and is_shape(src.fn.obj) and not src.args
                        k, v = d.elt.elts
                        key_ok = _elem(k, src, 0)
                        val_ok = False
                        if v.op == "call" and v.fn is f and len(v.args) == 2 and _elem(v.args[0], src, 1) and v.args[1].op == "star":
                            inner = v.args[1].x
                            if inner.op == "comp" and inner.src is star and not inner.conds:
                                e = inner.elt
                                val_ok = e.op == "sub" and _elem(e.obj, star) and _elem(e.idx, src, 0)
                        ok = src_ok and key_ok and val_ok
                else:
                    why = "does not map f over (self.shape, *args) in that order"
                    t = res
                    # seq_type(map(f, self.shape, *args))
                    if t is not None and t.op == "call" and len(t.args) == 1 and not t.kw:
                        t = t.args[0]
                        if t.op == "star":  # namedtuple types take the fields as separate arguments
                            t = t.x
                    if t is not None and t.op == "call" and t.fn.op == "ref" and t.fn.ref.qual == "builtins.map" and len(t.args) == 3:
                        ok = t.args[0] is f and is_shape(t.args[1]) and t.args[2].op == "star" and t.args[2].x is star
                    elif t is not None and t.op == "comp" and not t.conds:
                        z = t.src
                        if is_call_to(z, "builtins.zip") and len(z.args) == 2 and is_shape(z.args[0]) and z.args[1].op == "star" and z.args[1].x is star:
                            e = t.elt
                            # f(vs, x, y ...) with vs the first component, or f(*elts) with elts the whole zip element
                            ok = e.op == "call" and e.fn is f and bool(e.args) and (_elem(e.args[0], z, 0) or (len(e.args) == 1 and e.args[0].op == "star" and _elem(e.args[0].x, z)))
            else:
                xs, idx, x = ps[0], ps[1], ps[2]
                if cname == "DictVSpace":
                    why = "does not store x under idx in a copy of xs"
                    # store(copy-of-xs, idx, x)
                    t = res
                    ok = t is not None and t.op == "store" and t.idx is idx and t.val is x and any(y is xs for y in walk(t.obj)) and t.obj is not xs
                else:
                    why = "does not rebuild the sequence with subvals(xs, [(idx, x)])"
                    sv = [t for t in walk(res) if is_call_to(t, "autograd.util.subvals")] if res is not None else []
                    ok = len(sv) == 1 and len(sv[0].args) == 2 and sv[0].args[0] is xs and sv[0].args[1].op in ("list", "tuple") and len(sv[0].args[1].elts) == 1 and sv[0].args[1].elts[0].op == "tuple" and len(sv[0].args[1].elts[0].elts) == 2 and sv[0].args[1].elts[0].elts[0] is idx and sv[0].args[1].elts[0].elts[1] is x
            _ok(ctx, "A14.vspace", inst, ok, loc, f"autograd.builtins.{inst}", f"{inst} {why}", "gradient w.r.t. one element of a nested container / standard_basis of a container space")
    # container_untake
    res, sy, m2, fn, sc_ = eval_function(world, B, "container_untake")
    ps = [a.arg for a in fn.args.args]  # x, idx, vs
    xs, idxs, vss = sy[ps[0]], sy[ps[1]], sy[ps[2]]
    res = unseq(res) if res is not None else None
    ok_slice = ok_item = ok_sub = False
    so = [t for t in walk(res) if is_call_to(t, "autograd.core.SparseObject")] if res is not None else []
    if len(so) == 1 and len(so[0].args) == 2 and so[0].args[0] is vss:
        clo, pre, prekw = ev.as_closure(so[0].args[1])
        if clo is not None and not pre and not prekw:
            A = T("sym", name="A", role="param")
            body = unseq(expand(ev, ev.apply(clo, [A], {}, []), {"autograd.builtins.isinstance", "autograd.builtins.type"}, keep_attrs=VS_VOCAB + ("_mut_add",)))  # (the type-query replacements are vocabulary here: their own body is A14.typeq's)
            is_slice_test = lambda a: a.op == "call" and a.fn.op == "ref" and a.fn.ref.qual in ("builtins.isinstance", "autograd.builtins.isinstance") and len(a.args) == 2 and a.args[0] is idxs and a.args[1].op == "ref" and a.args[1].ref.qual == "builtins.slice"
            dec = lambda val: (lambda a: val if is_slice_test(a) else None)
            is_cur = lambda t: t.op == "sub" and t.obj is A and t.idx is idxs
            is_child = lambda t: t.op == "sub" and t.obj.op == "attr" and t.obj.name == "shape" and t.obj.obj is vss and t.idx is idxs
            def sub_call(b):
                """b == vs._subval(A, idx, <acc>) -> acc"""
                if b.op == "call" and b.fn.op == "attr" and b.fn.name == "_subval" and b.fn.obj is vss and len(b.args) == 3 and b.args[0] is A and b.args[1] is idxs:
                    return b.args[2]
                return None
            bs, bi = specialise(body, dec(True)), specialise(body, dec(False))
            acc_s, acc_i = sub_call(bs), sub_call(bi)
            ok_sub = acc_s is not None and acc_i is not None
            if acc_s is not None:
                c = acc_s
                if c.op == "call" and c.fn.op == "ref" and c.fn.ref.qual == "builtins.list" and len(c.args) == 1:
                    c = c.args[0]
                if c.op == "comp" and not c.conds and c.get("kind") in ("ListComp", "GeneratorExp"):
                    z = c.src
                    z_ok = is_call_to(z, "builtins.zip") and len(z.args) == 3 and is_child(z.args[0]) and is_cur(z.args[1]) and z.args[2] is xs
                    e = c.elt
                    e_ok = e.op == "call" and e.fn.op == "attr" and e.fn.name == "_mut_add" and _elem(e.fn.obj, z, 0) and len(e.args) == 2 and _elem(e.args[0], z, 1) and _elem(e.args[1], z, 2)
                    ok_slice = bool(z_ok and e_ok)
            if acc_i is not None:
                b = acc_i
                ok_item = b.op == "call" and b.fn.op == "attr" and b.fn.name == "_mut_add" and is_child(b.fn.obj) and len(b.args) == 2 and is_cur(b.args[0]) and b.args[1] is xs
    n += 3
    _ok(ctx, "A14.vspace", "container_untake: slice branch zips (child spaces, accumulator, contribution) and _mut_add(acc, contrib)", ok_slice, loc_of(m2, fn), "autograd.builtins.container_untake:slice", "the slice branch of container_untake does not accumulate [vs._mut_add(a, b) for vs, a, b in zip(vs.shape[idx], result, x)]", "gradient through a slice of a traced tuple/list, t[1:3], used together with another use of t")
    _ok(ctx, "A14.vspace", "container_untake: item branch vs.shape[idx]._mut_add(accumulator, contribution)", ok_item, loc_of(m2, fn), "autograd.builtins.container_untake:item", "the item branch of container_untake is not vs.shape[idx]._mut_add(result, x)", "gradient through t[i] used together with another use of t")
    _ok(ctx, "A14.vspace", "container_untake: mut_add(A) = vs._subval(A, idx, accum(A[idx]))", ok_sub, loc_of(m2, fn), "autograd.builtins.container_untake:subval", "container_untake's mut_add does not rebuild A with the accumulated component at the same index", "gradient through t[i]")
    # dict constructor
    res, sy, m3, dn, sc_ = eval_function(world, B, "dict.__new__")
    ok = False
    for x in (walk(res) if res is not None else []):
        if is_call_to(x, "autograd.builtins._make_dict") and len(x.args) == 2 and not x.kw:
            k, v = x.args
            kb = k.fn.obj if k.op == "call" and k.fn.op == "attr" and k.fn.name == "keys" and not k.args else None
            vv = v.args[0] if v.op == "call" and v.fn.op == "ref" and v.fn.ref.qual.rsplit(".", 1)[-1] in ("list", "tuple") and len(v.args) == 1 else v
            if is_call_to(v, "autograd.builtins.make_sequence") and len(v.args) == 2 and v.args[1].op == "star" and not v.kw:
                vv = v.args[1].x  # autograd's list(xs) written out: make_sequence(list_, *xs)
            vb = vv.fn.obj if vv.op == "call" and vv.fn.op == "attr" and vv.fn.name == "values" and not vv.args else None
            ok = kb is not None and vb is not None and (kb is vb or same(kb, vb))
    n += 1
    _ok(ctx, "A14.vspace", "autograd dict(...): _make_dict(d.keys(), list(d.values())) of the same dict", ok, loc_of(m3, dn), "autograd.builtins.dict.__new__", "the dict constructor does not hand keys and values of the same dict, in matching order, to _make_dict", "autograd.dict({...}) of traced values")
    ctx.floor("A14.vspace clauses", n, 14)


# ------------------------------------------------------------------------------------------- wrap_namespace
def wrap_namespace(ctx, world):
    ctx.describe("A13.wrapns", "wrap_namespace classifies each exported object exactly once, in this priority: listed notrace function -> notrace_primitive(obj); other callable that is not a type -> primitive(obj); integer dtype class -> wrap_intdtype(obj); plain constants -> the object itself; every branch stores under the SAME name")
    m, fn = world.repo.find_def("autograd.numpy.numpy_wrapper", "wrap_namespace")
    loc = loc_of(m, fn)
    q = "autograd.numpy.numpy_wrapper.wrap_namespace"
    # decided by exhaustive valuation of the five classification atoms on the loop-carried term of `new`:
    #   a0 obj in notrace_functions, a1 callable(obj), a2 type(obj) is type, a3 obj in <int dtype classes>,
    #   a4 type(obj) in <pass-through types>; the stored value must be the one the priority order prescribes
    r_, syms, m_, fn_, sc_ = eval_function(world, "autograd.numpy.numpy_wrapper", "wrap_namespace")
    oldp, newp = syms[fn.args.args[0].arg], syms[fn.args.args[1].arg]
    lp = sc_.lookup(fn.args.args[1].arg)
    lp = unseq(expand(world.ev, lp, ("autograd.tracer.notrace_primitive", "autograd.tracer.primitive", "autograd.numpy.numpy_wrapper.wrap_intdtype"))) if lp is not None else None
    ok = None
    why = ""
    if lp is not None and lp.op == "loop" and lp.init is newp and lp.get("it") is not None and lp.it.op == "call" and lp.it.fn.op == "attr" and lp.it.fn.name == "items" and lp.it.fn.obj is oldp:
        it = lp.it
        nm = lambda t: t.op == "sub" and t.obj.op == "iterelem" and t.obj.src is it and t.idx.op == "const" and t.idx.value == 0
        ob = lambda t: t.op == "sub" and t.obj.op == "iterelem" and t.obj.src is it and t.idx.op == "const" and t.idx.value == 1
        ty = lambda t: is_call_to(t, "builtins.type") and len(t.args) == 1 and ob(t.args[0])
        tyty = lambda t: t.op == "ref" and t.ref.qual == "builtins.type"
        def set_of(t, pred):
            els = t.elts if t.op in ("set", "tuple", "list") else (t.args[0].elts if (t.op == "call" and t.fn.op == "ref" and t.fn.ref.qual in ("builtins.set", "builtins.frozenset") and len(t.args) == 1 and t.args[0].op in ("set", "tuple", "list")) else None)
            if els is None and t.op == "ref" and t.ref.kind == "repo" and t.ref.okind == "assign":
                v = world.ev.ev(t.ref.node, Scope(), t.ref.mod)
                return set_of(v, pred) if v.op != "ref" else False
            return els is not None and len(els) > 0 and pred(els)
        ints = lambda els: all(e.op == "ref" and e.ref.qual.startswith("numpy.") and ("int" in e.ref.qual) for e in els)
        plain = lambda els: any(e.op == "ref" and e.ref.qual == "builtins.float" for e in els) and not any(e.op == "ref" and e.ref.qual.startswith("numpy.") for e in els)

        def kind_of_atom(a):
            if a.op == "cmp" and a.opname == "In" and ob(a.l) and a.r.op == "ref" and a.r.ref.qual.endswith(".notrace_functions"):
                return 0
            if is_call_to(a, "builtins.callable") and len(a.args) == 1 and ob(a.args[0]):
                return 1
            if a.op == "cmp" and a.opname == "Is" and ((ty(a.l) and tyty(a.r)) or (ty(a.r) and tyty(a.l))):
                return 2
            if a.op == "cmp" and a.opname == "In" and ob(a.l) and set_of(a.r, ints):
                return 3
            if a.op == "cmp" and a.opname == "In" and ty(a.l) and set_of(a.r, plain):
                return 4
            return None

        def leaf_kind(t):
            if t.op == "loopvar" and t.name == lp.name and t.node is lp.node:
                return "none"
            if t.op == "store" and t.obj.op == "loopvar" and t.obj.name == lp.name and nm(t.idx):
                v = t.val
                if ob(v):
                    return "id"
                if v.op == "call" and v.fn.op == "ref" and len(v.args) == 1 and ob(v.args[0]) and not v.kw:
                    return {"autograd.tracer.notrace_primitive": "notrace", "autograd.tracer.primitive": "primitive", "autograd.numpy.numpy_wrapper.wrap_intdtype": "intdtype"}.get(v.fn.ref.qual, f"?{v.fn.ref.qual}")
                return f"?{str(v)[:40]}"
            return f"?{str(t)[:40]}"

        import itertools
        from ..terms import walk as _walk

        # feasibility: when the pass-through set itself lists `type`, "type(obj) is type" implies "type(obj) in <pass-through types>"
        type_passes = False
        for sub in _walk(lp.next):
            if sub.op == "cmp" and sub.opname in ("In", "NotIn") and ty(sub.l):
                r_ = sub.r
                if r_.op == "ref" and r_.ref.kind == "repo" and r_.ref.okind == "assign":
                    r_ = world.ev.ev(r_.ref.node, Scope(), r_.ref.mod)
                els_ = r_.elts if r_.op in ("set", "tuple", "list") else (r_.args[0].elts if (r_.op == "call" and r_.args and r_.args[0].op in ("set", "tuple", "list")) else ())
                if any(tyty(e) for e in els_):
                    type_passes = True

        ok = True
        for val in itertools.product((True, False), repeat=5):
            a0, a1, a2, a3, a4 = val
            if (a2 and not a1) or (type_passes and a2 and not a4):
                continue  # a class is callable; `type` is a listed pass-through type
            want = "notrace" if a0 else ("primitive" if (a1 and not a2) else ("intdtype" if (a2 and a3) else ("id" if a4 else "none")))
            dec = lambda a, val=val: (val[kind_of_atom(a)] if kind_of_atom(a) is not None else None)
            cs = cases(specialise(lp.next, dec))
            got = {leaf_kind(c.leaf) for c in cs}
            if len(cs) != 1 or cs[0].facts or got != {want}:
                ok = False
                why = f"with (in notrace list, callable, is a class, int dtype class, pass-through type) = {val} the entry becomes {sorted(got)}, expected '{want}'" + (f" (undecided test: {cs[0].facts[0][0]})" if cs and cs[0].facts else "")
                break
    _ok(ctx, "A13.wrapns", "wrap_namespace: notrace > primitive > intdtype > constant, same name", ok, loc, f"{q}:classification", f"wrap_namespace: {why}", "any autograd.numpy function called on traced values: it is exported untraced, under another name, or a class is wrapped as a function")
    # the namespace is populated from numpy itself
    src_ok = any(isinstance(s, ast.Expr) and isinstance(s.value, ast.Call) and isinstance(s.value.func, ast.Name) and s.value.func.id == "wrap_namespace" for s in m.tree.body)
    _ok(ctx, "A13.wrapns", "numpy_wrapper populates its globals with wrap_namespace(_np.__dict__, globals())", src_ok and bool(m.wrap_sources), m.relpath, f"{q}:call", "numpy_wrapper no longer wraps numpy's namespace into its globals", "every autograd.numpy function")


# ------------------------------------------------------------------------------------------- tensor products
def products(ctx, world):
    ctx.describe("A15.products", "hessian_tensor_product = grad of <grad f, v> contracted over all ndim(v) axes w.r.t. the same argnum; tensor_jacobian_product = jacobian of <v, f> with v first, contracted over ndim(v) axes; the extra tensor is the LAST positional argument; make_jvp_reversemode pulls the vjp back at zeros of the OUTPUT space; make_ggnvp composes f_vjp(g_hvp(f_jvp(v)))")
    DO = "autograd.differential_operators"
    ev = world.ev
    from .kernel_api import _callee_name
    from .common import resolve_callee

    for name, opname, first in (("hessian_tensor_product", "grad", "grad-first"), ("tensor_jacobian_product", "jacobian", "vector-first")):
        r, syms, m, fn, sc = eval_function(world, DO, name)
        loc = loc_of(m, fn)
        funp, argnump = syms[fn.args.args[0].arg], syms[fn.args.args[1].arg]
        r = unseq(r) if r is not None else None
        ok = False
        why = "structure not recognised"
        # result = <opname>(<inner function>, argnum)
        if r is not None and r.op == "call" and _callee_name(world, DO, r) == opname and len(r.args) + len(r.kw) == 2 and r.args:
            an = r.args[1] if len(r.args) > 1 else r.kw.get("argnum")
            clo, pre, prekw = ev.as_closure(r.args[0])
            out_ok = an is argnump and clo is not None and not pre and not prekw
            if not out_ok:
                why = f"the result is not {opname}(<inner>, argnum)"
            else:
                rest0, kwr = T("rest", start=0), T("kwrest")
                body = unseq(expand(ev, ev.apply(clo, [T("star", x=rest0)], {}, [kwr]), ()))
                is_vec = lambda t: t.op == "sub" and t.obj is rest0 and t.idx.op == "const" and t.idx.value == -1
                is_front = lambda t: t.op == "sub" and t.obj is rest0 and t.idx.op == "slice" and t.idx.lo.op == "const" and t.idx.lo.value is None and t.idx.hi.op == "const" and t.idx.hi.value == -1 and t.idx.step.op == "const" and t.idx.step.value is None

                def is_apply(t, callee_pred):
                    return t.op == "call" and callee_pred(t.fn) and len(t.args) == 1 and t.args[0].op == "star" and is_front(t.args[0].x) and not t.kw and len(t.dstar) == 1 and t.dstar[0] is kwr

                def is_grad_of_fun(t):
                    if not (t.op == "call" and _callee_name(world, DO, t) == "grad"):
                        return False
                    a1 = t.args[1] if len(t.args) > 1 else t.kw.get("argnum")
                    return bool(t.args) and t.args[0] is funp and a1 is argnump

                rc, _pre = resolve_callee(ev, body) if body.op == "call" else (None, None)
                if rc is not None and rc.kind == "wrapped" and rc.name == "tensordot" and len(body.args) >= 2:
                    axes = body.args[2] if len(body.args) > 2 else body.kw.get("axes")
                    ra, _p = resolve_callee(ev, axes) if axes is not None and axes.op == "call" else (None, None)
                    ax_ok = axes is not None and ((ra is not None and ra.kind == "wrapped" and ra.name == "ndim" and len(axes.args) == 1 and is_vec(axes.args[0])) or (axes.op == "attr" and axes.name == "ndim" and is_vec(axes.obj)))
                    a0, a1 = body.args[0], body.args[1]
                    if first == "grad-first":
                        order_ok = is_apply(a0, is_grad_of_fun) and is_vec(a1)
                    else:
                        order_ok = is_vec(a0) and is_apply(a1, lambda f_: f_ is funp)
                    ok = bool(ax_ok and order_ok)
                    if not ax_ok:
                        why = "the contraction is not over ndim(vector) axes"
                    elif not order_ok:
                        why = "operand order / application of the inner function differs"
        _ok(ctx, "A15.products", name, ok, loc, f"{DO}.{name}", f"{name}: {why}", "a function with a matrix-shaped argument and a tensor of rank 2, argnum=1")
    # make_jvp_reversemode
    r, syms, m, node, sc = eval_function(world, DO, "make_jvp_reversemode")
    r = strip_seq(r)
    ok = False
    mvs = [t for t in walk(r) if is_call_to(t, "autograd.core.make_vjp")]
    if r is not None and r.op == "sub" and r.idx.op == "const" and r.idx.value == 0 and len(mvs) >= 2:
        outer_call = r.obj
        if is_call_to(outer_call, "autograd.core.make_vjp") and len(outer_call.args) == 2:
            f0, z = outer_call.args
            inner_mv = [t for t in mvs if t is not outer_call and t.args[0] is syms["#0"] and t.args[1] is syms["#1"]]
            if inner_mv:
                im = inner_mv[0]
                ok = f0.op == "sub" and f0.obj is im and f0.idx.value == 0 and z.op == "call" and z.fn.op == "attr" and z.fn.name == "zeros" and is_call_to(z.fn.obj, "autograd.core.vspace") and z.fn.obj.args[0].op == "sub" and z.fn.obj.args[0].obj is im and z.fn.obj.args[0].idx.value == 1
    _ok(ctx, "A15.products", "make_jvp_reversemode: make_vjp(vjp, vspace(y).zeros())[0]", ok, loc_of(m, node), f"{DO}.make_jvp_reversemode", "make_jvp_reversemode does not differentiate the vjp at zeros of the OUTPUT space and return element [0]", "a function whose output space differs from its input space")
    # make_ggnvp: ggnvp(v) = f_vjp(g_hvp(f_jvp(v)))   (terms: intermediates / unrolled chains are the same term)
    # the unary operator behind make_ggnvp: a nested @unary_to_nary def, or a module-level one that make_ggnvp calls
    try:
        r, syms, m, fn, sc = eval_function(world, DO, "make_ggnvp._make_ggnvp")
    except AnalysisError:
        r0, sy0, m0, fn0, sc0 = eval_function(world, DO, "make_ggnvp")
        t0 = unseq(r0) if r0 is not None else None
        ref0 = t0.fn.ref if (t0 is not None and t0.op == "call" and t0.fn.op == "ref") else None
        if ref0 is None or ref0.kind != "repo" or not isinstance(ref0.node, ast.FunctionDef) or ref0.mod.name != DO:
            raise AnalysisError("make_ggnvp no longer builds its result with a unary_to_nary operator")
        r, syms, m, fn, sc = eval_function(world, DO, ref0.name)
    r = unseq(r) if r is not None else None
    ok = False
    fp, xp = syms.get("#0"), syms.get("#1")
    gp = None
    clo, pre, prekw = ev.as_closure(r) if r is not None else (None, None, None)
    if fp is None or xp is None:
        # mixed-mode form: make_ggnvp(f, g, f_argnum) returns a function of (*args, **kwargs) built from the n-ary
        # operators: f_vjp, f_x = make_vjp(f, f_argnum)(*args, **kw); g_hvp = make_hvp(g)(f_x)[0];
        # f_jvp = make_jvp(f, f_argnum)(*args, **kw); result v -> f_vjp(g_hvp(f_jvp(v)[1])) - all three about the SAME argument
        ok = _ggnvp_mixed_mode(world, DO)
        clo = None
    if clo is not None and not pre and not prekw:
        v = T("sym", name="v", role="param")
        body = unseq(expand(ev, ev.apply(clo, [v], {}, []), {"autograd.core.make_vjp", "autograd.core.vspace"}))
        mv = lambda t: is_call_to(t, "autograd.core.make_vjp") and len(t.args) == 2 and not t.kw
        comp_i = lambda t, i: t.op == "sub" and t.idx.op == "const" and t.idx.value == i and mv(t.obj)
        # f_vjp(.) with (f_vjp, f_x) = make_vjp(f, x)
        if body.op == "call" and comp_i(body.fn, 0) and len(body.args) == 1 and not body.kw:
            fmv = body.fn.obj
            if fmv.args[0] is fp and fmv.args[1] is xp:
                mid = body.args[0]
                # g_hvp(.) with (g_hvp, grad_g_x) = make_vjp(grad(g), f_x)
                if mid.op == "call" and comp_i(mid.fn, 0) and len(mid.args) == 1 and not mid.kw:
                    gmv = mid.fn.obj
                    g_ok = gmv.args[0].op == "call" and _callee_name(world, DO, gmv.args[0]) == "grad" and len(gmv.args[0].args) == 1 and gmv.args[0].args[0].op == "sym" and gmv.args[0].args[0] is not fp and gmv.args[0].args[0] is not xp and gmv.args[1].op == "sub" and gmv.args[1].obj is fmv and gmv.args[1].idx.value == 1
                    inner = mid.args[0]
                    # f_jvp(v) with f_jvp = make_vjp(f_vjp, vspace(grad_g_x).zeros())[0]
                    if g_ok and inner.op == "call" and comp_i(inner.fn, 0) and len(inner.args) == 1 and inner.args[0] is v:
                        jmv = inner.fn.obj
                        z = jmv.args[1]
                        j_ok = jmv.args[0].op == "sub" and jmv.args[0].obj is fmv and jmv.args[0].idx.value == 0
                        z_ok = z.op == "call" and z.fn.op == "attr" and z.fn.name == "zeros" and is_call_to(z.fn.obj, "autograd.core.vspace") and len(z.fn.obj.args) == 1 and z.fn.obj.args[0].op == "sub" and z.fn.obj.args[0].obj is gmv and z.fn.obj.args[0].idx.value == 1
                        ok = bool(j_ok and z_ok)
    _ok(ctx, "A15.products", "make_ggnvp: f_vjp(g_hvp(f_jvp(v)))", ok, loc_of(m, fn), f"{DO}.make_ggnvp", "the generalised Gauss-Newton product is not J^T H_g J v composed as f_vjp(g_hvp(f_jvp(v)))", "make_ggnvp(f)(x)(v) against the explicit J^T H J v")


def _ggnvp_mixed_mode(world, DO):
    from ..kfun import returned_closure

    ev = world.ev
    try:
        clo, top, osy, m, fn, sc = returned_closure(world, DO, "make_ggnvp")
    except Exception:
        return False
    f, g = osy.get("#0"), osy.get("#1")
    fa = osy.get("#2")
    if f is None or g is None or fa is None:
        return False
    args = T("sym", name="args", role="param", star=True)
    kw = T("sym", name="kwargs", role="param", dstar=True)
    KEEPQ = {f"{DO}.make_vjp", f"{DO}.make_jvp", f"{DO}.make_hvp", f"{DO}.grad", "autograd.core.make_vjp", "autograd.core.make_jvp", "autograd.core.vspace"}
    lvl = unseq(expand(ev, ev.apply(clo, [T("star", x=args)], {}, [kw]), KEEPQ))
    c2, p2, k2 = ev.as_closure(lvl) if lvl is not None else (None, None, None)
    if c2 is None or p2 or k2:
        return False
    v = T("sym", name="v", role="param")
    body = unseq(expand(ev, ev.apply(c2, [v], {}, []), KEEPQ))

    def nary(t, opname):
        """(argnum term or None) if t == <DO.opname>(f, argnum?)(*args, **kwargs)"""
        if not (t.op == "call" and len(t.args) == 1 and t.args[0].op == "star" and t.args[0].x is args and len(t.dstar) == 1 and t.dstar[0] is kw and not t.kw):
            return False, None
        mk = t.fn
        if not (mk.op == "call" and mk.fn.op == "ref" and mk.fn.ref.qual == f"{DO}.{opname}" and mk.args and mk.args[0] is f):
            return False, None
        an = mk.args[1] if len(mk.args) > 1 else mk.kw.get("argnum")
        return True, an

    comp = lambda t, i: t.op == "sub" and t.idx.op == "const" and t.idx.value == i
    if not (body.op == "call" and len(body.args) == 1 and not body.kw and comp(body.fn, 0)):
        return False
    okv, an_v = nary(body.fn.obj, "make_vjp")
    if not okv or an_v is not fa:
        return False
    fvj = body.fn.obj
    mid = body.args[0]
    if not (mid.op == "call" and len(mid.args) == 1 and comp(mid.fn, 0)):
        return False
    hv = mid.fn.obj  # make_hvp(g)(f_x)
    if not (hv.op == "call" and len(hv.args) == 1 and comp(hv.args[0], 1) and hv.args[0].obj is fvj and hv.fn.op == "call" and hv.fn.fn.op == "ref" and hv.fn.fn.ref.qual == f"{DO}.make_hvp" and hv.fn.args and hv.fn.args[0] is g and len(hv.fn.args) == 1 and not hv.fn.kw):
        return False
    inner = mid.args[0]
    if not (comp(inner, 1) and inner.obj.op == "call" and len(inner.obj.args) == 1 and inner.obj.args[0] is v):
        return False
    okj, an_j = nary(inner.obj.fn, "make_jvp")
    return bool(okj and an_j is fa)


# ------------------------------------------------------------------------------------------- layout / squeeze / guard fns
def layout_independence(ctx, world):
    """A9.layout: values never depend on the memory layout of an operand."""
    ctx.describe("A9.layout", "no value-computing code in autograd/ flattens or reshapes with a memory-layout dependent order (ravel/flatten/reshape with order='K' or 'A', .flat of a possibly non-contiguous operand is not used): results are functions of values, not of strides")
    n = 0
    for mod in world.repo.mods.values():
        if mod.name.startswith(("autograd.scipy", "autograd.misc", "autograd.test_util")):
            continue
        for x in ast.walk(mod.tree):
            if isinstance(x, ast.Call):
                nm = getattr(x.func, "attr", getattr(x.func, "id", ""))
                if nm in ("ravel", "flatten", "reshape"):
                    n += 1
                    bad = [k for k in x.keywords if k.arg == "order" and isinstance(k.value, ast.Constant) and k.value.value in ("K", "A", "k", "a")]
                    pos_bad = [a for a in x.args[1:] if isinstance(a, ast.Constant) and a.value in ("K", "A")] if nm in ("ravel", "flatten") else []
                    inst = f"{mod.name}:{norm_text(x)[:60]}"
                    if bad or pos_bad:
                        ctx.fail("A9.layout", inst, f"{mod.name}|{norm_text(x)[:80]}", loc_of(mod, x), f"`{norm_text(x)[:70]}` flattens in memory order: two arrays with equal values but different strides (a transposed view, a Fortran-ordered array) are paired element-wise in different orders", "the same vectors given once C-contiguous and once as a transposed view / Fortran-ordered array")
                    else:
                        ctx.ob("A9.layout", inst, True, loc_of(mod, x), nontrivial=False)
    ctx.ob("A9.layout", "no layout-dependent flattening in autograd/", True, "autograd/*")
    ctx.floor("A9.layout flatten/reshape call sites", n, 15)


def squeeze_axes(ctx, world):
    ctx.describe("A3.squeeze", "inside rule bodies np.squeeze is always given an explicit axis: a bare squeeze also removes the size-1 dimensions that belong to the argument, so the cotangent loses the argument's shape")
    from .common import construct_of, deep_terms, resolve_callee, is_numpy_callable, base_name

    n = 0
    for e in world.table.entries:
        if e.spec != "maker" or not world.in_numpy_scope(e):
            continue
        ir = world.ir(e)
        if ir is None or not ir.ok:
            continue
        for t in deep_terms(world.ev, ir.result):
            if t.op != "call":
                continue
            ref, pre = resolve_callee(world.ev, t)
            is_sq = (ref is not None and is_numpy_callable(ref) and base_name(ref) == "squeeze") or (t.fn.op == "attr" and t.fn.name == "squeeze")
            if not is_sq:
                continue
            n += 1
            nargs = len(pre) + len(t.args) + (0 if t.fn.op != "attr" else 1)
            has_axis = "axis" in t.kw or nargs >= 2
            inst = construct_of(e) + "|" + (norm_text(t.node)[:50] if t.node is not None else "squeeze")
            if has_axis:
                ctx.ob("A3.squeeze", inst, True, e.loc)
            else:
                ctx.fail("A3.squeeze", inst, f"{e.mode}:{e.prim_id}|bare-squeeze", e.loc, f"`{norm_text(t.node)[:60] if t.node is not None else 'squeeze(...)'}` squeezes every size-1 axis of the (co)tangent, including those of the argument itself", "an argument that has a size-1 dimension of its own, e.g. shape (1, 3)")
    ctx.floor("A3.squeeze squeeze calls in rule bodies", n, 1)


def guard_functions(ctx, world):
    ctx.describe("A6.guardfn", "a check_*(...) guard function raises under ONE comparison over its parameters: the raise is not nested under further conditions / loops and the condition is not a conjunction (a weakened guard lets unsupported configurations through)")
    n = 0
    for mod in world.repo.mods.values():
        if not mod.name.startswith("autograd.numpy"):
            continue  # the guards called from rule makers live next to the rules (test_util.check_* are the gradient checker)
        for st in mod.tree.body:
            if isinstance(st, ast.FunctionDef) and st.name.startswith("check_"):
                n += 1
                inst = f"{mod.name}.{st.name}"
                # decided on the evaluated body: every path is classified by the canonical atoms it decides
                res, sy, m_, fn_, sc_ = eval_function(world, mod.name, st.name)
                cs = cases(unseq(res)) if res is not None else []
                rais = [c for c in cs if c.leaf.op == "raise"]
                quiet = [c for c in cs if c.leaf.op != "raise"]
                loops = [x for x in ast.walk(st) if isinstance(x, (ast.For, ast.While, ast.Try, ast.With))]
                ok, why = True, ""
                if not rais:
                    ok, why = False, "the guard function never raises"
                elif loops:
                    ok, why = False, f"the raise is nested under a {type(loops[0]).__name__}, not under a single comparison"
                else:
                    for c in rais:
                        if len(c.facts) != 1:
                            ok = False
                            why = (f"the raise condition is a conjunction of {len(c.facts)} tests ({'; '.join(str(a)[:40] for a, _ in c.facts)})" if c.facts else "the guard raises unconditionally")
                            break
                        a0, p0 = c.facts[0]
                        if a0.op == "bool":
                            ok, why = False, f"the raise condition `{str(a0)[:60]}` is a compound test"
                            break
                    if ok:
                        a0, p0 = rais[0].facts[0]
                        from ..kfun import same as _same

                        if not all(len(c.facts) == 1 and _same(c.facts[0][0], a0) and c.facts[0][1] != p0 for c in quiet) or not all(_same(c.facts[0][0], a0) and c.facts[0][1] == p0 for c in rais):
                            ok, why = False, "the guard does not raise under exactly one comparison over its parameters"
                _ok(ctx, "A6.guardfn", inst, ok, loc_of(mod, st), inst, f"{inst}: {why}", "an unsupported configuration that satisfies the original condition but not the additional ones")
    ctx.floor("A6.guardfn guard functions", n, 1)


def axis_normalisation_consistency(ctx, world):
    ctx.describe("A7.norm", "where a function range-checks an axis against +-N and then normalises a negative axis by adding M, M is N (the rank of the array the axis indexes): in numpy_wrapper.stack the axis indexes the RESULT (ndim + 1)")
    n = 0
    for mod in world.repo.mods.values():
        if mod.name.startswith(("autograd.scipy", "autograd.misc")):
            continue
        for fq, fn in mod.functions():
            if not isinstance(fn, ast.FunctionDef):
                continue
            norms = []
            bounds = {}
            for x in ast.walk(fn):
                # if axis < 0: axis += M
                if isinstance(x, ast.If) and isinstance(x.test, ast.Compare) and len(x.test.ops) == 1 and isinstance(x.test.ops[0], ast.Lt) and isinstance(x.test.left, ast.Name) and isinstance(x.test.comparators[0], ast.Constant) and x.test.comparators[0].value == 0:
                    v = x.test.left.id
                    for s in x.body:
                        if isinstance(s, ast.AugAssign) and isinstance(s.op, ast.Add) and isinstance(s.target, ast.Name) and s.target.id == v:
                            norms.append((v, s.value, s))
                        if isinstance(s, ast.Assign) and isinstance(s.targets[0], ast.Name) and s.targets[0].id == v and isinstance(s.value, ast.BinOp) and isinstance(s.value.op, ast.Add):
                            other = s.value.right if isinstance(s.value.left, ast.Name) and s.value.left.id == v else s.value.left
                            norms.append((v, other, s))
                # -N <= axis < N
                if isinstance(x, ast.Compare) and len(x.ops) == 2 and isinstance(x.comparators[0], ast.Name):
                    v = x.comparators[0].id
                    lo, hi = x.left, x.comparators[1]
                    if isinstance(lo, ast.UnaryOp) and isinstance(lo.op, ast.USub) and norm_text(lo.operand) == norm_text(hi):
                        bounds[v] = hi
            for v, m_expr, site in norms:
                if v not in bounds:
                    continue
                n += 1
                inst = f"{fq}:{v}"
                ok = norm_text(m_expr) == norm_text(bounds[v])
                _ok(ctx, "A7.norm", inst, ok, loc_of(mod, site), f"{fq}|{v}+={norm_text(m_expr)[:30]}", f"{fq}: `{v}` is range-checked against +-{norm_text(bounds[v])} but a negative value is normalised by adding {norm_text(m_expr)}: the two ranks disagree", f"the function called with a negative {v}, e.g. {v}=-1")
    ctx.ob("A7.norm", "range-check / normalisation consistency scanned over the package", True, "autograd/*", nontrivial=False)
