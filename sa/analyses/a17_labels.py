"""A17 - axis-label algebra for the contraction adjoints (tensordot_adjoint_0/1, dot_adjoint_0/1).

Arrays are abstracted to the tuple of *labels* of their axes.  np.tensordot / np.dot are modelled exactly on that
domain (contracting two axes requires the SAME label, otherwise the model raises: a contraction of unrelated axes),
np.transpose / swapaxes permute labels.  For every rank 0..3 of both operands and every contraction NumPy accepts
(integer axes, pairs of axis lists in every order, negative axes) the body of the adjoint helper is evaluated on
G = labels of the forward result: the adjoint for operand A must come back with exactly A's labels in A's order
(adjoint for B: B's).  Finite abstract evaluation of the helper's term; no autograd code runs."""
import itertools

from ..kfun import eval_function
from ..terms import T, const
from .a16_perm import CEval, Raises, Unknown
from .common import base_name, is_numpy_callable, loc_of, resolve_callee


class Lab:
    __slots__ = ("labels",)

    def __init__(self, labels):
        self.labels = tuple(labels)

    @property
    def ndim(self):
        return len(self.labels)

    def __eq__(self, o):
        return isinstance(o, Lab) and self.labels == o.labels

    def __repr__(self):
        return f"Lab{self.labels}"


class Mismatch(Exception):
    pass


def _ax(a, n):
    if isinstance(a, bool) or not isinstance(a, int):
        raise Unknown("axis")
    if not -n <= a < n:
        raise Raises("axis out of range")
    return a % n


def l_tensordot(a, b, axes=2):
    if not isinstance(a, Lab) or not isinstance(b, Lab):
        raise Unknown("tensordot of non-arrays")
    if isinstance(axes, int) and not isinstance(axes, bool):
        if axes < 0:
            raise Raises("negative axes")
        na = list(range(a.ndim - axes, a.ndim)) if axes else []
        nb = list(range(0, axes))
        if axes > a.ndim or axes > b.ndim:
            raise Raises("too many axes")
    else:
        try:
            xa, xb = axes
        except Exception:
            raise Unknown("axes form")
        xa = [xa] if isinstance(xa, int) else list(xa)
        xb = [xb] if isinstance(xb, int) else list(xb)
        if len(xa) != len(xb):
            raise Raises("shape-mismatch for sum")
        na = [_ax(int(i), a.ndim) for i in xa]
        nb = [_ax(int(i), b.ndim) for i in xb]
        if len(set(na)) != len(na) or len(set(nb)) != len(nb):
            raise Raises("repeated axis")
    for i, j in zip(na, nb):
        if a.labels[i] != b.labels[j]:
            raise Mismatch(f"contracts axis {i} ({a.labels[i]}) with axis {j} ({b.labels[j]})")
    return Lab([l for k, l in enumerate(a.labels) if k not in na] + [l for k, l in enumerate(b.labels) if k not in nb])


def l_dot(a, b):
    if a.ndim == 0 or b.ndim == 0:
        return Lab(a.labels + b.labels)
    ja = a.ndim - 1
    jb = b.ndim - 2 if b.ndim >= 2 else 0
    if a.labels[ja] != b.labels[jb]:
        raise Mismatch(f"dot contracts {a.labels[ja]} with {b.labels[jb]}")
    return Lab(list(a.labels[:-1]) + [l for k, l in enumerate(b.labels) if k != jb])


class LEval(CEval):
    """CEval over ints / tuples / Lab, with the raw-numpy functions the adjoint helpers use"""

    def of(self, t):
        if t is not None and t.op == "bin":
            a, b = self.of(t.l), self.of(t.r)
            if isinstance(a, Lab) and isinstance(b, Lab) and t.opname == "Mult":
                if a.ndim == 0:
                    return b
                if b.ndim == 0:
                    return a
                raise Unknown("elementwise product of arrays")
            if isinstance(a, tuple) and isinstance(b, int) and t.opname == "Mod" and all(isinstance(x, int) for x in a):
                return tuple(x % b for x in a)
            if isinstance(a, (int, bool)) and isinstance(b, (int, bool)):
                a, b = int(a), int(b)
                op = t.opname
                if op in ("Add", "Sub", "Mult", "Mod", "FloorDiv"):
                    return {"Add": a + b, "Sub": a - b, "Mult": a * b, "Mod": a % b if b else 0, "FloorDiv": a // b if b else 0}[op]
            if isinstance(a, (tuple, list)) and isinstance(b, (tuple, list)) and t.opname == "Add":
                return tuple(a) + tuple(b)
            raise Unknown("bin")
        if t is not None and t.op == "sub":
            obj = self.of(t.obj)
            if t.idx.op == "slice":
                lo, hi, st = self.of(t.idx.lo), self.of(t.idx.hi), self.of(t.idx.step)
                if isinstance(obj, (tuple, list, range)):
                    return tuple(obj)[slice(lo, hi, st)]
                raise Unknown("slice")
            idx = self.of(t.idx)
            if isinstance(obj, (tuple, list)):
                if isinstance(idx, int) and not isinstance(idx, bool):
                    try:
                        return obj[idx]
                    except IndexError:
                        raise Raises("index")
                if isinstance(idx, (tuple, list)) and all(isinstance(i, int) for i in idx):
                    return tuple(obj[i] for i in idx)  # fancy indexing of a small integer array
            raise Unknown("subscript")
        if t is not None and t.op == "closure":
            return t
        return super().of(t)

    def call(self, t):
        fn = t.fn
        if fn.op == "closure" or (fn.op == "if"):
            r = self.ev.inline(t)
            if r is not None:
                return self.of(r)
        if fn.op == "sub" or fn.op == "iterelem":
            pass
        ref, pre = resolve_callee(self.ev, t)
        if ref is not None and (is_numpy_callable(ref) or ref.qual.startswith("builtins.")):
            bn = base_name(ref) if is_numpy_callable(ref) else ref.qual[9:]
            if bn in ("tensordot", "dot", "arange", "delete", "asarray", "array", "concatenate", "swapaxes", "transpose", "ndim", "argsort", "max", "min", "range", "type", "len", "list", "tuple"):
                args = [self.of(a) for a in list(pre) + list(t.args)]
                kw = {k: self.of(v) for k, v in t.kw.items()}
                # keyword arguments are bound to their positions in NumPy's own signature (swapaxes(a, axis1=i,
                # axis2=j) is swapaxes(a, i, j)); gaps are filled with NumPy's defaults
                sig_ = self.world.env.signature(ref.qual) if is_numpy_callable(ref) else None
                if sig_ and kw:
                    for i_, p_ in enumerate(sig_["pos"]):
                        if i_ < len(args):
                            continue
                        if p_ in kw:
                            args.append(kw[p_])
                        elif p_ in sig_["defaults"] and any(q_ in kw for q_ in sig_["pos"][i_ + 1 :]):
                            args.append(sig_["defaults"][p_])
                        else:
                            break
                if bn == "tensordot":
                    return l_tensordot(args[0], args[1], kw.get("axes", args[2] if len(args) > 2 else 2))
                if bn == "dot":
                    return l_dot(args[0], args[1])
                if bn == "arange":
                    return tuple(range(*[int(a) for a in args]))
                if bn == "delete":
                    arr, idx = args[0], args[1]
                    idx = [idx] if isinstance(idx, int) else list(idx)
                    return tuple(x for k, x in enumerate(arr) if k not in [i % len(arr) if len(arr) else i for i in idx])
                if bn in ("asarray", "array"):
                    v = args[0]
                    if isinstance(v, Lab):
                        return v
                    if isinstance(v, (tuple, list, range)):
                        return tuple(v)
                    if isinstance(v, int):
                        return v
                    raise Unknown("asarray")
                if bn == "concatenate":
                    out = []
                    for part in args[0]:
                        out.extend(part if isinstance(part, (tuple, list)) else [part])
                    return tuple(out)
                if bn == "swapaxes":
                    a = args[0]
                    if isinstance(a, Lab):
                        n = a.ndim
                        i, j = _ax(args[1], n), _ax(args[2], n)
                        l = list(a.labels)
                        l[i], l[j] = l[j], l[i]
                        return Lab(l)
                    raise Unknown("swapaxes")
                if bn == "transpose":
                    a = args[0]
                    perm = kw.get("axes", args[1] if len(args) > 1 else None)
                    if isinstance(a, Lab):
                        if perm is None:
                            return Lab(a.labels[::-1])
                        perm = [_ax(int(p), a.ndim) for p in perm]
                        if sorted(perm) != list(range(a.ndim)):
                            raise Raises("axes don't match array")
                        return Lab([a.labels[p] for p in perm])
                    raise Unknown("transpose")
                if bn == "ndim":
                    if isinstance(args[0], Lab):
                        return args[0].ndim
                    raise Unknown("ndim")
                if bn == "argsort":
                    a = args[0]
                    if isinstance(a, (tuple, list)) and all(isinstance(x, int) for x in a):
                        return tuple(sorted(range(len(a)), key=lambda i: a[i]))
                    raise Unknown("argsort")
                if bn in ("max", "min"):
                    return (max if bn == "max" else min)(*[int(a) for a in args])
                if bn == "range":
                    return tuple(range(*[int(a) for a in args]))
                if bn == "len":
                    return len(args[0])
                if bn in ("list", "tuple"):
                    return tuple(args[0]) if args else ()
                if bn == "type":
                    return type(args[0])
        return super().call(t)

    def of_cmp_type(self, t):
        return None


def _type_is_int(ev_, t):
    """`type(x) is int`"""
    return None


CASES_T = []


def _tensordot_cases():
    for na in range(0, 4):
        for nb in range(0, 4):
            A = Lab([f"a{i}" for i in range(na)])
            # integer axes
            for k in range(0, min(na, nb) + 1):
                yield na, nb, k
            # pairs of lists
            for k in range(1, min(na, nb) + 1):
                for xa in itertools.permutations(range(na), k):
                    for xb in itertools.permutations(range(nb), k):
                        yield na, nb, (list(xa), list(xb))
                        if k <= 2:
                            yield na, nb, ([x - na for x in xa], list(xb))
                        if k == 1:
                            yield na, nb, (xa[0], xb[0])


def _forward_labels(na, nb, axes):
    """labels of A, B (contracted axes share a label) and of tensordot(A, B, axes)"""
    a = [f"a{i}" for i in range(na)]
    b = [f"b{i}" for i in range(nb)]
    if isinstance(axes, int):
        ia = list(range(na - axes, na)) if axes else []
        ib = list(range(0, axes))
    else:
        xa, xb = axes
        xa = [xa] if isinstance(xa, int) else xa
        xb = [xb] if isinstance(xb, int) else xb
        ia = [i % na for i in xa]
        ib = [i % nb for i in xb]
    for i, j in zip(ia, ib):
        b[j] = a[i]
    A, B = Lab(a), Lab(b)
    return A, B, l_tensordot(A, B, axes)


def _ctype(self_eval, t):
    return None


class TypeAware(LEval):
    def of(self, t):
        # `type(axes) is int`
        if t is not None and t.op == "cmp" and t.opname in ("Is", "IsNot") and t.r.op == "ref" and t.r.ref.qual in ("builtins.int", "builtins.tuple", "builtins.list"):
            v = self.of(t.l)
            want = {"builtins.int": int, "builtins.tuple": tuple, "builtins.list": list}[t.r.ref.qual]
            res = v is want
            return res if t.opname == "Is" else not res
        return super().of(t)


def contraction_adjoints(ctx, world):
    ctx.describe("A17", "the adjoint helper primitives of the contractions return the cotangent with exactly the differentiated operand's axis labels, in its order, for every rank 0..3 of both operands and every contraction NumPy accepts (integer axes, pairs of axis lists in every order, negative axes); every internal tensordot/dot contracts equal labels only. Finite evaluation of the helper bodies on the axis-label domain")
    mod = "autograd.numpy.numpy_vjps"
    n_rules = 0
    for name, which in (("tensordot_adjoint_0", 0), ("tensordot_adjoint_1", 1)):
        r, syms, m, node, sc = eval_function(world, mod, name)
        n_rules += 1
        params = [a.arg for a in node.args.args]
        total = decided = 0
        bad = None
        unknown = {}
        for na, nb, axes in _tensordot_cases():
            total += 1
            A, B, G = _forward_labels(na, nb, axes)
            ax_val = axes if isinstance(axes, int) else (tuple(axes[0]) if isinstance(axes[0], list) else axes[0], tuple(axes[1]) if isinstance(axes[1], list) else axes[1])
            # the repo receives lists: keep list-ness for `type(axes[0]) is int`
            if not isinstance(axes, int):
                ax_val = tuple(list(x) if isinstance(x, (list, tuple)) else x for x in axes)
            vals = {params[0]: (B if which == 0 else A), params[1]: G, params[2]: ax_val, params[3]: na, params[4]: nb}
            C = TypeAware(world, {}, None, None)
            for pn, sym in syms.items():
                if pn in vals:
                    C.bind[id(sym)] = vals[pn]
            try:
                res = C.of(r)
            except Raises:
                decided += 1
                continue
            except Mismatch as e:
                decided += 1
                if bad is None:
                    bad = (na, nb, axes, f"an internal contraction pairs unrelated axes: {e}")
                continue
            except Unknown as u:
                unknown[str(u)] = unknown.get(str(u), 0) + 1
                continue
            decided += 1
            want = A if which == 0 else B
            if res != want and bad is None:
                bad = (na, nb, axes, f"returns axes {getattr(res, 'labels', res)}, expected {want.labels}")
        inst = f"{mod}.{name}"
        loc = loc_of(m, node)
        ctx.extra["A17_contraction_configurations_evaluated"] = ctx.extra.get("A17_contraction_configurations_evaluated", 0) + total
        if bad:
            na, nb, axes, why = bad
            ctx.fail("A17", inst, inst, loc, f"{name} for A of rank {na}, B of rank {nb}, axes={axes}: {why}", f"np.tensordot(A, B, axes={axes}) with operands of ranks {na} and {nb}, differentiated w.r.t. operand {which} (dimensions of equal size make it silent)", sample=f"{decided}/{total}")
        elif decided < total * 0.9:
            ctx.ob("A17", inst, None, loc, sample=f"{decided}/{total} decided; outside the model: {unknown}")
        else:
            ctx.ob("A17", inst, True, loc, sample=f"{decided}/{total} contraction configurations decided ({unknown or 'none'} outside the model)")
    # dot_adjoint_0 / dot_adjoint_1
    for name, which in (("dot_adjoint_0", 0), ("dot_adjoint_1", 1)):
        r, syms, m, node, sc = eval_function(world, mod, name)
        n_rules += 1
        params = [a.arg for a in node.args.args]
        total = decided = 0
        bad = None
        unknown = {}
        for na in range(0, 4):
            for nb in range(0, 4):
                total += 1
                a = [f"a{i}" for i in range(na)]
                b = [f"b{i}" for i in range(nb)]
                if na and nb:
                    b[nb - 2 if nb >= 2 else 0] = a[-1]
                A, B = Lab(a), Lab(b)
                G = l_dot(A, B)
                meta = lambda n: (None, n, None, False)
                vals = {params[0]: (B if which == 0 else A), params[1]: G, params[2]: meta(na), params[3]: meta(nb)}
                C = TypeAware(world, {}, None, None)
                for pn, sym in syms.items():
                    if pn in vals:
                        C.bind[id(sym)] = vals[pn]
                try:
                    res = C.of(r)
                except Raises:
                    decided += 1
                    continue
                except Mismatch as e:
                    decided += 1
                    if bad is None:
                        bad = (na, nb, f"an internal contraction pairs unrelated axes: {e}")
                    continue
                except Unknown as u:
                    unknown[str(u)] = unknown.get(str(u), 0) + 1
                    continue
                decided += 1
                want = A if which == 0 else B
                if res != want and bad is None:
                    bad = (na, nb, f"returns axes {getattr(res, 'labels', res)}, expected {want.labels}")
        inst = f"{mod}.{name}"
        loc = loc_of(m, node)
        if bad:
            na, nb, why = bad
            ctx.fail("A17", inst, inst, loc, f"{name} for A of rank {na}, B of rank {nb}: {why}", f"np.dot of operands of ranks {na} and {nb}, differentiated w.r.t. operand {which}", sample=f"{decided}/{total}")
        elif decided < total * 0.9:
            ctx.ob("A17", inst, None, loc, sample=f"{decided}/{total} decided; outside the model: {unknown}")
        else:
            ctx.ob("A17", inst, True, loc, sample=f"{decided}/{total} rank combinations decided")
    ctx.floor("A17 adjoint helpers", n_rules, 2)
