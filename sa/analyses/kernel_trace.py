"""Kernel protocol rules on tracer.py: A13.unbox (value transparency of trace / wrapper), A12 (trace-id
discipline), A11 (global effects, thread confinement)."""
import ast

from ..kfun import Ev, P, calls_in, contains, eval_function, is_call_to, paths, returned_closure, same, strip_seq
from ..model import AnalysisError, norm_text
from ..regs import class_mro
from ..ruleir import leaves
from ..terms import T, children, walk
from ..tutil import atom, cases, expand, norm_seq, specialise, unseq
from .common import loc_of

TR = "autograd.tracer"


def _attr_of(t, name):
    return t is not None and t.op == "attr" and t.name == name


# --------------------------------------------------------------------------------------------- trace()
def trace_fn(ctx, world):
    ctx.describe("A13.unbox/trace", "trace(): the traced function is called on a box made from x with the id yielded by new_trace; dependence is decided by *equality* of the result's trace id with the start box's; the dependent path returns the UNBOXED value and the node; the independent path returns the function's own result and None")
    r, syms, m, node, sc = eval_function(world, TR, "trace")
    loc = loc_of(m, node)
    q = "autograd.tracer.trace"
    if r is None:
        ctx.fail("A13.unbox", "trace:shape", f"{q}:shape", loc, "trace() no longer decides between a dependent and an independent result", "any differentiation")
        return
    x, start_node, fun = syms.get("x"), syms.get("start_node"), syms.get("fun")
    # find start box: call new_box(x, <id>, start_node)
    start = None
    for t in walk(r):
        if is_call_to(t, "autograd.tracer.new_box") and len(t.args) == 3 and t.args[0] is x:
            start = t
            break
    if start is None:
        ctx.fail("A13.unbox", "trace:start_box", f"{q}:start_box", loc, "no new_box(x, <trace id>, start_node) in trace()", "any differentiation")
        return
    tid = start.args[1]
    ok_id = contains(tid, lambda t: t.op == "attr" and t.name == "new_trace") or contains(tid, lambda t: is_call_to(t, "new_trace"))
    ctx.ob("A12.top", "trace:start box carries the id yielded by new_trace()", bool(ok_id) and start.args[2] is start_node, loc)
    if not (ok_id and start.args[2] is start_node):
        ctx.findings.append  # noqa (recorded through ob as fail below)
        ctx.fail("A12.top", "trace:start-id", f"{q}:start-id", loc, "the start box is not built from (x, id yielded by trace_stack.new_trace(), start_node)", "nested differentiation: ids of inner and outer traces coincide")
    # end box = fun(start)
    def is_end(t):
        return t.op == "call" and t.fn is fun and len(t.args) == 1 and t.args[0] is start

    # condition: isbox(end) and end._trace == start._trace   (any polarity / nesting of the test)
    def is_eq(a):
        if not (a.op == "cmp" and a.opname == "Eq"):
            return False
        sides = [a.l, a.r]
        ends = [s_ for s_ in sides if _attr_of(s_, "_trace") and is_end(s_.obj)]
        starts = [s_ for s_ in sides if (_attr_of(s_, "_trace") and s_.obj is start) or same(s_, tid)]
        return bool(ends and starts)

    def is_isbox(a):
        return is_call_to(a, "autograd.tracer.isbox") and len(a.args) == 1 and is_end(a.args[0])

    def is_conj(a):
        return a.op == "bool" and a.opname == "and" and len(a.vals) == 2 and any(is_isbox(atom(v)[0]) and atom(v)[1] for v in a.vals) and any(is_eq(atom(v)[0]) and atom(v)[1] for v in a.vals)

    def is_disj(a):
        # De Morgan: `not isbox(end) or end._trace != start._trace` is the negation of the conjunction
        return a.op == "bool" and a.opname == "or" and len(a.vals) == 2 and any(is_isbox(atom(v)[0]) and not atom(v)[1] for v in a.vals) and any(is_eq(atom(v)[0]) and not atom(v)[1] for v in a.vals)

    cs = cases(unseq(r))
    dep, indep, odd = [], [], []
    for c in cs:
        if c.pol(is_isbox) is True and c.pol(is_eq) is True:
            dep.append(c)
        elif c.pol(is_conj) is False or c.pol(is_disj) is True or c.pol(is_isbox) is False or (c.pol(is_isbox) is True and c.pol(is_eq) is False):
            indep.append(c)
        else:
            odd.append(c)
    if dep and indep and not odd:
        ctx.ob("A12.top", "trace:dependence decided by isbox(end) and end._trace == start._trace", True, loc, sample=str(dep[0].facts)[:160])
    else:
        found = "; ".join(str(c.facts)[:80] for c in (odd or cs)[:2])
        ctx.fail("A12.top", "trace:dependence test", f"{q}:dependence-test", loc, f"dependence of the output is not decided by `isbox(end) and end._trace == start._trace` (found: {found})", "an inner differentiation whose result depends only on an outer variable (perturbation confusion), or an outer box returned unchanged")
        dep = dep or [c for c in odd if c.leaf.op == "tuple" and len(c.leaf.elts) == 2 and _attr_of(c.leaf.elts[0], "_value")]
        indep = indep or [c for c in odd if c not in dep]
    # dependent path
    def dep_ok(then):
        return then.op == "tuple" and len(then.elts) == 2 and _attr_of(then.elts[0], "_value") and is_end(then.elts[0].obj) and _attr_of(then.elts[1], "_node") and is_end(then.elts[1].obj)

    def indep_ok(other):
        return other.op == "tuple" and len(other.elts) == 2 and is_end(other.elts[0]) and other.elts[1].op == "const" and other.elts[1].value is None

    if dep and all(dep_ok(c.leaf) for c in dep):
        ctx.ob("A13.unbox", "trace:dependent path returns (end._value, end._node)", True, loc)
    else:
        found = str(dep[0].leaf)[:100] if dep else "no dependent path"
        ctx.fail("A13.unbox", "trace:dependent return", f"{q}:dependent-return", loc, f"the dependent path does not return (end_box._value, end_box._node) (found {found})", "every differentiation: the primal value handed back contains a tracer object / wrong node")
    if indep and all(indep_ok(c.leaf) for c in indep):
        ctx.ob("A13.unbox", "trace:independent path returns (fun's result, None)", True, loc)
    else:
        found = str(indep[0].leaf)[:100] if indep else "no independent path"
        ctx.fail("A13.unbox", "trace:independent return", f"{q}:independent-return", loc, f"the independent path does not return (result, None) (found {found})", "a function whose output does not depend on the input")


def _fresh_wrapper(ctx, world, outer, loc):
    """every call of primitive() / notrace_primitive() returns a NEW wrapper: the rule tables (primitive_vjps,
    primitive_jvps, notrace_primitives) are keyed by the identity of that object, so handing back the argument (an
    "already wrapped" shortcut) makes rules registered for the new primitive overwrite those of the old one"""
    alts = getattr(world, "alt_returns", {}).get((TR, outer), [])
    if not alts:
        ctx.ob("A13.unbox", f"{outer}: every path returns a new wrapper", True, loc)
    else:
        cond, pol, val = alts[0]
        ctx.fail("A13.unbox", f"{outer}:fresh", f"autograd.tracer.{outer}:returns-argument", loc, f"{outer}() returns `{str(val)[:50]}` instead of a new wrapper when `{str(cond)[:60]}` is {pol}: rule tables are keyed by the wrapper's identity, so rules defined for the result are written onto the function that was passed in", "q = primitive(np.exp); defvjp(q, custom_rule): np.exp itself now differentiates with custom_rule (checkpoint(p) of a bare primitive p recurses forever)")


# --------------------------------------------------------------------------------------------- primitive wrapper
def wrapper(ctx, world):
    ctx.describe("A13.unbox/wrapper", "primitive.f_wrapped: only the boxes of the top trace (as returned by find_top_boxed_args) are replaced by their ._value (one level); the wrapper re-enters itself on those values (never f_raw while boxes may remain); f_raw is called with the original arguments only when no argument is boxed; the answer is boxed with the trace id and node type returned by find_top_boxed_args; parents and argnums are projections of the same boxed_args sequence; the node constructor receives (ans, f_wrapped, argvals, kwargs, argnums, parents)")
    # the wrapper is whatever nested function primitive(f_raw) returns (possibly through wraps(...)): found by value
    clo_w, top_w, osyms, m, outer_fn, outer_sc = returned_closure(world, TR, "primitive")
    node = clo_w.fnode
    loc = loc_of(m, node)
    q = "autograd.tracer.primitive.f_wrapped"
    _fresh_wrapper(ctx, world, "primitive", loc_of(m, outer_fn))
    f_raw = osyms["#0"]
    args = T("sym", name="args", role="param", star=True)
    kwargs_s = T("sym", name="kwargs", role="param", dstar=True)
    if not (isinstance(node, ast.FunctionDef) and node.args.vararg is not None and node.args.kwarg is not None and not node.args.args):
        ctx.fail("A13.unbox", "wrapper:shape", f"{q}:shape", loc, "the function returned by primitive() does not take (*args, **kwargs)", "any call of a primitive")
        return
    r = world.ev.apply(clo_w, [T("star", x=args)], {}, [kwargs_s])
    syms = {"args": args, "kwargs": kwargs_s}
    fw = top_w

    def is_self(t):
        # the wrapper referring to itself: the (decorated) closure bound to the name f_wrapped, or unresolved name
        if t is None:
            return False
        if t is fw:
            return True
        if t.op == "unknown" and t.reason == "name:f_wrapped":
            return True
        if t.op == "call" and t.args and t.args[-1].op == "closure" and t.args[-1].fnode is node:
            return True
        return t.op == "closure" and t.fnode is node

    if r is None:
        ctx.fail("A13.unbox", "wrapper:shape", f"{q}:shape", loc, "f_wrapped returns nothing", "any call of a primitive")
        return
    kw = syms.get("kwargs")
    KEEP = {"autograd.tracer.find_top_boxed_args", "autograd.tracer.new_box", "autograd.util.subvals", "autograd.tracer.getval", "autograd.tracer.isbox"}
    r = unseq(expand(world.ev, r, KEEP))
    ftb = [t for t in walk(r) if is_call_to(t, "autograd.tracer.find_top_boxed_args")]
    if not ftb:
        raise AnalysisError("f_wrapped no longer calls find_top_boxed_args")
    ftb_ok = all(len(c.args) == 1 and c.args[0] is args and not c.kw for c in ftb)
    comp = lambda i: (lambda t: t.op == "sub" and t.obj.op == "call" and is_call_to(t.obj, "autograd.tracer.find_top_boxed_args") and t.idx.op == "const" and t.idx.value == i)
    is_boxed, is_trace, is_ctor = comp(0), comp(1), comp(2)

    def star_of(t, pred):
        return t.op == "star" and pred(t.x)

    def unwrap_seq(t):
        # list(<comp>) / tuple(<comp>) / the comprehension itself
        if t.op == "call" and t.fn.op == "ref" and t.fn.ref.qual in ("builtins.tuple", "builtins.list") and len(t.args) == 1 and not t.kw:
            return t.args[0]
        return t

    def column(t):
        """i if t is column i of boxed_args written as zip(*boxed_args)[i], else None"""
        if t.op == "sub" and t.idx.op == "const" and t.idx.value in (0, 1) and is_call_to(t.obj, "builtins.zip") and len(t.obj.args) == 1 and t.obj.args[0].op == "star" and is_boxed(t.obj.args[0].x):
            return t.idx.value
        return None

    def over_boxed(t, elt_pred):
        """t enumerates elt_pred(argnum-term, box-term) for (argnum, box) in boxed_args, in order, unfiltered;
        the pairs may be taken from boxed_args itself or from one of its columns zip(*boxed_args)[i]"""
        never = lambda x: False
        t = norm_seq(t)
        col = column(t)
        if col is not None:
            # the bare column: elements are argnum (0) / box (1) themselves
            probe = T("sym", name="elem", role="param")
            return elt_pred(probe, (lambda x: x is probe) if col == 0 else never, (lambda x: x is probe) if col == 1 else never)
        c = unwrap_seq(t)
        if c.op != "comp" or c.conds or c.kind in ("SetComp", "DictComp"):
            return False
        if is_boxed(c.src):
            is_el = lambda x, i: x.op == "sub" and x.obj.op == "iterelem" and x.obj.src is c.src and x.idx.op == "const" and x.idx.value == i
            return elt_pred(c.elt, lambda x: is_el(x, 0), lambda x: is_el(x, 1))
        col = column(c.src)
        if col is None:
            return False
        is_it = lambda x: x.op == "iterelem" and x.src is c.src
        return elt_pred(c.elt, is_it if col == 0 else never, is_it if col == 1 else never)

    def is_argvals(t):
        if not (is_call_to(t, "autograd.util.subvals") and len(t.args) == 2 and not t.kw and t.args[0] is args):
            return False
        return over_boxed(t.args[1], lambda e, num, box: e.op in ("tuple", "list") and len(e.elts) == 2 and num(e.elts[0]) and _attr_of(e.elts[1], "_value") and box(e.elts[1].obj))

    def is_reentry(t):
        return t.op == "call" and is_self(t.fn) and len(t.args) == 1 and star_of(t.args[0], is_argvals) and not t.kw and len(t.dstar) == 1 and t.dstar[0] is kw

    nt_table = _notrace_table(world)

    def is_notrace_test(a):
        return a.op == "cmp" and a.opname == "In" and is_self(a.l) and a.r.op == "sub" and a.r.obj.op == "ref" and a.r.obj.ref.qual == nt_table and is_ctor(a.r.idx)

    cs = cases(r)
    undecided = [c for c in cs if c.pol(is_boxed) is None]
    if not undecided and ftb_ok:
        ctx.ob("A13.unbox", "wrapper:branches on boxed_args of find_top_boxed_args(args)", True, loc)
    else:
        ctx.fail("A13.unbox", "wrapper:branch", f"{q}:branch", loc, "the wrapper does not branch on the boxed_args component of find_top_boxed_args(args)", "mixed boxed/plain arguments")
    plain = [c for c in cs if c.pol(is_boxed) is False]
    traced = [c for c in cs if c.pol(is_boxed) is True]
    # --- no boxes: f_raw(*args, **kwargs)
    def is_plain_call(t):
        return t.op == "call" and t.fn is f_raw and len(t.args) == 1 and star_of(t.args[0], lambda x: x is args) and not t.kw and len(t.dstar) == 1 and t.dstar[0] is kw
    if plain and all(is_plain_call(c.leaf) for c in plain):
        ctx.ob("A13.unbox", "wrapper:no boxes -> f_raw(*args, **kwargs) unchanged", True, loc)
    else:
        found = str(plain[0].leaf)[:100] if plain else "no such path"
        ctx.fail("A13.unbox", "wrapper:plain call", f"{q}:plain-call", loc, f"with no boxed argument the wrapper does not return f_raw(*args, **kwargs) (found {found})", "calling any autograd.numpy function on plain inputs")
    # --- argvals = subvals(args, [(argnum, box._value) for argnum, box in boxed_args])
    have_argvals = any(is_argvals(t) for c in traced for t in walk(c.leaf))
    if have_argvals:
        ctx.ob("A13.unbox", "wrapper:argvals = args with exactly the top boxes replaced by ._value", True, loc)
    else:
        ctx.fail("A13.unbox", "wrapper:argvals", f"{q}:argvals", loc, "argvals is not subvals(args, [(argnum, box._value) for argnum, box in boxed_args]) (one level of unboxing of exactly the top-trace boxes)", "nested differentiation: a recursive getval would also strip the outer level's boxes (inner results no longer differentiable by the outer level)")
        return
    # --- notrace branch
    nt_cases = [c for c in traced if c.pol(is_notrace_test) is True]
    main_cases = [c for c in traced if c.pol(is_notrace_test) is False]
    loose = [c for c in traced if c.pol(is_notrace_test) is None]
    if nt_cases and not loose and all(is_reentry(c.leaf) for c in nt_cases):
        ctx.ob("A13.unbox", "wrapper:notrace -> re-enter the wrapper on the unboxed values, return plain", True, loc)
    elif not nt_cases and not main_cases:
        ctx.fail("A13.unbox", "wrapper:notrace", f"{q}:notrace", loc, "no notrace branch in the wrapper", "floor/argmax/comparisons of traced values")
        main_cases = traced
    else:
        ctx.fail("A13.unbox", "wrapper:notrace", f"{q}:notrace", loc, "notrace branch is not `if f_wrapped in notrace_primitives[node type]: return f_wrapped(*argvals, **kwargs)`", "x * floor(x) / comparisons inside nested differentiation")
        main_cases = main_cases or loose
    # --- main path: new_box(ans, trace, node)
    for c in main_cases:
        main = c.leaf
        if not is_call_to(main, "autograd.tracer.new_box") or len(main.args) != 3 or main.kw:
            ctx.fail("A13.unbox", "wrapper:rebox", f"{q}:rebox", loc, f"traced path does not return new_box(ans, trace, node) (found {str(main)[:80]})", "any traced primitive call")
            return
        ans, trc, nd = main.args
        if is_reentry(ans):
            ctx.ob("A13.unbox", "wrapper:ans = f_wrapped(*argvals, **kwargs) (re-entry handles lower trace levels)", True, loc)
        else:
            ctx.fail("A13.unbox", "wrapper:reentry", f"{q}:reentry", loc, f"ans is not computed by re-entering the wrapper on argvals (found {str(ans)[:80]}): calling f_raw directly drops the enclosing differentiation levels", "nested differentiation where an argument carries boxes of two levels")
        if is_trace(trc):
            ctx.ob("A12.top", "wrapper:answer boxed with the trace id of its top boxed arguments", True, loc)
        else:
            ctx.fail("A12.top", "wrapper:rebox-trace", f"{q}:rebox-trace", loc, f"the answer is boxed with {str(trc)[:60]} instead of the trace id returned by find_top_boxed_args", "an outer-level value used inside an inner differentiation gets the inner trace's id (perturbation confusion)")
        # node = ctor(ans, f_wrapped, argvals, kwargs, argnums, parents)
        good = nd.op == "call" and is_ctor(nd.fn) and len(nd.args) == 6 and not nd.kw
        if good:
            a = nd.args
            proj_num = lambda t: over_boxed(t, lambda e, num, box: num(e))
            proj_par = lambda t: over_boxed(t, lambda e, num, box: _attr_of(e, "_node") and box(e.obj))
            roles = [a[0] is ans or same(a[0], ans), is_self(a[1]), is_argvals(a[2]), a[3] is kw, proj_num(a[4]), proj_par(a[5])]
            names = ["ans", "f_wrapped", "argvals", "kwargs", "argnums (argnum of each top box, in boxed_args order)", "parents (node of each top box, in the same order)"]
            for okr, nm in zip(roles, names):
                if okr:
                    ctx.ob("A13.align", f"wrapper:node constructor slot {nm}", True, loc)
                else:
                    ctx.fail("A13.align", f"wrapper:node slot {nm}", f"{q}:node-slot:{nm.split(' ')[0]}", loc, f"node constructor argument for role '{nm}' is not what the Node classes expect", "a primitive with two differentiated arguments: cotangents are routed to the wrong parents / rules see wrong values")
        else:
            ctx.fail("A13.align", "wrapper:node ctor", f"{q}:node-ctor", loc, "the node is not built by node_constructor(ans, f_wrapped, argvals, kwargs, argnums, parents)", "any traced primitive call")


def _notrace_table(world):
    """qualified name of the registry register_notrace(trace_type, fun) writes (TABLE[trace_type].add(fun)): the table
    is identified by its writer, not by its name"""
    r, sy, m, fn, sc = eval_function(world, TR, "register_notrace")
    cands = []  # (container term, added value)
    for e in sc.effects:
        for t in walk(e):
            if t.op == "call" and t.fn.op == "attr" and t.fn.name == "add" and len(t.args) == 1 and not t.kw:
                cands.append((t.fn.obj, t.args[0]))
    for v in sc.vars.values():
        # bucket = TABLE[trace_type]; bucket.add(fun): the set reached through a local name
        if v is not None and v.op == "grow" and v.how == "add":
            cands.append((v.obj, v.val))
    for obj, val in cands:
        obj = unseq(expand(world.ev, obj, ()))
        if obj.op == "sub" and obj.obj.op == "ref" and obj.idx is sy["#0"] and val is sy["#1"]:
            return obj.obj.ref.qual
    raise AnalysisError("register_notrace no longer adds the function to a module-level table indexed by the node type")


def notrace_wrapper(ctx, world):
    ctx.describe("A13.unbox/notrace", "notrace_primitive applies the recursive getval to every positional argument and calls the raw function; getval strips all levels")
    clo_n, top_n, osy_n, m, outer_n, osc_n = returned_closure(world, TR, "notrace_primitive")
    node = clo_n.fnode
    loc = loc_of(m, node)
    _fresh_wrapper(ctx, world, "notrace_primitive", loc_of(m, outer_n))
    q = "autograd.tracer.notrace_primitive.f_wrapped"
    f_raw = osy_n["#0"]
    args = T("sym", name="args", role="param", star=True)
    kw = T("sym", name="kwargs", role="param", dstar=True)
    r = unseq(expand(world.ev, world.ev.apply(clo_n, [T("star", x=args)], {}, [kw]), {"autograd.tracer.getval"}))
    good = False
    if r is not None and r.op == "call" and r.fn is f_raw and len(r.args) == 1 and r.args[0].op == "star":
        inner = r.args[0].x
        if inner.op == "call" and inner.fn.op == "ref" and inner.fn.ref.qual == "builtins.map" and len(inner.args) == 2:
            g0 = inner.args[0]
            good = g0.op == "ref" and g0.ref.qual == "autograd.tracer.getval" and inner.args[1] is args
        if inner.op == "comp":
            good = is_call_to(inner.elt, "autograd.tracer.getval") and inner.src is args
        good = good and len(r.dstar) == 1 and r.dstar[0] is kw
    if good:
        ctx.ob("A13.unbox", "notrace wrapper: f_raw(*map(getval, args), **kwargs)", True, loc)
    else:
        ctx.fail("A13.unbox", "notrace wrapper", f"{q}:body", loc, f"notrace_primitive does not call f_raw(*map(getval, args), **kwargs) (found {str(r)[:100]})", "shape/ndim/isinstance/type queries on traced values inside nested differentiation")
    # getval(x) = getval(x._value) if isbox(x) else x   (lambda or def, either polarity)
    tm = world.repo.mod(TR)
    b = tm.top.get("getval")
    if not b:
        raise AnalysisError("tracer.getval vanished")
    gv = b[-1][1]
    ok = False
    if isinstance(gv, (ast.Lambda, ast.FunctionDef)):
        x = P("x")
        from ..terms import Scope
        res = world.ev.apply(T("closure", gv, tm, fnode=gv, scope=Scope(), bound=[], boundkw={}), [x], {})
        cs = cases(unseq(res))
        is_test = lambda a: is_call_to(a, "autograd.tracer.isbox") and len(a.args) == 1 and a.args[0] is x
        def rec_ok(t):
            return is_call_to(t, "autograd.tracer.getval") and len(t.args) == 1 and _attr_of(t.args[0], "_value") and t.args[0].obj is x
        ok = bool(cs) and all((c.pol(is_test) is True and rec_ok(c.leaf)) or (c.pol(is_test) is False and c.leaf is x) for c in cs)
        ok = ok and any(c.pol(is_test) is True for c in cs) and any(c.pol(is_test) is False for c in cs)
        if not ok and len(cs) == 1 and cs[0].leaf.op == "loop" and not cs[0].facts:
            # iterative form: while isbox(x): x = x._value; return x
            lp = cs[0].leaf
            me = lambda t: t.op == "loopvar" and t.name == lp.name and t.node is lp.node
            cnd = lp.get("cond")
            ok = lp.get("it") is None and lp.init is x and cnd is not None and is_call_to(cnd, "autograd.tracer.isbox") and len(cnd.args) == 1 and me(cnd.args[0]) and _attr_of(lp.next, "_value") and me(lp.next.obj)
    if ok:
        ctx.ob("A13.unbox", "getval strips boxes recursively", True, loc_of(tm, gv))
    else:
        ctx.fail("A13.unbox", "getval", "autograd.tracer.getval", loc_of(tm, gv), "getval is not `getval(x._value) if isbox(x) else x`", "a value boxed at two levels passed to isinstance/shape/notrace functions")


# --------------------------------------------------------------------------------------------- find_top_boxed_args
def find_top(ctx, world):
    ctx.describe("A12.top/find_top", "find_top_boxed_args: the list of top boxes is reset when a strictly greater trace id is seen and appended to on equality; the sentinel is below every id new_trace can yield; the returned node type is that of the top boxes.  Decided on the loop-carried terms of the evaluated function: for each of (boxes, top id, node type) the next-iteration value is classified by the facts isbox(arg), top < arg._trace, arg._trace == top")
    r, syms, m, fn, sc = eval_function(world, TR, "find_top_boxed_args")
    loc = loc_of(m, fn)
    q = "autograd.tracer.find_top_boxed_args"
    args = syms[fn.args.args[0].arg]
    r = unseq(r) if r is not None else None
    if r is None or r.op != "tuple" or len(r.elts) != 3 or not all(e.op == "loop" and e.get("it") is not None for e in r.elts):
        ctx.fail("A12.top", "find_top:return", f"{q}:return", loc, "does not return (top_boxes, top_trace, top_node_type) accumulated over the arguments", "any primitive call")
        return
    boxes, top, ntype = r.elts
    it = boxes.it
    enum_ok = is_call_to(it, "builtins.enumerate") and len(it.args) == 1 and it.args[0] is args and top.it is it and ntype.it is it
    is_num = lambda t: t.op == "sub" and t.obj.op == "iterelem" and t.obj.src is it and t.idx.op == "const" and t.idx.value == 0
    is_arg = lambda t: t.op == "sub" and t.obj.op == "iterelem" and t.obj.src is it and t.idx.op == "const" and t.idx.value == 1
    is_tr = lambda t: _attr_of(t, "_trace") and is_arg(t.obj)
    is_top = lambda t: t.op == "loopvar" and t.name == top.name and t.node is top.node
    self_of = lambda lp: (lambda t: t.op == "loopvar" and t.name == lp.name and t.node is lp.node)
    a_isbox = lambda a: is_call_to(a, "autograd.tracer.isbox") and len(a.args) == 1 and is_arg(a.args[0])
    a_gt = lambda a: a.op == "cmp" and a.opname == "Lt" and is_top(a.l) and is_tr(a.r)  # canonical form of trace > top
    a_ge = lambda a: a.op == "cmp" and a.opname == "Lt" and is_tr(a.l) and is_top(a.r)  # its negation is trace >= top
    a_eq = lambda a: a.op == "cmp" and a.opname == "Eq" and ((is_tr(a.l) and is_top(a.r)) or (is_top(a.l) and is_tr(a.r)))
    # the (argnum, box) pair: written out from the two components, or the element of enumerate(args) as a whole
    pair = lambda t: (t.op in ("tuple", "list") and len(t.elts) == 2 and is_num(t.elts[0]) and is_arg(t.elts[1])) or (t.op == "iterelem" and t.src is it)

    def classify(c):
        """reset / append / keep / odd for one path of an iteration"""
        if c.pol(a_isbox) is False:
            return "keep"
        if c.pol(a_isbox) is not True:
            return "odd:isbox not tested"
        # which order relations between the argument's trace id and the current top are possible on this path
        # (trichotomy: the tests `id < top`, `id == top`, `top < id` each confirm one relation or exclude it)
        rel = {"lt", "eq", "gt"}
        for atom_, name_ in ((a_ge, "lt"), (a_eq, "eq"), (a_gt, "gt")):
            p_ = c.pol(atom_)
            if p_ is True:
                rel &= {name_}
            elif p_ is False:
                rel -= {name_}
        if rel == {"gt"}:
            return "reset"
        if rel == {"eq"}:
            return "append"
        if rel == {"lt"} or rel == {"lt", "eq"}:
            return "keep"  # older trace (or: the equality is not consulted on this path): nothing may change
        if rel == {"eq", "gt"}:
            return "odd:non-strict comparison"
        return "odd:comparison"

    problems_reset, problems_append = [], []
    seen = set()
    for c in cases(boxes.next):
        k = classify(c)
        seen.add(k)
        if k == "reset":
            from ..tutil import fold_appends

            lf = fold_appends(c.leaf)  # `boxes = []` followed by the shared `boxes.append(pair)` is `[pair]`
            ok = lf.op == "list" and len(lf.elts) == 1 and pair(lf.elts[0])
            if not ok:
                problems_reset.append(f"on a strictly greater id the list becomes {str(c.leaf)[:60]}")
        elif k == "append":
            ok = c.leaf.op == "grow" and c.leaf.how == "append" and self_of(boxes)(c.leaf.obj) and pair(c.leaf.val)
            if not ok:
                problems_append.append(f"on an equal id the list becomes {str(c.leaf)[:60]}")
        elif k == "keep":
            if not self_of(boxes)(c.leaf):
                problems_reset.append(f"the list changes on a path where the argument is not a box of the top trace ({str(c.leaf)[:50]})")
        else:
            problems_reset.append(k)
    if "reset" not in seen:
        problems_reset.append("no path resets the list on a strictly greater trace id")
    if "append" not in seen:
        problems_append.append("no path appends on an equal trace id")
    for lp, want, what in ((top, is_tr, "top_trace"), (ntype, lambda t: is_call_to(t, "builtins.type") and len(t.args) == 1 and _attr_of(t.args[0], "_node") and is_arg(t.args[0].obj), "top_node_type")):
        for c in cases(lp.next):
            k = classify(c)
            if k == "reset":
                if not want(c.leaf):
                    problems_reset.append(f"{what} is not updated from the new top box on reset ({str(c.leaf)[:50]})")
            elif k in ("keep", "append"):
                if not self_of(lp)(c.leaf):
                    problems_reset.append(f"{what} changes without a reset ({str(c.leaf)[:50]})")
            else:
                problems_reset.append(f"{what}: {k}")
    if not enum_ok:
        problems_reset.append("the loop does not enumerate(args)")
    if not problems_reset:
        ctx.ob("A12.top", "find_top:reset on strictly greater id", True, loc)
    else:
        ctx.fail("A12.top", "find_top:reset", f"{q}:reset", loc, "the top-box list is not reset exactly when a strictly greater trace id is seen (`trace > top_trace` -> fresh one-element list, top_trace, node type): " + "; ".join(sorted(set(problems_reset)))[:200], "a primitive called with two boxes of the same (innermost) trace: with >= the first one is forgotten and treated as a constant")
    if not problems_append:
        ctx.ob("A12.top", "find_top:append on equal id", True, loc)
    else:
        ctx.fail("A12.top", "find_top:append", f"{q}:append", loc, "boxes with an id equal to the current top are not appended: " + "; ".join(sorted(set(problems_append)))[:200], "x * x or f(x, y) with both arguments traced at the same level")
    # sentinel
    init = top.init.value if top.init is not None and top.init.op == "const" and isinstance(top.init.value, int) else None
    empty_ok = boxes.init is not None and ((boxes.init.op == "list" and not boxes.init.elts) or (is_call_to(boxes.init, "builtins.list") and not boxes.init.args))
    first = _first_trace_id(world)
    if init is not None and first is not None and init < first and empty_ok:
        ctx.ob("A12.bal", f"find_top:sentinel {init} < first id {first}", True, loc)
    else:
        ctx.fail("A12.bal", "find_top:sentinel", f"{q}:sentinel", loc, f"sentinel {init} is not below the first trace id {first} (or the box list does not start empty)", "the outermost differentiation: its boxes are not recognised as the top trace")


def _first_trace_id(world):
    m, cls = world.repo.find_def(TR, "TraceStack")
    init = None
    for st in cls.body:
        if isinstance(st, ast.FunctionDef) and st.name == "__init__":
            for s in ast.walk(st):
                if isinstance(s, ast.Assign) and isinstance(s.targets[0], ast.Attribute) and s.targets[0].attr == "top":
                    try:
                        init = ast.literal_eval(s.value)
                    except Exception:
                        return None
    if init is None:
        return None
    return init + 1


# --------------------------------------------------------------------------------------------- new_trace
def new_trace(ctx, world):
    ctx.describe("A12.bal", "new_trace: `top` is incremented by one before the yield, the yielded id is the post-increment value, `top` is decremented by one after the yield; it is never assigned an absolute value outside __init__")
    m, cls = world.repo.find_def(TR, "TraceStack")
    q = "autograd.tracer.TraceStack"
    nt = None
    for st in cls.body:
        if isinstance(st, ast.FunctionDef) and st.name == "new_trace":
            nt = st
    if nt is None:
        raise AnalysisError("TraceStack.new_trace vanished")
    loc = loc_of(m, nt)
    deco = [world.repo.resolve_expr(m, d) for d in nt.decorator_list]
    if any(d is not None and d.qual == "contextlib.contextmanager" for d in deco):
        ctx.ob("A12.bal", "new_trace is a contextmanager generator", True, loc)
    else:
        ctx.fail("A12.bal", "new_trace:contextmanager", f"{q}.new_trace:decorator", loc, "new_trace is not a @contextmanager generator", "every differentiation")
    selfn = nt.args.args[0].arg
    def is_top(n):
        return isinstance(n, ast.Attribute) and n.attr == "top" and isinstance(n.value, ast.Name) and n.value.id == selfn
    ps = paths(nt.body)
    good_paths = 0
    bad = None
    for p in ps:
        seq = []
        for e in p:
            if e.kind == "stmt":
                st = e.node
                if isinstance(st, ast.AugAssign) and is_top(st.target) and isinstance(st.value, ast.Constant) and st.value.value == 1:
                    seq.append("+1" if isinstance(st.op, ast.Add) else ("-1" if isinstance(st.op, ast.Sub) else "?"))
                elif isinstance(st, ast.Assign) and any(is_top(t) for t in st.targets):
                    seq.append("abs")
                elif isinstance(st, ast.Expr) and isinstance(st.value, ast.Yield):
                    seq.append("yield-top" if st.value.value is not None and is_top(st.value.value) else "yield-other")
                elif isinstance(st, ast.AugAssign) and is_top(st.target):
                    seq.append("?")
            elif e.kind == "except":
                seq.append("except")
        if "except" in seq:
            # exceptional exit: the handler must not assign an absolute value; a balancing -1 is allowed
            inside = seq[seq.index("except") + 1 :]
            if "abs" in inside or "?" in inside:
                bad = seq
            continue
    # normal paths, on the evaluated body (attribute state is tracked, so `self.top = self.top + 1`,
    # `t = self.top + 1; self.top = t; yield t`, try/finally ... all have the same effect sequence)
    r_, sy_, m_, fn_, sc_ = eval_function(world, TR, "TraceStack.new_trace")
    selfs = sy_[selfn]
    top0 = lambda t: t.op == "attr" and t.name == "top" and t.obj is selfs
    evs = []
    for e in sc_.effects:
        cond = False
        while e.op == "when":
            e, cond = e.eff, True
        if e.op == "setattr" and e.store.obj is selfs and e.store.idx.value == "top":
            evs.append(("set", e.store.val, cond))
        elif e.op == "yield":
            evs.append(("yield", e.x, cond))
        else:
            for y in walk(e):
                if y.op == "yield":
                    evs.append(("yield", y.x, True))
    good_seq = False
    if len(evs) == 3 and [k for k, _, _ in evs] == ["set", "yield", "set"] and not any(c for _, _, c in evs):
        v1, y, v2 = evs[0][1], evs[1][1], evs[2][1]
        one = lambda t: t.op == "const" and type(t.value) is int and t.value == 1
        inc = v1.op == "bin" and v1.opname == "Add" and ((top0(v1.l) and one(v1.r)) or (top0(v1.r) and one(v1.l)))
        yld = y is v1 or same(y, v1)
        dec = (v2.op == "bin" and v2.opname == "Sub" and (v2.l is v1 or same(v2.l, v1)) and one(v2.r)) or top0(v2)
        good_seq = bool(inc and yld and dec)
    if bad is None and good_seq:
        ctx.ob("A12.bal", "new_trace: +1 / yield top / -1 on every normal path", True, loc, sample="['+1','yield-top','-1']")
    else:
        found = bad if bad is not None else [(k, str(v)[:40], "conditional" if c else "") for k, v, c in evs]
        ctx.fail("A12.bal", "new_trace:balance", f"{q}.new_trace:balance", loc, f"new_trace does not perform exactly `top += 1; yield top; top -= 1` (found {found})", "nested differentiation (ids of inner traces must be strictly larger than enclosing ones) / a failed differentiation followed by a nested one")
    # no other writer of .top anywhere in the package (besides __init__)
    n_w = 0
    for mod in world.repo.mods.values():
        for fq, fnode in mod.functions():
            if fnode is nt:
                continue
            for n in ast.walk(fnode) if not isinstance(fnode, ast.Lambda) else []:
                tgt = None
                if isinstance(n, ast.Assign):
                    tgt = [t for t in n.targets if isinstance(t, ast.Attribute) and t.attr == "top"]
                elif isinstance(n, ast.AugAssign) and isinstance(n.target, ast.Attribute) and n.target.attr == "top":
                    tgt = [n.target]
                if tgt:
                    owner = fq.rsplit(".", 1)[-1]
                    if owner == "__init__" and fq.startswith(f"{TR}.TraceStack"):
                        n_w += 1
                        continue
                    if _enclosing_def(n) is not fnode:
                        continue
                    ctx.fail("A12.bal", f"top written in {fq}", f"{fq}:writes-top", loc_of(mod, n), f"`{norm_text(n)}` assigns the trace depth counter outside new_trace/__init__", "a differentiation that raises inside an enclosing live differentiation: resetting the counter gives a later inner trace the id of the enclosing one")
    ctx.ob("A12.bal", "no writer of .top outside TraceStack.__init__/new_trace", True, loc_of(m, cls), nontrivial=True)


def _enclosing_def(n):
    p = getattr(n, "_parent", None)
    while p is not None and not isinstance(p, (ast.FunctionDef, ast.Lambda)):
        p = getattr(p, "_parent", None)
    return p


# --------------------------------------------------------------------------------------------- A12.cmp
ALLOWED_CTX = "comparison operand, local copy, return value, yield, trace slot of new_box / Box.__init__, ±1 self-update"


def trace_id_uses(ctx, world):
    ctx.describe("A12.cmp", f"every read of a trace id (`._trace`, `trace_stack.top`/`self.top`, and locals copied from them) is used only as: {ALLOWED_CTX}; never in arithmetic that reaches a value, as an index/dict key, or compared with a constant")
    n = 0
    for mod in world.repo.mods.values():
        if mod.name.startswith(("autograd.scipy", "autograd.misc")):
            continue
        for fq, fnode in mod.functions():
            if isinstance(fnode, ast.Lambda):
                body_nodes = list(ast.walk(fnode.body))
            else:
                body_nodes = [x for st in fnode.body for x in ast.walk(st)]
            # only nodes whose innermost enclosing def is this function
            own = [x for x in body_nodes if _enclosing_def(x) is fnode]
            tainted = set()
            reads = []
            for x in own:
                if isinstance(x, ast.Attribute) and isinstance(x.ctx, ast.Load) and x.attr in ("_trace",):
                    reads.append(x)
                if isinstance(x, ast.Attribute) and isinstance(x.ctx, ast.Load) and x.attr == "top" and _is_tracestack_expr(world, mod, x.value, fnode):
                    reads.append(x)
            # `with <trace stack>.new_trace() as t`: t IS the id of the new trace
            for x in own:
                if isinstance(x, (ast.With, ast.AsyncWith)):
                    for it_ in x.items:
                        ce = it_.context_expr
                        if isinstance(ce, ast.Call) and isinstance(ce.func, ast.Attribute) and ce.func.attr == "new_trace" and isinstance(it_.optional_vars, ast.Name):
                            tainted.add(it_.optional_vars.id)
            # locals copied from reads (one assignment level, to a fixpoint)
            changed = True
            packed = {}  # local name bound to a tuple display -> (arity, positions holding a trace id)
            is_id = lambda v: (v in reads) or (isinstance(v, ast.Name) and v.id in tainted)
            while changed:
                changed = False
                for x in own:
                    if isinstance(x, ast.Assign) and len(x.targets) == 1 and isinstance(x.targets[0], ast.Name):
                        v = x.value
                        if (v in reads) or (isinstance(v, ast.Name) and v.id in tainted):
                            if x.targets[0].id not in tainted:
                                tainted.add(x.targets[0].id)
                                changed = True
                        if isinstance(v, ast.Tuple) and any(is_id(e) for e in v.elts):
                            # state = (boxes, trace, node_type): a packed local state; its trace positions are remembered
                            ar, pos = packed.get(x.targets[0].id, (len(v.elts), set()))
                            new_pos = pos | {i for i, e in enumerate(v.elts) if is_id(e)}
                            if ar == len(v.elts) and new_pos != pos or x.targets[0].id not in packed:
                                packed[x.targets[0].id] = (ar if ar == len(v.elts) else -1, new_pos)
                                changed = True
                    elif isinstance(x, ast.Assign) and len(x.targets) == 1 and isinstance(x.targets[0], (ast.Tuple, ast.List)) and isinstance(x.value, ast.Name) and x.value.id in packed:
                        ar, pos = packed[x.value.id]
                        if ar == len(x.targets[0].elts):
                            for i, t_ in enumerate(x.targets[0].elts):
                                if i in pos and isinstance(t_, ast.Name) and t_.id not in tainted:
                                    tainted.add(t_.id)
                                    changed = True
                    elif isinstance(x, ast.Assign) and len(x.targets) == 1 and isinstance(x.targets[0], (ast.Tuple, ast.List)) and isinstance(x.value, (ast.Tuple, ast.List)) and len(x.value.elts) == len(x.targets[0].elts):
                        for t_, v in zip(x.targets[0].elts, x.value.elts):
                            if isinstance(t_, ast.Name) and ((v in reads) or (isinstance(v, ast.Name) and v.id in tainted)) and t_.id not in tainted:
                                tainted.add(t_.id)
                                changed = True
            for x in own:
                if isinstance(x, ast.Name) and isinstance(x.ctx, ast.Load) and x.id in tainted:
                    reads.append(x)
            # a packed state may only be unpacked (same arity), returned, or rebound: then packing an id into it is a copy
            packed_ok = set()
            sub_reads = []
            for nm_, (ar, pos) in packed.items():
                good = ar > 0
                for x in own:
                    if isinstance(x, ast.Name) and x.id == nm_ and isinstance(x.ctx, ast.Load):
                        px = getattr(x, "_parent", None)
                        if isinstance(px, ast.Return) and px.value is x:
                            continue
                        if isinstance(px, ast.Assign) and px.value is x and len(px.targets) == 1 and isinstance(px.targets[0], (ast.Tuple, ast.List)) and len(px.targets[0].elts) == ar and all(isinstance(t_, ast.Name) for t_ in px.targets[0].elts):
                            continue
                        if isinstance(px, ast.Subscript) and px.value is x and isinstance(px.ctx, ast.Load) and isinstance(px.slice, ast.Constant) and type(px.slice.value) is int and -ar <= px.slice.value < ar:
                            # state[k]: a component read; when k is a trace position it is a read of the id
                            if (px.slice.value % ar) in pos:
                                sub_reads.append(px)
                            continue
                        good = False
                if good:
                    packed_ok.add(nm_)
            reads.extend(sub_reads)
            for rd in reads:
                n += 1
                ok, why = _use_ok(world, mod, rd, tainted)
                if not ok:
                    p_ = getattr(rd, "_parent", None)
                    pp_ = getattr(p_, "_parent", None)
                    if isinstance(p_, ast.Tuple) and isinstance(pp_, ast.Assign) and pp_.value is p_ and len(pp_.targets) == 1 and isinstance(pp_.targets[0], ast.Name) and pp_.targets[0].id in packed_ok:
                        ok = True
                inst = f"{fq}:{norm_text(getattr(rd, '_parent', rd))[:60]}"
                if ok:
                    ctx.ob("A12.cmp", inst, True, loc_of(mod, rd))
                else:
                    ctx.fail("A12.cmp", inst, f"{fq}|{norm_text(getattr(rd, '_parent', rd))[:80]}", loc_of(mod, rd), f"trace id used as {why}: `{norm_text(getattr(rd, '_parent', rd))[:80]}`", "results then depend on the absolute value of the depth counter, which is shifted by every differentiation that failed earlier in the process")
    ctx.floor("A12.cmp reads of trace ids", n, 6)


def _is_tracestack_expr(world, mod, v, fnode):
    if isinstance(v, ast.Name):
        if v.id == "self":
            p = getattr(fnode, "_parent", None)
            return isinstance(p, ast.ClassDef) and p.name == "TraceStack"
        r = world.repo.resolve(mod, v.id)
        return r is not None and r.qual == "autograd.tracer.trace_stack"
    r = world.repo.resolve_expr(mod, v)
    return r is not None and r.qual == "autograd.tracer.trace_stack"


def _use_ok(world, mod, rd, tainted):
    p = getattr(rd, "_parent", None)
    if isinstance(p, ast.Compare):
        others = [x for x in [p.left] + p.comparators if x is not rd]
        for o in others:
            if isinstance(o, ast.Constant):
                return False, "an operand compared with a constant"
        return True, ""
    if isinstance(p, ast.Assign) and p.value is rd:
        return True, ""
    if isinstance(p, (ast.Return, ast.Yield)):
        return True, ""
    if isinstance(p, ast.Expr):
        return True, ""
    if isinstance(p, ast.Tuple):
        pp = getattr(p, "_parent", None)
        if isinstance(pp, ast.Return):
            return True, ""
        if isinstance(pp, ast.Assign) and pp.value is p and len(pp.targets) == 1 and isinstance(pp.targets[0], (ast.Tuple, ast.List)) and len(pp.targets[0].elts) == len(p.elts) and all(isinstance(t_, ast.Name) for t_ in pp.targets[0].elts):
            return True, ""  # parallel assignment a, b = trace, other: a local copy
        return False, "an element of a data structure"
    if isinstance(p, ast.AugAssign) and p.target is rd:
        return True, ""
    if isinstance(p, ast.AugAssign):
        return False, "an operand of arithmetic"
    if isinstance(p, ast.Call) and rd in p.args:
        f = world.repo.resolve_expr(mod, p.func)
        if f is None and isinstance(p.func, ast.Name):
            # a local alias bound once in the enclosing function: make_box = new_box
            encl = _enclosing_def(rd)
            binds = [y for y in ast.walk(encl) if isinstance(y, ast.Assign) and len(y.targets) == 1 and isinstance(y.targets[0], ast.Name) and y.targets[0].id == p.func.id] if encl is not None else []
            if len(binds) == 1 and isinstance(binds[0].value, (ast.Name, ast.Attribute)):
                f = world.repo.resolve_expr(mod, binds[0].value)
        if f is not None and f.qual in ("autograd.tracer.new_box",):
            return p.args.index(rd) == 1, "a non-trace argument of new_box"
        if isinstance(p.func, ast.Subscript) or isinstance(p.func, ast.Call):
            # box_type_mappings[type(value)](value, trace, node)
            return p.args.index(rd) == 1, "a non-trace argument of a Box constructor"
        if f is not None and f.kind == "repo" and f.okind == "class":
            return p.args.index(rd) == 1, "a non-trace argument of a Box constructor"
        return False, f"an argument of {norm_text(p.func)}"
    if isinstance(p, ast.BinOp):
        other = p.right if p.left is rd else p.left
        f_ = _enclosing_def(rd)
        cls_ = getattr(f_, "_parent", None) if f_ is not None else None
        if isinstance(p.op, (ast.Add, ast.Sub)) and isinstance(other, ast.Constant) and type(other.value) is int and other.value == 1 and getattr(f_, "name", None) == "new_trace" and isinstance(cls_, ast.ClassDef) and cls_.name == "TraceStack":
            return True, ""  # the +-1 update of the counter written out inside new_trace: its exact sequence is decided by A12.bal
        return False, "an operand of arithmetic"
    if isinstance(p, ast.Subscript):
        return False, "an index / key"
    if isinstance(p, (ast.FormattedValue, ast.JoinedStr)):
        return True, ""
    if isinstance(p, ast.Attribute):
        return True, ""
    return False, f"{type(p).__name__}"


# --------------------------------------------------------------------------------------------- A11 global effects
MUTATORS = {"add", "append", "extend", "update", "pop", "popitem", "remove", "discard", "clear", "setdefault", "insert", "__setitem__", "sort", "reverse"}
REG_WRITERS = {
    "autograd.tracer.register_notrace": "registration API",
    "autograd.core.defvjp_argnums": "registration API",
    "autograd.core.defjvp_argnums": "registration API",
    "autograd.tracer.Box.register": "registration API",
    "autograd.core.VSpace.register": "registration API",
}


# setters of process-global state OUTSIDE the library (NumPy's floating-point error state and print options, the
# warnings filters, interpreter limits, the global RNGs): what one call leaves behind every later call inherits
EXTERNAL_SETTERS = {
    "numpy.seterr", "numpy.seterrcall", "numpy.setbufsize", "numpy.set_printoptions", "numpy.random.seed", "numpy.random.set_state",
    "warnings.simplefilter", "warnings.filterwarnings", "warnings.resetwarnings", "sys.setrecursionlimit", "sys.settrace", "sys.setprofile",
    "locale.setlocale", "random.seed", "random.setstate", "os.chdir", "os.putenv", "gc.disable", "gc.enable", "gc.set_threshold",
}
RESTORING_CONTEXTS = {"numpy.errstate", "numpy.printoptions", "warnings.catch_warnings"}


def _external_setter_sites(repo, mod, tree):
    """(call node, qualified name, protected?) for every call of an external state setter in the tree; a call is
    protected when a `finally` of the same function calls the same setter again (the restore) and the call sits in that
    try's body, in its finally, or directly before the try - or when it is inside `with errstate/printoptions/
    catch_warnings`"""
    out = []
    for x in ast.walk(tree):
        if not isinstance(x, ast.Call):
            continue
        r = repo.resolve_expr(mod, x.func)
        if r is None or r.qual not in EXTERNAL_SETTERS:
            continue
        prot = False
        # enclosing restoring context manager / enclosing try with a restoring finally
        p, child = getattr(x, "_parent", None), x
        while p is not None and not isinstance(p, (ast.FunctionDef, ast.AsyncFunctionDef, ast.Lambda, ast.Module)):
            if isinstance(p, ast.With) and any((lambda rr: rr is not None and rr.qual in RESTORING_CONTEXTS)(repo.resolve_expr(mod, it.context_expr.func if isinstance(it.context_expr, ast.Call) else it.context_expr)) for it in p.items):
                prot = True
            if isinstance(p, ast.Try) and p.finalbody:
                restores = any(isinstance(y, ast.Call) and (lambda rr: rr is not None and rr.qual == r.qual)(repo.resolve_expr(mod, y.func)) for st in p.finalbody for y in ast.walk(st))
                if restores:
                    prot = True
            child, p = p, getattr(p, "_parent", None)
        if not prot:
            # old = seterr(..)  directly followed by  try: .. finally: seterr(**old)
            st = x
            while getattr(st, "_parent", None) is not None and not isinstance(st, ast.stmt):
                st = st._parent
            blk = getattr(st, "_parent", None)
            for fld in ("body", "orelse", "finalbody"):
                seq = getattr(blk, fld, None) if blk is not None else None
                if isinstance(seq, list) and st in seq:
                    i = seq.index(st)
                    nxt = seq[i + 1] if i + 1 < len(seq) else None
                    if isinstance(nxt, ast.Try) and nxt.finalbody and any(isinstance(y, ast.Call) and (lambda rr: rr is not None and rr.qual == r.qual)(repo.resolve_expr(mod, y.func)) for s2 in nxt.finalbody for y in ast.walk(s2)):
                        prot = True
        out.append((x, r.qual, prot))
    return out


def _external_state(ctx, world, core_mods):
    """A11.state, external clause: the differentiation path does not leave NumPy's / the interpreter's global state
    changed - a setter is only called under a restoring context manager or with its restore in a `finally`"""
    import textwrap

    # the matcher must still recognise the construct it is there for (today's tree has no instance)
    probe = ast.parse(textwrap.dedent("""
        import numpy as onp
        def rule(x):
            old = onp.seterr(divide="raise")
            try:
                y = 1 / x
            except FloatingPointError:
                y = helper(x)
            onp.seterr(**old)
            return y
        def fine(x):
            old = onp.seterr(divide="raise")
            try:
                return 1 / x
            finally:
                onp.seterr(**old)
    """))
    for n_ in ast.walk(probe):
        for c_ in ast.iter_child_nodes(n_):
            c_._parent = n_

    class _R:
        def __init__(self, q):
            self.qual = q

    class _ProbeRepo:
        def resolve_expr(self, mod, e):
            if isinstance(e, ast.Attribute) and isinstance(e.value, ast.Name) and e.value.id == "onp":
                return _R("numpy." + e.attr)
            return None

    got = [(q, p_) for _, q, p_ in _external_setter_sites(_ProbeRepo(), None, probe)]
    if sorted(p_ for _, p_ in got) != [False, False, True, True]:
        raise AnalysisError(f"A11 external-state matcher no longer recognises its positive example ({got})")
    bad = 0
    n = 0
    for mod in core_mods:
        for x, q, prot in _external_setter_sites(world.repo, mod, mod.tree):
            n += 1
            fq = _enclosing_def(x)
            where = getattr(fq, "name", "<module>")
            if prot:
                ctx.ob("A11.state", f"{mod.name}.{where}: {q} restored in finally / context manager", True, loc_of(mod, x))
            else:
                bad += 1
                ctx.fail("A11.state", f"{mod.name}.{where}:{q}", f"external-state:{mod.name}.{where}:{q}", loc_of(mod, x), f"`{norm_text(x)[:60]}` changes process-global state outside the library and no `finally` / context manager restores it on every exit: an exception between the change and the restore (or a missing restore) leaves the state behind for every later call", "a differentiation that raises inside the region (an unsupported configuration, a missing rule at second order), then any unrelated differentiation in the same process")
    if not bad:
        ctx.ob("A11.state", f"no unrestored change of external global state (NumPy error state / print options, warnings filters, RNG seeds, interpreter limits); {n} protected site(s); matcher verified on its positive example", True, "autograd/*", nontrivial=True)


def global_effects(ctx, world, thread=False):
    ctx.describe("A11", "the only process-global state written by code reachable from a differentiation call is the trace depth counter: registries (primitive_vjps, primitive_jvps, notrace_primitives, Box.type_mappings/types, VSpace.mappings, sparse_object_types) are written only by the registration API; no function carries a memo/cache (module-level container mutated in a function, `global` rebinding, lru_cache); A11.thread: every such counter lives in a threading.local")
    core_mods = [m for m in world.repo.mods.values() if not m.name.startswith(("autograd.scipy", "autograd.misc", "autograd.test_util"))]
    # module-level mutable containers and class-level containers
    for mod in core_mods:
        globs = {}
        for name, bl in mod.top.items():
            b = bl[-1]
            if b[0] == "assign" and isinstance(b[1], (ast.Dict, ast.List, ast.Set, ast.Call, ast.DictComp, ast.ListComp)):
                globs[name] = b
        class_attrs = {}
        for st in mod.tree.body:
            if isinstance(st, ast.ClassDef):
                for s in st.body:
                    if isinstance(s, ast.Assign) and isinstance(s.value, (ast.Dict, ast.List, ast.Set, ast.Call)):
                        for t in s.targets:
                            if isinstance(t, ast.Name):
                                class_attrs[(st.name, t.id)] = s
        for fq, fnode in mod.functions():
            if isinstance(fnode, ast.Lambda):
                own = list(ast.walk(fnode.body))
            else:
                own = [x for st in fnode.body for x in ast.walk(st)]
            own = [x for x in own if _enclosing_def(x) is fnode]
            locals_ = _locals_of(fnode)
            for x in own:
                tgt = None
                how = None
                if isinstance(x, ast.Global):
                    tgt, how = ",".join(x.names), "global statement"
                elif isinstance(x, (ast.Assign, ast.AugAssign, ast.Delete)):
                    tgts = x.targets if isinstance(x, (ast.Assign, ast.Delete)) else [x.target]
                    for t in tgts:
                        base = t
                        while isinstance(base, (ast.Subscript, ast.Attribute)):
                            base = base.value
                        if isinstance(t, (ast.Subscript, ast.Attribute)) and isinstance(base, ast.Name) and base.id not in locals_:
                            r = world.repo.resolve(mod, base.id)
                            if r is not None and (r.kind == "repo" or r.kind == "module"):
                                if isinstance(t, ast.Attribute) and r.kind == "repo" and r.okind in ("def",):
                                    continue  # f_wrapped.fun = ... on a local function handled by locals_
                                tgt, how = norm_text(t), "store into a module-level object"
                elif isinstance(x, ast.Call) and isinstance(x.func, ast.Attribute) and x.func.attr in MUTATORS:
                    base = x.func.value
                    root = base
                    while isinstance(root, (ast.Subscript, ast.Attribute)):
                        root = root.value
                    if isinstance(root, ast.Name) and root.id not in locals_:
                        r = world.repo.resolve(mod, root.id)
                        if r is not None and r.kind == "repo" and r.okind in ("assign", "class"):
                            tgt, how = norm_text(base), f".{x.func.attr}() on a module-level object"
                if tgt is None:
                    continue
                inst = f"{fq}:{tgt}"
                if fq in REG_WRITERS:
                    ctx.ob("A11.registries", inst, True, loc_of(mod, x), sample=REG_WRITERS[fq])
                    continue
                if fq.startswith("autograd.core.deprecated_") or fq.startswith("autograd.core.primitive_with_deprecation_warnings"):
                    ctx.ob("A11.registries", inst, True, loc_of(mod, x), nontrivial=False)
                    continue
                ctx.fail(
                    "A11.state",
                    inst,
                    f"{fq}|{how}|{tgt}",
                    loc_of(mod, x),
                    f"{fq} performs a {how}: `{norm_text(x)[:80]}` - process-global state written outside the registration API",
                    "two identical differentiation calls separated by any other autograd call: the second one observes state left by the history",
                )
            # mutable default arguments: the default object is created once, at definition time, and shared by every
            # call in every thread - a module-level container in disguise.  Reported when the body mutates it.
            a_ = fnode.args
            pos_ = a_.posonlyargs + a_.args
            dflt_ = list(zip(pos_[len(pos_) - len(a_.defaults):], a_.defaults)) + [(p_, d_) for p_, d_ in zip(a_.kwonlyargs, a_.kw_defaults) if d_ is not None]
            for p_, d_ in dflt_:
                mutable = isinstance(d_, (ast.List, ast.Dict, ast.Set, ast.ListComp, ast.DictComp, ast.SetComp)) or (isinstance(d_, ast.Call) and isinstance(d_.func, (ast.Name, ast.Attribute)) and (d_.func.id if isinstance(d_.func, ast.Name) else d_.func.attr) in ("list", "dict", "set", "defaultdict", "deque", "OrderedDict", "Counter", "bytearray"))
                if not mutable:
                    continue
                rebound = any(isinstance(x, (ast.Assign, ast.AugAssign, ast.AnnAssign)) and any(isinstance(t_, ast.Name) and t_.id == p_.arg for t_ in (x.targets if isinstance(x, ast.Assign) else [x.target])) for x in own)
                writes = [x for x in own if (isinstance(x, ast.Call) and isinstance(x.func, ast.Attribute) and x.func.attr in MUTATORS and isinstance(x.func.value, ast.Name) and x.func.value.id == p_.arg) or (isinstance(x, (ast.Assign, ast.AugAssign, ast.Delete)) and any(isinstance(t_, ast.Subscript) and isinstance(t_.value, ast.Name) and t_.value.id == p_.arg for t_ in (x.targets if isinstance(x, (ast.Assign, ast.Delete)) else [x.target])))]
                inst = f"{fq}:default {p_.arg}"
                if writes and not rebound:
                    ctx.fail("A11.state", inst, f"{fq}|mutable-default|{p_.arg}", loc_of(mod, writes[0]), f"{fq} mutates its mutable default argument `{p_.arg}={norm_text(d_)[:30]}` (`{norm_text(writes[0])[:60]}`): the default object is created once and shared by all calls and all threads", "two differentiations interleaved in two threads (or one that raised while the container was non-empty, then any other)")
                else:
                    ctx.ob("A11.state", inst, True, loc_of(mod, d_), nontrivial=False)
            # caches by decorator
            if isinstance(fnode, ast.FunctionDef):
                for d in fnode.decorator_list:
                    r = world.repo.resolve_expr(mod, d.func if isinstance(d, ast.Call) else d)
                    if r is not None and r.qual in ("functools.lru_cache", "functools.cache", "functools.cached_property"):
                        ctx.fail("A11.state", f"{fq}:cache", f"{fq}|cache-decorator", loc_of(mod, d), f"{fq} is memoised ({r.qual}): results depend on call history (and arrays/boxes are cached by identity)", "the same function differentiated twice with an exception in between")
    # state captured from an enclosing function scope and written by a nested function outlives the nested
    # function's call: a per-call function returned by a factory (nary_f of unary_to_nary, a vjp closure, ...) that
    # stores into / grows such a variable makes a later call (or a deferred evaluation) observe an earlier call
    n_cap = 0
    for mod in core_mods:
        for fq, fnode in mod.functions():
            outer = _enclosing_def(fnode)
            if outer is None:
                continue
            own_locals = _own_locals(fnode)
            body = [fnode.body] if isinstance(fnode, ast.Lambda) else fnode.body
            for st in body:
                for x in ast.walk(st):
                    if _enclosing_def(x) is not fnode:
                        continue
                    tgt = how = None
                    if isinstance(x, (ast.Assign, ast.AugAssign)):
                        for t in x.targets if isinstance(x, ast.Assign) else [x.target]:
                            b = t
                            while isinstance(b, (ast.Subscript, ast.Attribute)):
                                b = b.value
                            if isinstance(t, ast.Subscript) and isinstance(b, ast.Name) and b.id not in own_locals:
                                tgt, how = b.id, "item store"
                    elif isinstance(x, ast.Call) and isinstance(x.func, ast.Attribute) and x.func.attr in MUTATORS and isinstance(x.func.value, ast.Name) and x.func.value.id not in own_locals:
                        if not (x.func.attr == "add" and len(x.args) != 1):  # VSpace.add(a, b) is arithmetic, set.add(e) mutates
                            tgt, how = x.func.value.id, f".{x.func.attr}()"
                    elif isinstance(x, ast.Nonlocal):
                        tgt, how = x.names[0], "nonlocal rebinding"
                    if tgt is None:
                        continue
                    owner = outer
                    while owner is not None and tgt not in _own_locals(owner):
                        owner = _enclosing_def(owner)
                    if owner is None:
                        continue  # a module-level object: decided above
                    if not _escapes_upto(fnode, owner):
                        continue  # a local helper only called during the owner's own activation: per-call state
                    n_cap += 1
                    inst = f"{fq}:{tgt}"
                    if fq.startswith("autograd.core.deprecated_"):
                        ctx.ob("A11.registries", inst, True, loc_of(mod, x), nontrivial=False)
                        continue
                    ctx.fail(
                        "A11.state",
                        inst,
                        f"{fq}|captured-state|{tgt}",
                        loc_of(mod, x),
                        f"{fq} writes ({how}) into `{tgt}`, a variable of the enclosing function {getattr(owner, 'name', '<lambda>')}: the state is shared by every call of the returned function and survives between calls: `{norm_text(x)[:70]}`",
                        "two calls of the same derivative function with different arguments, the first result evaluated (or failing) after the second call",
                    )
    ctx.ob("A11.state", "no nested function writes state captured from its factory's scope", True, "autograd/*", nontrivial=True)
    ctx.ob("A11.state", "no global writer outside the registration API and the trace counter", True, "autograd/*", nontrivial=True)
    _external_state(ctx, world, core_mods)
    # singletons: module-level instances of repo classes whose methods store attributes
    n_single = 0
    for mod in core_mods:
        for name, bl in mod.top.items():
            b = bl[-1]
            if b[0] != "assign" or not isinstance(b[1], ast.Call):
                continue
            cref = world.repo.resolve_expr(mod, b[1].func)
            if cref is None or cref.kind != "repo" or cref.okind != "class":
                continue
            writes = []
            for st in cref.node.body:
                if isinstance(st, ast.FunctionDef) and st.name != "__init__":
                    selfn = st.args.args[0].arg if st.args.args else None
                    for x in ast.walk(st):
                        if isinstance(x, (ast.Assign, ast.AugAssign)):
                            for t in x.targets if isinstance(x, ast.Assign) else [x.target]:
                                if isinstance(t, ast.Attribute) and isinstance(t.value, ast.Name) and t.value.id == selfn:
                                    writes.append((st.name, t.attr, x))
            if not writes:
                continue
            n_single += 1
            inst = f"{mod.name}.{name}:{cref.qual}"
            allowed = cref.qual == "autograd.tracer.TraceStack" and all(a == "top" for _, a, _ in writes)
            if allowed:
                ctx.ob("A11.state", inst, True, loc_of(mod, b[2]), sample="the trace depth counter")
            else:
                ctx.fail("A11.state", inst, f"singleton:{mod.name}.{name}", loc_of(mod, b[2]), f"module-level instance {name} of {cref.qual} is mutated by its methods ({sorted({a for _, a, _ in writes})})", "call history")
            if thread:
                mro = [k.qual for k in class_mro(world.repo, cref)]
                slotted = _slots_of(world, cref)
                written = {a for _, a, _ in writes}
                if ("threading.local" in mro or "_thread._local" in mro) and (written & slotted):
                    ctx.fail(
                        "A11.thread",
                        inst,
                        f"thread-shared-slots:{mod.name}.{name}",
                        loc_of(mod, cref.node),
                        f"{cref.qual} derives from threading.local but declares __slots__ {sorted(written & slotted)}: slot attributes live in the (single, shared) object, not in the per-thread dictionary, so `{sorted(written & slotted)[0]}` is shared by all threads again",
                        "two threads with overlapping traces, one of them nested",
                    )
                elif "threading.local" in mro or "_thread._local" in mro:
                    ctx.ob("A11.thread", inst, True, loc_of(mod, cref.node), sample="derives from threading.local, no __slots__ on the written attributes")
                else:
                    ctx.fail(
                        "A11.thread",
                        inst,
                        f"thread-shared:{mod.name}.{name}",
                        loc_of(mod, cref.node),
                        f"{name} (written by {sorted({f for f, _, _ in writes})} on every differentiation) is one object shared by all threads: {cref.qual} does not derive from threading.local",
                        "two threads; thread A runs a nested differentiation; thread B's trace exits between A's outer entry and inner entry: A's inner trace gets the id of its outer trace",
                    )
    # the same state kept elsewhere: an instance of a class with mutating methods that is created inside a function and
    # escapes it (stored in a ContextVar / global / returned), or a module-level ContextVar
    def _mutating_methods(cnode):
        out = []
        for st in cnode.body:
            if isinstance(st, ast.FunctionDef) and st.name != "__init__":
                selfn = st.args.args[0].arg if st.args.args else None
                for x in ast.walk(st):
                    if isinstance(x, (ast.Assign, ast.AugAssign)):
                        for t in x.targets if isinstance(x, ast.Assign) else [x.target]:
                            if isinstance(t, ast.Attribute) and isinstance(t.value, ast.Name) and t.value.id == selfn:
                                out.append((st.name, t.attr))
        return out

    for mod in core_mods:
        ctxvars = set()
        for name, bl in mod.top.items():
            b = bl[-1]
            if b[0] == "assign" and isinstance(b[1], ast.Call):
                r_ = world.repo.resolve_expr(mod, b[1].func)
                if r_ is not None and r_.qual.endswith("ContextVar"):
                    ctxvars.add(name)
        for fq, fnode in mod.functions():
            if not isinstance(fnode, ast.FunctionDef):
                continue
            for x in ast.walk(fnode):
                if not (isinstance(x, ast.Assign) and len(x.targets) == 1 and isinstance(x.targets[0], ast.Name) and isinstance(x.value, ast.Call)):
                    continue
                cref = world.repo.resolve_expr(mod, x.value.func)
                if cref is None or cref.kind != "repo" or cref.okind != "class":
                    continue
                wr = _mutating_methods(cref.node)
                if not wr:
                    continue
                var = x.targets[0].id
                escapes = None
                for y in ast.walk(fnode):
                    if isinstance(y, ast.Return) and isinstance(y.value, ast.Name) and y.value.id == var:
                        escapes = escapes or "is returned to every caller"
                    if isinstance(y, ast.Call) and isinstance(y.func, ast.Attribute) and y.func.attr == "set" and isinstance(y.func.value, ast.Name) and y.func.value.id in ctxvars and any(isinstance(a_, ast.Name) and a_.id == var for a_ in y.args):
                        escapes = f"is stored in the ContextVar `{y.func.value.id}`"
                    if isinstance(y, ast.Global) and var in y.names:
                        escapes = "is bound to a module global"
                if escapes is None:
                    continue
                n_single += 1
                inst = f"{fq}:{cref.qual}"
                if thread:
                    mro = [k.qual for k in class_mro(world.repo, cref)]
                    if "threading.local" in mro or "_thread._local" in mro:
                        ctx.ob("A11.thread", inst, True, loc_of(mod, x), sample="derives from threading.local")
                    else:
                        ctx.fail("A11.thread", inst, f"thread-shared:{fq}:{cref.qual.rsplit('.', 1)[-1]}", loc_of(mod, x), f"the {cref.qual} created here {escapes}; its methods ({sorted({f for f, _ in wr})}) update it in place and the class does not derive from threading.local: a ContextVar (or global) holds ONE mutable object that every context copied from the creating one - copy_context().run, asyncio.to_thread, executor workers - shares", "two workers started with a copy of a context that has already differentiated; one of them nests: its inner trace gets the id of its own outer trace when the other worker's trace exits in between")
                else:
                    ctx.ob("A11.state", inst, True, loc_of(mod, x), nontrivial=False)
    ctx.floor("A11 module-level singletons with mutating methods", n_single, 1)


def _escapes_upto(fnode, owner):
    """does the nested function (or one of the functions between it and `owner`) outlive an activation of
    `owner`?  A def that is only ever *called* by name inside its parent does not; a lambda, a decorated def, or
    a def whose name is returned / passed on / stored does."""
    f = fnode
    while f is not None and f is not owner:
        parent = _enclosing_def(f)
        if parent is None:
            return True
        if isinstance(f, ast.Lambda) or f.decorator_list:
            return True
        for x in ast.walk(parent):
            if isinstance(x, ast.Name) and x.id == f.name and isinstance(x.ctx, ast.Load) and _enclosing_def(x) is not None:
                p_ = getattr(x, "_parent", None)
                if not (isinstance(p_, ast.Call) and p_.func is x):
                    return True
        f = parent
    return False


def _own_locals(fnode):
    """parameters and names bound by the function's own statements (not by nested functions)"""
    names = set()
    a = fnode.args
    for p_ in a.posonlyargs + a.args + a.kwonlyargs:
        names.add(p_.arg)
    if a.vararg:
        names.add(a.vararg.arg)
    if a.kwarg:
        names.add(a.kwarg.arg)
    body = [fnode.body] if isinstance(fnode, ast.Lambda) else fnode.body
    for st in body:
        for x in ast.walk(st):
            if _enclosing_def(x) is not fnode:
                continue
            if isinstance(x, ast.Name) and isinstance(x.ctx, ast.Store):
                names.add(x.id)
            elif isinstance(x, (ast.FunctionDef, ast.ClassDef)):
                names.add(x.name)
    for x in ast.walk(fnode):
        if isinstance(x, (ast.FunctionDef, ast.ClassDef)) and _enclosing_def(x) is fnode:
            names.add(x.name)
    return names


def _slots_of(world, cref):
    out = set()
    for k in class_mro(world.repo, cref):
        if k.kind != "repo":
            continue
        for st in k.node.body:
            if isinstance(st, ast.Assign) and any(isinstance(t, ast.Name) and t.id == "__slots__" for t in st.targets):
                try:
                    v = ast.literal_eval(st.value)
                    out |= set([v] if isinstance(v, str) else v)
                except Exception:
                    out.add("*")
    return out


def _locals_of(fnode):
    names = set()
    a = fnode.args
    for p in a.posonlyargs + a.args + a.kwonlyargs:
        names.add(p.arg)
    if a.vararg:
        names.add(a.vararg.arg)
    if a.kwarg:
        names.add(a.kwarg.arg)
    body = [fnode.body] if isinstance(fnode, ast.Lambda) else fnode.body
    for st in body:
        for x in ast.walk(st):
            if isinstance(x, ast.Name) and isinstance(x.ctx, ast.Store):
                names.add(x.id)
            elif isinstance(x, (ast.FunctionDef, ast.ClassDef)):
                names.add(x.name)
            elif isinstance(x, ast.arg):
                names.add(x.arg)
    # free variables of enclosing functions are locals of those (closure cells), not module globals
    p = getattr(fnode, "_parent", None)
    while p is not None:
        if isinstance(p, (ast.FunctionDef, ast.Lambda)):
            names |= _locals_of(p)
            break
        p = getattr(p, "_parent", None)
    return names
