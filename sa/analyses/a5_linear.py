"""A5.lin - linearity domain.  lattice  Z (independent of the variable / structure-only) < L (linear) <
A (affine) < N (non-linear or unknown use)."""
import ast

from .. import facts
from ..terms import Evaluator, Scope, T, const
from .common import base_name, callee_ref, construct_of, is_numpy_callable, linear_in, project, resolve_callee

ORDER = {"Z": 0, "L": 1, "A": 2, "N": 3}
STRUCT_ATTRS = {"shape", "ndim", "dtype", "size", "itemsize", "nbytes"}
LINEAR_ATTRS = {"T", "real", "imag", "mT"}
LINEAR_METHODS = {
    "reshape", "ravel", "flatten", "transpose", "swapaxes", "squeeze", "sum", "mean", "conj", "conjugate", "astype",
    "cumsum", "diagonal", "trace", "take", "repeat", "copy", "view", "__getitem__",
}
SEQ_LINEAR = {"concatenate", "stack", "hstack", "vstack", "row_stack", "column_stack", "dstack", "array", "asarray", "block"}
STRUCT_BUILTINS = {"len", "range", "isinstance", "type", "id", "hasattr", "callable", "slice", "str", "repr", "bool.__dummy__"}
PASS_BUILTINS = {"tuple", "list", "zip", "enumerate", "reversed", "iter", "sorted.__dummy__", "sum"}


def join(*xs):
    return max(xs, key=lambda x: ORDER[x]) if xs else "Z"


class Lin:
    named_params = frozenset()  # names the rule under analysis binds explicitly (set by the caller)

    def __init__(self, world, is_var):
        self.world, self.ev, self.is_var = world, world.ev, is_var
        self.memo = {}
        self.why = []  # explanations for N/A verdicts
        self.blamed = []  # normalised text of the blamed constructs
        self.loop_assume = {}
        self.zero_skips = []  # (condition, trace_aware) of accepted `skip a zero term` selections

    def _zero_skip(self, t):
        """(condition term, trace_aware) when t is `base + X if <some part c of the cotangent is non-zero> else base`
        with X linear in the cotangent; the non-zero test may be any(c) (possibly or-ed with isbox(c): trace-aware)"""
        from ..kfun import same
        from ..tutil import atom
        from .common import resolve_callee

        from ..tutil import pos_form

        a, pol = atom(pos_form(t.cond))
        parts = list(a.vals) if (a.op == "bool" and a.opname == "or") else [a]
        if not pol and len(parts) > 1:
            return None
        aware = False
        n_any = 0
        for p_ in parts:
            pa, pp = atom(p_)
            if pp is False and len(parts) > 1:
                return None
            if pa.op == "call" and pa.args:
                rf, pre = resolve_callee(self.ev, pa) if hasattr(self, "ev") else (None, None)
                q = pa.fn.ref.qual if pa.fn.op == "ref" else ""
                if q.endswith(".isbox") and self.of(pa.args[0]) != "Z":
                    aware = True
                    continue
                if (q.rsplit(".", 1)[-1] == "any" or (rf is not None and getattr(rf, "name", "") == "any")) and self.of(pa.args[0]) != "Z":
                    n_any += 1
                    continue
            return None
        if n_any == 0:
            return None
        with_term, without = (t.then, t.other) if pol else (t.other, t.then)
        if with_term.op != "bin" or with_term.opname != "Add":
            return None
        if with_term.l is without or same(with_term.l, without):
            x = with_term.r
        elif with_term.r is without or same(with_term.r, without):
            x = with_term.l
        else:
            return None
        if self.of(x) not in ("L", "Z"):
            return None
        return (t.cond, aware)

    def blame(self, t, msg):
        if len(self.why) < 6:
            self.why.append(f"{msg} at line {t.line}" if t.line else msg)
            if t.node is not None:
                from ..model import norm_text

                self.blamed.append(norm_text(t.node))

    def of(self, t):
        if t is None:
            return "Z"
        k = id(t)
        if k in self.memo:
            return self.memo[k][1]
        self.memo[k] = (t, "Z")  # cycle guard; the term is kept alive so that ids are never reused
        r = self._of(t)
        self.memo[k] = (t, r)
        return r

    def _of(self, t):
        o = t.op
        if self.is_var(t):
            return "L"
        if o in ("sym", "const", "ref", "rest", "kwrest", "closure", "fstr", "unknown", "slice"):
            if o == "slice":
                return "N" if join(self.of(t.lo), self.of(t.hi), self.of(t.step)) != "Z" else "Z"
            return "Z"
        if o == "arg":
            return "Z"
        if o == "bin":
            a, b = self.of(t.l), self.of(t.r)
            if a == "Z" and b == "Z":
                return "Z"
            op = t.opname
            if op in ("Add", "Sub"):
                if a != "Z" and b != "Z":
                    return join(a, b)
                if op == "Add" and (_is_seq(t.l) or _is_seq(t.r)):
                    return join(a, b)  # tuple / list concatenation
                other = t.r if b == "Z" else t.l
                # variable +/- something independent of it: affine unless that something is zero
                if zeroish(other):
                    return join(a, b)
                self.blame(t, f"affine use ({op} with a term independent of the (co)tangent)")
                return join(a, b, "A")
            if op in ("Mult", "MatMult"):
                if a != "Z" and b != "Z":
                    self.blame(t, "product of two terms that both depend on the (co)tangent")
                    return "N"
                return join(a, b)
            if op in ("Div", "FloorDiv"):
                if b != "Z":
                    self.blame(t, "division by a term that depends on the (co)tangent")
                    return "N"
                return a if op == "Div" else "N"
            if op == "Pow":
                if b == "Z" and t.r.op == "const" and t.r.value == 1:
                    return a
                self.blame(t, "power of a term that depends on the (co)tangent")
                return "N"
            self.blame(t, f"operator {op} on the (co)tangent")
            return "N"
        if o == "un":
            a = self.of(t.x)
            if a == "Z" or t.opname in ("USub", "UAdd"):
                return a
            self.blame(t, f"operator {t.opname} on the (co)tangent")
            return "N"
        if o == "cmp":
            if join(self.of(t.l), self.of(t.r)) != "Z":
                self.blame(t, "comparison of the (co)tangent's value")
                return "N"
            return "Z"
        if o == "bool":
            if join(*[self.of(v) for v in t.vals]) != "Z":
                self.blame(t, "truth value of the (co)tangent")
                return "N"
            return "Z"
        if o == "attr":
            if t.name in STRUCT_ATTRS:
                return "Z"
            a = self.of(t.obj)
            if a == "Z" or t.name in LINEAR_ATTRS:
                return a
            return a  # bound method object; decided at the call
        if o == "sub":
            if t.idx.op == "const" and isinstance(t.idx.value, int):
                pr = project(self.ev, t.obj, t.idx.value)
                if pr is not None:
                    return self.of(pr)
            if self.of(t.idx) != "Z":
                self.blame(t, "the (co)tangent used as an index")
                return "N"
            ob = t.obj
            if t.idx.op == "const" and type(t.idx.value) is int and ob.op == "iterelem" and ob.src.op == "call" and ob.src.fn.op == "ref" and not ob.src.kw and not ob.src.get("dstar") and not any(a.op == "star" for a in ob.src.args):
                # an element of zip(A, B, ..) / enumerate(A): component k is an element of the k-th iterable (an index)
                q = ob.src.fn.ref.qual
                k = t.idx.value
                if q == "builtins.zip" and 0 <= k < len(ob.src.args):
                    return self.of(ob.src.args[k])
                if q == "builtins.enumerate" and len(ob.src.args) == 1 and k in (0, 1):
                    return "Z" if k == 0 else self.of(ob.src.args[0])
            return self.of(t.obj)
        if o in ("tuple", "list", "set"):
            return join(*[self.of(e) for e in t.elts]) if t.elts else "Z"
        if o == "dict":
            return join(*[self.of(v) for _, v in t.items]) if t.items else "Z"
        if o == "star":
            return self.of(t.x)
        if o == "iterelem":
            return self.of(t.src)
        if o == "comp":
            if any(self.of(c) != "Z" for c in t.conds):
                self.blame(t, "filter on the (co)tangent's value")
                return "N"
            return self.of(t.elt)
        if o == "store":
            if self.of(t.idx) != "Z":
                return "N"
            return join(self.of(t.obj), self.of(t.val))
        if o == "grow":
            return join(self.of(t.obj), self.of(t.val))
        if o == "if":
            c = self.of(t.cond)
            if c != "Z":
                zs = self._zero_skip(t)
                if zs is not None:
                    # `if any(c): acc = acc + X(c)` with X linear in c: skipping a term that is exactly zero
                    # when c == 0 selects consistently with linearity
                    self.zero_skips.append(zs)
                    return join(self.of(t.then), self.of(t.other))
                self.blame(t.cond, "control flow on the (co)tangent's value")
                return "N"
            return join(self.of(t.then), self.of(t.other))
        if o == "seq":
            return self.of(t.value)
        if o in ("raise", "assert", "when"):
            return "Z"
        if o == "loopvar":
            return self.loop_assume.get(t.name, self.of(t.init) if t.init is not None else "Z")
        if o == "loop":
            cur = self.of(t.init)
            if t.get("it") is not None and self.of(t.it) != "Z":
                cur = join(cur, self.of(t.it))
            for _ in range(4):
                self.loop_assume[t.name] = cur
                # recompute next under the assumption
                self._forget(t.next)
                nxt = self.of(t.next)
                new = join(cur, nxt)
                if new == cur:
                    break
                cur = new
            self.loop_assume.pop(t.name, None)
            return cur
        if o == "partial":
            return join(*[self.of(a) for a in t.args]) if t.args else "Z"
        if o == "call":
            return self._call(t)
        return "N"

    def _forget(self, t, seen=None):
        from ..terms import children

        seen = seen if seen is not None else set()
        if t is None or id(t) in seen:
            return
        seen.add(id(t))
        self.memo.pop(id(t), None)
        for c in children(t):
            self._forget(c, seen)

    def _joint(self, bn, t, dep_pos, npre, args):
        js = facts.load("linear_in")["joint"].get(bn)
        if not isinstance(js, list):
            return None
        if not all((i + npre) in js for i in dep_pos):
            return None
        for j in js:
            k = j - npre
            if k in dep_pos:
                continue
            if k < 0 or k >= len(t.args) or not zeroish(t.args[k]):
                return None
        return join(*[args[i] for i in dep_pos])

    def _call(self, t):
        args = [self.of(a) for a in t.args]
        kws = {k: self.of(v) for k, v in t.kw.items()}
        dst = [self.of(v) for v in t.get("dstar", [])]
        dep_pos = [i for i, a in enumerate(args) if a != "Z"]
        dep_kw = [k for k, a in kws.items() if a != "Z"]
        fn = t.fn
        # method call on an object
        if fn.op == "attr" and fn.obj.op == "unknown" and str(fn.obj.reason).startswith("name:"):
            return "Z"  # undefined global: the path raises NameError (loud)
        if fn.op == "attr":
            objl = self.of(fn.obj)
            if objl == "Z" and not dep_pos and not dep_kw:
                return "Z"
            if objl != "Z" and not dep_pos and not dep_kw and fn.name in LINEAR_METHODS:
                return objl
            if objl == "Z" and fn.name in ("covector", "scalar_mul", "inner_prod", "add", "mut_add") and len(dep_pos) == 1:
                return args[dep_pos[0]]
            if objl == "Z" and fn.name in ("get", "index", "join", "format", "split"):
                return "N" if dep_pos else "Z"
            self.blame(t, f"method .{fn.name}() applied with the (co)tangent")
            return "N"
        if not dep_pos and not dep_kw and all(d == "Z" for d in dst) and self.of(fn) == "Z":
            # value independent of the variable unless the callee closes over it
            if fn.op in ("closure", "partial", "call", "if") or (fn.op == "ref" and fn.ref.kind in ("repo", "classattr") and not self.world.repo.is_primitive_ref(fn.ref) and not self.world.repo.is_notrace_ref(fn.ref)):
                r = self.ev.inline(t)
                if r is not None:
                    return self.of(r)
            return "Z"
        ref, pre = resolve_callee(self.ev, t)
        npre = len(pre)
        if ref is not None and self.world.repo.is_notrace_ref(ref):
            return "Z"
        if ref is not None:
            q = ref.qual
            if q in ("autograd.builtins.list", "autograd.builtins.tuple", "autograd.builtins.dict"):
                return join(*args) if args else "Z"
            if q == "functools.reduce" and 2 <= len(t.args) <= 3 and not t.kw and not t.get("dstar"):
                # reduce(F, S[, init]): the left fold acc = F(acc, e) over the elements of S, to a fixpoint of the
                # two-point domain (sum(S) written with operator.add)
                from ..terms import T

                F, S = t.args[0], t.args[1]
                el_v = self.of(S)
                acc_v = self.of(t.args[2]) if len(t.args) == 3 else el_v
                for it_ in range(4):
                    acc_s, el_s = T("sym", t.node, t.mod, name="acc", role="fold"), T("sym", t.node, t.mod, name="e", role="fold")
                    self.memo[id(acc_s)] = (acc_s, acc_v)
                    self.memo[id(el_s)] = (el_s, el_v)
                    # (first step on the initial value itself: adding to a literal zero is not an affine shift)
                    first = t.args[2] if (it_ == 0 and len(t.args) == 3) else acc_s
                    nxt = self.of(T("call", t.node, t.mod, fn=F, args=[first, el_s], kw={}, dstar=[]))
                    new = join(acc_v, nxt)
                    if new == acc_v:
                        break
                    acc_v = new
                return acc_v
            if q.startswith("builtins."):
                b = q[9:]
                if b in STRUCT_BUILTINS:
                    return "Z"
                if b in PASS_BUILTINS:
                    return join(*args) if args else "Z"
                if b == "map" and len(t.args) >= 2 and not t.kw and not t.get("dstar"):
                    # map(F, S, ..) is (F(e, ..) for e in S ..): decided as that call on the elements
                    from ..terms import T

                    el = [T("iterelem", t.node, t.mod, src=a) for a in t.args[1:]]
                    return self.of(T("call", t.node, t.mod, fn=t.args[0], args=el, kw={}, dstar=[]))
                if b in ("float", "int", "complex", "abs", "max", "min", "bool"):
                    self.blame(t, f"builtin {b}() of the (co)tangent")
                    return "N"
            if is_numpy_callable(ref):
                bn = base_name(ref)
                if dep_kw:
                    self.blame(t, f"(co)tangent passed as keyword {dep_kw} of numpy.{bn}")
                    return "N"
                if self.world.repo.classify_wrapped(*ref.qual.rsplit(".", 1)) == "notrace" or _struct_fn(bn):
                    return "Z"
                if bn in SEQ_LINEAR and dep_pos == [0]:
                    return args[0]
                if bn in ("zeros_like", "ones_like", "empty_like", "shape", "ndim", "size", "result_type", "iscomplexobj"):
                    return "Z"
                aff_opts = facts.load("linear_in").get("affine_options", {}).get(bn)
                if aff_opts and dep_pos == [0] and npre == 0:
                    # linear in argument 0 only while the listed options are absent or zero (diff: prepend / append)
                    sig_ = self.world.env.signature(ref.qual) or {"pos": []}
                    extra = [v for k, v in t.kw.items() if k in aff_opts]
                    extra += [a for i, a in enumerate(t.args) if i < len(sig_["pos"]) and sig_["pos"][i] in aff_opts]
                    # the rule's own *args / **kwargs cannot carry an option that the rule binds by NAME (it arrives in
                    # that parameter): forwarding them is then free of the option
                    named_all = all(o in self.named_params for o in aff_opts)
                    extra += [a for i, a in enumerate(t.args) if a.op == "star" and i >= 1 and not (named_all and a.x.op == "rest")]
                    def carried(d_, depth=0):
                        """the values a mapping term may hold under one of the additive option names ([d_] itself:
                        cannot tell)"""
                        while d_.op == "seq":
                            d_ = d_.value
                        if depth > 6:
                            return [d_]
                        if d_.op == "kwrest":
                            return [] if named_all else [d_]
                        if d_.op == "dict" and all(k_ is None or k_.op == "const" for k_, _ in d_.items):
                            # {"axis": a, "keepdims": k, **more}: a display says exactly which options it carries
                            out_ = []
                            for k_, v_ in d_.items:
                                out_ += carried(v_, depth + 1) if k_ is None else ([v_] if k_.value in aff_opts else [])
                            return out_
                        if d_.op == "call" and d_.fn.op == "ref" and d_.fn.ref.qual == "builtins.dict" and not any(a_.op == "star" for a_ in d_.args):
                            # dict(kwargs, axis=a, keepdims=k) / dict(axis=a) / dict(**more)
                            out_ = [v_ for k_, v_ in d_.kw.items() if k_ in aff_opts]
                            for a_ in list(d_.args) + list(d_.get("dstar") or []):
                                out_ += carried(a_, depth + 1)
                            return out_
                        if d_.op == "bin" and d_.opname == "BitOr":
                            return carried(d_.l, depth + 1) + carried(d_.r, depth + 1)  # kwargs | {...}
                        if d_.op == "if":
                            return carried(d_.then, depth + 1) + carried(d_.other, depth + 1)
                        return [d_]

                    for d_ in t.get("dstar", []):
                        extra += carried(d_)
                    if any(not zeroish(x_) for x_ in extra):
                        self.blame(t, f"numpy.{bn} with {' / '.join(aff_opts)} (or forwarded *args / **kwargs) adds values that do not come from the (co)tangent: affine")
                        return join(args[0], "A")
                    return args[0]
                if bn == "pad" and dep_pos == [0] and npre == 0:
                    if {"constant_values", "end_values"} & set(t.kw) or t.get("dstar"):
                        self.blame(t, "numpy.pad with constant_values/end_values (or forwarded **kwargs) is affine in the padded array")
                        return join(args[0], "A")
                    return args[0]
                if len(dep_pos) == 1:
                    i = dep_pos[0]
                    ok, why = linear_in(self.world, ref, i + npre)
                    if ok:
                        return args[i]
                jl = self._joint(bn, t, dep_pos, npre, args)
                if jl is not None:
                    return jl
                if len(dep_pos) == 1:
                    self.blame(t, f"numpy.{bn} is not linear in argument {dep_pos[0] + npre}")
                    return "N"
                ok, why = linear_in(self.world, ref, None)
                if ok and bn in SEQ_LINEAR:
                    return join(*[args[i] for i in dep_pos])
                self.blame(t, f"numpy.{bn} applied to several terms that depend on the (co)tangent")
                return "N"
        # repo helper: inline
        r = self.ev.inline(t)
        if r is not None:
            return self.of(r)
        if ref is not None and ref.kind in ("repo", "classattr"):
            if dep_kw:
                return "N"
            rj = facts.load("linear_in")["repo_joint"].get(ref.qual)
            if isinstance(rj, int) and all(i + npre >= rj for i in dep_pos):
                return join(*[args[i] for i in dep_pos])
            if len(dep_pos) == 1:
                ok, why = linear_in(self.world, ref, dep_pos[0] + npre)
                if ok:
                    return args[dep_pos[0]]
                if ref.qual in ("autograd.core.vspace", "autograd.extend.vspace"):
                    return "Z"
                self.blame(t, f"{ref.qual} is not known to be linear in argument {dep_pos[0] + npre}")
                return "N"
            if ref.qual in ("autograd.builtins.isinstance", "autograd.builtins.type"):
                return "Z"
            self.blame(t, f"{ref.qual} applied to several terms that depend on the (co)tangent")
            return "N"
        if fn.op in ("closure", "partial", "if", "call", "loopvar", "sym", "arg", "sub", "unknown", "iterelem", "attr", "ref"):
            # calling an unknown function value with the variable
            self.blame(t, "the (co)tangent passed to an unresolved callable")
            return "N"
        return "N"


def _is_seq(t):
    if t.op in ("tuple", "list", "rest"):
        return True
    if t.op == "sub" and t.idx.op == "slice" and _is_seq(t.obj):
        return True
    if t.op == "call" and t.fn.op == "ref" and t.fn.ref.qual in ("builtins.tuple", "builtins.list"):
        return True
    if t.op == "attr" and t.name == "shape":
        return True
    if t.op == "call" and t.fn.op == "ref" and t.fn.ref.qual.endswith(".shape"):
        return True
    if t.op == "bin" and t.opname == "Add":
        return _is_seq(t.l) or _is_seq(t.r)
    if t.op == "if":
        # head = (g,); if c: head = head + (w,)  - a sequence on every branch that is not a raise
        arms = [a for a in (t.then, t.other) if a.op != "raise"]
        return bool(arms) and all(_is_seq(a) for a in arms)
    if t.op == "seq":
        return _is_seq(t.value)
    if t.op in ("comp", "grow"):
        return t.op == "comp" or _is_seq(t.obj)
    if t.op == "loopvar":
        return t.get("init") is not None and _is_seq(t.init)
    if t.op == "loop":
        return t.get("init") is not None and _is_seq(t.init)
    return False


def zeroish(t, depth=0):
    if t is None or depth > 6:
        return False
    if _is_zero(t) or _is_zeros_call(t):
        return True
    if t.op == "loopvar":
        return t.init is not None and zeroish(t.init, depth + 1)
    if t.op == "if":
        return zeroish(t.then, depth + 1) and zeroish(t.other, depth + 1)
    if t.op == "bin" and t.opname == "Mult":
        return zeroish(t.l, depth + 1) or zeroish(t.r, depth + 1)
    if t.op in ("star", "dstar"):
        return zeroish(t.x, depth + 1)
    if t.op == "call" and t.fn.op == "ref" and not t.kw:
        q = t.fn.ref.qual
        if q in ("builtins.list", "builtins.tuple") and len(t.args) == 1:
            return zeroish(t.args[0], depth + 1)
        if q == "builtins.map" and len(t.args) >= 2 and t.args[0].op == "ref" and t.args[0].ref.qual.rsplit(".", 1)[-1] in ("zeros_like",):
            return True  # map(zeros_like, S): zero element by element
    if t.op == "comp":
        # [zeros_like(e) for e in ends] / {k: zeros_like(v) for ..}: zero element by element
        e = t.elt
        if t.get("kind") == "DictComp" and e.op == "tuple" and len(e.elts) == 2:
            e = e.elts[1]
        return zeroish(e, depth + 1)
    if t.op in ("tuple", "list") and t.elts:
        return all(zeroish(e, depth + 1) for e in t.elts)
    if t.op == "seq":
        return zeroish(t.value, depth + 1)
    return False


def _struct_fn(bn):
    return bn in ("shape", "ndim", "size", "result_type", "iscomplexobj", "isscalar", "isrealobj")


def _is_zero(t):
    return t.op == "const" and isinstance(t.value, (int, float, complex)) and t.value == 0


def _is_zeros_call(t):
    if t.op == "call":
        r = callee_ref(t)
        if r is not None and r.qual.rsplit(".", 1)[-1] in ("zeros", "zeros_like"):
            return True
    if t.op == "attr" and t.name == "zeros":
        return True
    if t.op == "call" and t.fn.op == "attr" and t.fn.name == "zeros":
        return True
    return False


def linearity_of_function(world, ref, argnum):
    """Body analysis for a repo-defined primitive: is it a composition of linear operations on parameter
    `argnum`?  Returns (bool, explanation)."""
    node = ref.node
    a = node.args
    params = [p.arg for p in a.posonlyargs + a.args]
    ev = world.ev
    nums = [argnum] if argnum is not None else list(range(len(params)))
    for k in nums:
        if k >= len(params):
            return False, f"no positional parameter {k}"
        sc = Scope()
        var = None
        for i, p in enumerate(params):
            s = T("sym", name=p, role="param")
            sc.vars[p] = s
            if i == k:
                var = s
        if a.vararg:
            sc.vars[a.vararg.arg] = T("rest", start=len(params))
        if a.kwarg:
            sc.vars[a.kwarg.arg] = T("kwrest")
        r = ev.run(node.body, sc, ref.mod)
        L = Lin(world, lambda t, var=var: t is var)
        v = L.of(r)
        if v not in ("Z", "L"):
            return False, f"body of {ref.qual} is not a composition of linear operations on '{params[k]}': " + "; ".join(L.why)
    return True, f"body of {ref.qual} is a composition of linear operations"


def closures_linear(ctx, world):
    """A5.lin: every backward-time closure (VJP) / tangent expression (JVP) is linear in g."""
    ctx.describe("A5.lin", "every VJP closure / JVP expression is a composition of linear operations on the (co)tangent g with coefficients independent of g (two-point domain, helpers inlined)")
    n = 0
    for e in world.table.entries:
        if e.spec != "maker" or not world.in_numpy_scope(e):
            continue
        ir = world.ir(e)
        if ir is None or not ir.ok:
            ctx.ob("A5.lin", construct_of(e), None, e.loc)
            continue
        n += 1
        if e.api in ("defjvp_argnums",):
            isg = lambda t: t.op == "sym" and t.get("role") in ("g", "gs")
        else:
            isg = lambda t: t.op == "sym" and t.get("role") == "g"
        L = Lin(world, isg)
        if ir.maker is not None and hasattr(ir.maker.fnode, "args"):
            ma_ = ir.maker.fnode.args
            L.named_params = frozenset(a_.arg for a_ in ma_.posonlyargs + ma_.args + ma_.kwonlyargs)
        v = L.of(ir.result)
        # A5.cut: a selection on the VALUE of the cotangent is evaluated on the raw value even when the cotangent is
        # traced (higher-order derivatives): the skipped term's dependence on the input is then cut out of the graph
        # unless the test also holds for every boxed cotangent (isbox(c) or any(c))
        for cond_, aware in L.zero_skips if getattr(ctx, "prop", None) == "C07" else []:
            from ..model import norm_text as _nt

            inst_ = construct_of(e) + "|" + (_nt(cond_.node) if cond_.node is not None else "?")
            if aware:
                ctx.ob("A5.cut", inst_, True, e.loc, sample="the zero-term shortcut is disabled for a traced (co)tangent")
            else:
                ctx.fail("A5.cut", inst_, inst_, e.loc, f"the rule skips a term when `{_nt(cond_.node) if cond_.node is not None else cond_}` is false; the test reads the raw value of the (co)tangent, so in a derivative of this derivative a traced (co)tangent whose value is zero at the evaluation point loses its dependence on the input", "reverse-over-reverse (Hessian) at a point where the cotangent reaching this rule is exactly zero but depends on the input, e.g. the Hessian of 0.5*(L(x) - t)**2 at a zero-residual point")
        if v in ("Z", "L"):
            ctx.ob("A5.lin", construct_of(e), True, e.loc, nontrivial=(v == "L"), sample=f"{v}")
        else:
            kind = "affine" if v == "A" else "non-linear"
            ctx.fail(
                "A5.lin",
                construct_of(e),
                construct_of(e) + "|" + (L.blamed[0] if L.blamed else "?"),
                e.loc,
                f"rule result is {kind} in the (co)tangent: " + "; ".join(L.why),
                "any point: rule(2g) != 2 rule(g), so <g, JVP v> != <VJP g, v> and scaling the cotangent changes the direction of the gradient",
            )
    ctx.floor("A5.lin closures analysed", n, 250)


SELF_META_FN = {"shape", "ndim", "size", "metadata", "vspace", "iscomplexobj", "isrealobj", "result_type", "len", "isinstance", "type", "isscalar", "dtype", "zeros_like", "ones_like", "empty_like", "can_cast", "min_scalar_type", "issubdtype"}


def linear_args_unread(ctx, world):
    """A5.selfread - where the forward-mode table declares a function LINEAR in an argument (def_linear / "same":
    the tangent is the function itself applied to the tangent), its derivative with respect to that argument does not
    depend on the argument.  The VJP rule of that argument may read the argument's metadata (shape, ndim, dtype,
    vspace, real/complex kind) but never its VALUE: a rule that multiplies the cotangent by the differentiated
    argument itself contradicts the linearity its twin relies on (for a bilinear function - multiply, dot, matmul,
    inner_prod, scalar_mul - it is the rule of the OTHER slot)."""
    from ..model import norm_text
    from ..terms import children
    from ..tutil import expand

    ctx.describe("A5.selfread", "the VJP rule of an argument in which the JVP table declares the function linear (def_linear / 'same') reads that argument only through metadata (shape / ndim / dtype / size / vspace / metadata / iscomplexobj / len / isinstance / type / *_like templates): its value never enters the returned cotangent")
    lin = {(e.prim_id, e.argnum) for e in world.table.entries if e.mode == "jvp" and e.spec in ("same", "linear")}
    lin_all = {e.prim_id for e in world.table.entries if e.mode == "jvp" and e.spec == "linear" and e.argnum is None}  # def_linear(f): every argument

    def is_meta(anc):
        if anc.op == "attr" and anc.name in STRUCT_ATTRS:
            return True
        if anc.op == "call":
            r, _ = resolve_callee(world.ev, anc)
            nm = r.qual.rsplit(".", 1)[-1] if r is not None else (anc.fn.name if anc.fn.op == "attr" else None)
            return nm in SELF_META_FN
        return False

    def occurrences(t, k, path, out, seen):
        if t.op == "arg" and t.get("index") == k:
            out.append(list(path))
            return
        if id(t) in seen and not path:
            return
        for c in children(t):
            path.append(t)
            occurrences(c, k, path, out, seen)
            path.pop()

    n = 0
    for e in world.table.entries:
        if e.mode != "vjp" or e.spec != "maker" or not isinstance(e.argnum, int) or ((e.prim_id, e.argnum) not in lin and e.prim_id not in lin_all) or not world.in_numpy_scope(e):
            continue
        ir = world.ir(e)
        if ir is None or not ir.ok or ir.result is None:
            ctx.ob("A5.selfread", construct_of(e), None, e.loc)
            continue
        n += 1
        t = expand(world.ev, ir.result, ("autograd.core.vspace",))
        occ = []
        occurrences(t, e.argnum, [], occ, set())
        def meta_only_comp(path):
            """the argument sits in the source of a comprehension / map whose element expression reads the element
            only through metadata:  tuple(map(metadata, (A, B)))"""
            for i, anc in enumerate(path[:-1]):
                if anc.op == "call" and anc.fn.op == "ref" and anc.fn.ref.qual == "builtins.map" and anc.args and anc.args[0].op == "ref" and anc.args[0].ref.qual.rsplit(".", 1)[-1] in SELF_META_FN:
                    return True
                if anc.op == "comp" and path[i + 1] is anc.src:
                    el_occ = []

                    def find(t, pth):
                        if t.op == "iterelem":
                            el_occ.append(list(pth))
                            return
                        for c in children(t):
                            pth.append(t)
                            find(c, pth)
                            pth.pop()

                    find(anc.elt, [])
                    if el_occ and all(any(is_meta(a) for a in p_) for p_ in el_occ):
                        return True
            return False

        bad = [p for p in occ if not any(is_meta(a) for a in p) and not meta_only_comp(p + [None])]
        if not bad:
            ctx.ob("A5.selfread", construct_of(e), True, e.loc, sample=f"{len(occ)} metadata read(s) of the argument, no value read")
            continue
        par = bad[0][-1] if bad[0] else t
        txt = (norm_text(par.node) if par.node is not None else str(par))[:70]
        ctx.fail("A5.selfread", construct_of(e), f"{construct_of(e)}|reads-own-argument", e.loc, f"the JVP table declares {e.prim_id} linear in argument {e.argnum}, yet the VJP rule of that argument uses the argument's own value (`{txt}`): the derivative of a linear map does not depend on the point - this is the rule of another slot (or not the adjoint of the declared tangent map)", "the two operands of the function different from each other (x != y): the cotangent is multiplied by the wrong operand")
    ctx.floor("A5.selfread rules analysed", n, 40)


def cotangent_selections(ctx, world):
    """A5.cut on its own (for C08): a rule that chooses its code path by the VALUE of the (co)tangent - `if not
    any(g): return zeros(..)` - evaluates that test on the raw value even when the (co)tangent is a box of an
    enclosing differentiation level.  A cotangent that is zero AT the evaluation point but depends on the outer
    variable is replaced by a constant: the outer level's dependence is dropped - perturbation confusion at the rule
    level.  Accepted only: the zero-term shortcut that is disabled for traced (co)tangents (isbox(c) or any(c))."""
    from ..model import norm_text as _nt

    ctx.describe("A5.cut", "no VJP / JVP rule selects its result by the raw value of the (co)tangent (`if any(g)`, `if g == 0` ...) unless the selection is the zero-term shortcut disabled for traced (co)tangents: in a nested differentiation the (co)tangent is a box of the enclosing level whose value may be zero while its derivative is not")
    n = 0
    for e in world.table.entries:
        if e.spec != "maker" or not world.in_numpy_scope(e):
            continue
        ir = world.ir(e)
        if ir is None or not ir.ok:
            continue
        n += 1
        if e.api in ("defjvp_argnums",):
            isg = lambda t: t.op == "sym" and t.get("role") in ("g", "gs")
        else:
            isg = lambda t: t.op == "sym" and t.get("role") == "g"
        L = Lin(world, isg)
        if ir.maker is not None and hasattr(ir.maker.fnode, "args"):
            ma_ = ir.maker.fnode.args
            L.named_params = frozenset(a_.arg for a_ in ma_.posonlyargs + ma_.args + ma_.kwonlyargs)
        L.of(ir.result)
        bad = False
        for cond_, aware in L.zero_skips:
            inst_ = construct_of(e) + "|" + (_nt(cond_.node) if cond_.node is not None else "?")
            if aware:
                ctx.ob("A5.cut", inst_, True, e.loc, sample="the zero-term shortcut is disabled for a traced (co)tangent")
            else:
                bad = True
                ctx.fail("A5.cut", inst_, inst_, e.loc, f"the rule skips a term when `{_nt(cond_.node) if cond_.node is not None else cond_}` is false; the test reads the raw value of the (co)tangent, which in a nested differentiation is a box of the enclosing level", "reverse-over-reverse at a point where the cotangent reaching this rule is exactly zero but depends on the outer variable (the Hessian of 0.5 x.(A x) at x = 0)")
        sel = [w_ for w_ in L.why if w_.startswith("control flow on the (co)tangent's value")]
        if sel:
            bad = True
            inst_ = construct_of(e) + "|" + (L.blamed[0] if L.blamed else "?")
            ctx.fail("A5.cut", inst_, inst_, e.loc, f"the rule chooses its code path by the value of the (co)tangent ({sel[0]}): the test is evaluated on the raw value even when the (co)tangent is traced at an enclosing level, whose dependence is then dropped", "reverse-over-reverse / forward-over-reverse at a point where the cotangent reaching this rule is exactly zero but depends on the outer variable (the Hessian of 0.5 x.(A x) at x = 0)")
        if not bad:
            ctx.ob("A5.cut", construct_of(e), True, e.loc, nontrivial=False)
    ctx.floor("A5.cut closures analysed", n, 250)
