"""FE4 - rule IR.  A small partial evaluator that turns a rule maker (lambda / def / partial / factory
call) into a *term*: an expression DAG whose leaves are roles (g, ans, primitive argument i, option
parameter) and whose calls carry resolved callees.  Helper functions defined in the repo are inlined on
demand (bounded depth).  Terms are only ever *folded* by abstract domains (shape support, kind, taint,
linearity ...); nothing is executed and no solver is involved.
"""
import ast

from .model import norm_text

MAX_DEPTH = 6
_SYNTH_CACHE = {}
_OPERATOR_LAMBDAS = {
    "neg": "lambda _a: -_a",
    "pos": "lambda _a: +_a",
    "not_": "lambda _a: not _a",
    "add": "lambda _a, _b: _a + _b",
    "sub": "lambda _a, _b: _a - _b",
    "mul": "lambda _a, _b: _a * _b",
    "truediv": "lambda _a, _b: _a / _b",
    "floordiv": "lambda _a, _b: _a // _b",
    "mod": "lambda _a, _b: _a % _b",
    "pow": "lambda _a, _b: _a ** _b",
    "matmul": "lambda _a, _b: _a @ _b",
    "getitem": "lambda _a, _b: _a[_b]",
    "eq": "lambda _a, _b: _a == _b",
    "ne": "lambda _a, _b: _a != _b",
    "lt": "lambda _a, _b: _a < _b",
    "le": "lambda _a, _b: _a <= _b",
    "gt": "lambda _a, _b: _a > _b",
    "ge": "lambda _a, _b: _a >= _b",
    "is_": "lambda _a, _b: _a is _b",
    "is_not": "lambda _a, _b: _a is not _b",
    "contains": "lambda _a, _b: _b in _a",
    "truth": "lambda _a: bool(_a)",
}


class T:
    __slots__ = ("op", "f", "node", "mod")

    def __init__(self, op, node=None, mod=None, **f):
        self.op, self.f, self.node, self.mod = op, f, node, mod

    def __getattr__(self, k):
        try:
            return self.f[k]
        except KeyError:
            raise AttributeError(k)

    def get(self, k, d=None):
        return self.f.get(k, d)

    def __repr__(self):
        return show(self)

    @property
    def line(self):
        return getattr(self.node, "lineno", None)


def show(t, depth=0):
    if t is None:
        return "None"
    if depth > 8:
        return "..."
    d = depth + 1
    o = t.op
    if o == "sym":
        return t.name
    if o == "arg":
        return f"arg{t.index}:{t.name}"
    if o == "rest":
        return f"rest[{t.start}:]"
    if o == "kwrest":
        return "kwrest"
    if o == "const":
        return repr(t.value)
    if o == "ref":
        return t.ref.qual
    if o == "call":
        a = [show(x, d) for x in t.args] + [f"{k}={show(v, d)}" for k, v in t.kw.items()]
        return f"{show(t.fn, d)}({', '.join(a)})"
    if o == "bin":
        return f"({show(t.l, d)} {t.opname} {show(t.r, d)})"
    if o == "un":
        return f"({t.opname} {show(t.x, d)})"
    if o == "cmp":
        return f"({show(t.l, d)} {t.opname} {show(t.r, d)})"
    if o == "bool":
        return "(" + f" {t.opname} ".join(show(x, d) for x in t.vals) + ")"
    if o == "attr":
        return f"{show(t.obj, d)}.{t.name}"
    if o == "sub":
        return f"{show(t.obj, d)}[{show(t.idx, d)}]"
    if o == "slice":
        return f"{show(t.lo, d)}:{show(t.hi, d)}:{show(t.step, d)}"
    if o in ("tuple", "list", "set"):
        return o + "(" + ", ".join(show(x, d) for x in t.elts) + ")"
    if o == "dict":
        return "{" + ", ".join(f"{show(k, d)}: {show(v, d)}" for k, v in t.items) + "}"
    if o == "closure":
        return f"<closure {getattr(t.fnode, 'name', 'lambda')}@{getattr(t.fnode, 'lineno', '?')}>"
    if o == "partial":
        return f"partial({show(t.fn, d)}, {', '.join(show(x, d) for x in t.args)})"
    if o == "if":
        return f"if({show(t.cond, d)} ? {show(t.then, d)} : {show(t.other, d)})"
    if o == "loop":
        return f"loop({show(t.init, d)} -> {show(t.next, d)})"
    if o == "loopvar":
        return f"~{t.name}"
    if o == "iterelem":
        return f"elem({show(t.src, d)})"
    if o == "star":
        return f"*{show(t.x, d)}"
    if o == "dstar":
        return f"**{show(t.x, d)}"
    if o == "yield":
        return f"yield({show(t.x, d)})"
    if o == "setattr":
        return f"setattr({show(t.store, d)})"
    if o == "raise":
        return f"raise({show(t.exc, d)})"
    if o == "store":
        return f"store({show(t.obj, d)}[{show(t.idx, d)}]={show(t.val, d)})"
    if o == "comp":
        return f"comp({show(t.elt, d)} for {show(t.src, d)})"
    if o == "grow":
        return f"{show(t.obj, d)}.{t.how}({show(t.val, d)})"
    if o == "unknown":
        return f"?{t.reason}"
    if o == "ifexp":
        return f"({show(t.then, d)} if {show(t.cond, d)} else {show(t.other, d)})"
    if o == "fstr":
        return "fstr"
    if o == "seq":
        return f"seq[{'; '.join(show(e, d) for e in t.effects)}]({show(t.value, d)})"
    if o == "assert":
        return f"assert({show(t.cond, d)})"
    if o == "when":
        return f"when({'' if t.pol else 'not '}{show(t.cond, d)}: {show(t.eff, d)})"
    return f"<{o}>"


def const(v, node=None):
    return T("const", node, value=v)


def unknown(reason, node=None):
    return T("unknown", node, reason=reason)


class Scope:
    """Mutable variable environment with a parent chain (closures capture the scope object)."""

    def __init__(self, parent=None):
        self.vars = {}
        self.parent = parent
        self.effects = []

    def lookup(self, name):
        s = self
        while s is not None:
            if name in s.vars:
                return s.vars[name]
            s = s.parent
        return None

    def fork(self):
        c = Scope(self.parent)
        c.vars = dict(self.vars)
        c.effects = list(self.effects)
        return c


def _has_exit(stmts):
    for st in stmts:
        if isinstance(st, (ast.FunctionDef, ast.AsyncFunctionDef, ast.ClassDef)):
            continue  # returns inside a nested definition do not leave the enclosing block
        for n in ast.walk(st):
            if isinstance(n, (ast.FunctionDef, ast.Lambda)) and n is not st:
                continue
            if isinstance(n, (ast.Return, ast.Raise)):
                # ignore returns that belong to nested defs
                p = n
                nested = False
                while p is not st and hasattr(p, "_parent"):
                    p = p._parent
                    if isinstance(p, (ast.FunctionDef, ast.Lambda)) and p is not st:
                        nested = True
                        break
                if not nested:
                    return True
    return False


def _pure_constant_expr(n, repo, mod, depth=0):
    if depth > 6:
        return False
    if isinstance(n, ast.Constant):
        return isinstance(n.value, (int, float, complex, str, bool, type(None)))
    if isinstance(n, ast.UnaryOp) and isinstance(n.op, (ast.USub, ast.UAdd)):
        return _pure_constant_expr(n.operand, repo, mod, depth + 1)
    if isinstance(n, ast.BinOp) and isinstance(n.op, (ast.Add, ast.Sub, ast.Mult, ast.Div, ast.Pow, ast.FloorDiv, ast.Mod)):
        return _pure_constant_expr(n.left, repo, mod, depth + 1) and _pure_constant_expr(n.right, repo, mod, depth + 1)
    if isinstance(n, ast.Tuple):
        return all(_pure_constant_expr(e, repo, mod, depth + 1) for e in n.elts)
    if isinstance(n, ast.Attribute):
        r = repo.resolve_expr(mod, n)
        return r is not None and r.kind in ("ext", "wrapped") and r.qual.rsplit(".", 1)[-1] in ("pi", "e", "inf", "nan", "euler_gamma")
    if isinstance(n, ast.Call) and not n.keywords and n.args and isinstance(n.func, (ast.Name, ast.Attribute)):
        r = repo.resolve_expr(mod, n.func)
        if r is not None and (r.kind == "wrapped" or (r.kind == "ext" and r.qual.startswith(("numpy.", "math.")))):
            return all(_pure_constant_expr(a, repo, mod, depth + 1) for a in n.args)
    return False


def _is_generator(fnode):
    for x in ast.walk(fnode):
        if isinstance(x, (ast.Yield, ast.YieldFrom)):
            p = getattr(x, "_parent", None)
            while p is not None and not isinstance(p, (ast.FunctionDef, ast.Lambda)):
                p = getattr(p, "_parent", None)
            if p is fnode:
                return True
    return False


def _yields_in(stmts):
    for st in stmts:
        for x in ast.walk(st):
            if isinstance(x, ast.Yield):
                return True
    return False


def _mutated_local(n):
    """name of the local container grown by an expression statement `xs.append(e)` (see Evaluator._local_mutation)"""
    if isinstance(n, ast.Call) and isinstance(n.func, ast.Attribute) and isinstance(n.func.value, ast.Name):
        if n.func.attr in ("append", "extend", "add", "update") and len(n.args) == 1 and not n.keywords:
            return n.func.value.id
    return None


def _mutated_params(fnode, params):
    """parameters of fnode that its own body stores into (p[k] = v, p[k] += v) or grows (p.append(v) ...)"""
    out = set()
    for st in ast.walk(fnode):
        if isinstance(st, (ast.FunctionDef, ast.Lambda)) and st is not fnode:
            continue
        tgts = []
        if isinstance(st, ast.Assign):
            tgts = st.targets
        elif isinstance(st, ast.AugAssign):
            tgts = [st.target]
        for t in tgts:
            if isinstance(t, ast.Subscript) and isinstance(t.value, ast.Name) and t.value.id in params:
                out.add(t.value.id)
        if isinstance(st, ast.Expr) and _mutated_local(st.value) in params:
            out.add(_mutated_local(st.value))
    return out


def _only_mutated(stmts, names):
    """names that are grown by method calls but never assigned in stmts"""
    assigned = set()
    for st in stmts:
        for n in ast.walk(st):
            if isinstance(n, ast.Name) and isinstance(n.ctx, ast.Store):
                assigned.add(n.id)
            elif isinstance(n, (ast.FunctionDef, ast.ClassDef)):
                assigned.add(n.name)
            elif isinstance(n, (ast.Subscript, ast.Attribute)) and isinstance(n.ctx, ast.Store):
                b = n
                while isinstance(b, (ast.Subscript, ast.Attribute)):
                    b = b.value
                if isinstance(b, ast.Name):
                    assigned.add(b.id)
    return {nm for nm in names if nm not in assigned}


def _assigned_names(stmts):
    out = []

    def tgt(t):
        if isinstance(t, ast.Name):
            if t.id not in out:
                out.append(t.id)
        elif isinstance(t, (ast.Tuple, ast.List)):
            for e in t.elts:
                tgt(e)
        elif isinstance(t, ast.Starred):
            tgt(t.value)
        elif isinstance(t, (ast.Subscript, ast.Attribute)):
            b = t
            while isinstance(b, (ast.Subscript, ast.Attribute)):
                b = b.value
            if isinstance(b, ast.Name) and b.id not in out:
                out.append(b.id)

    def walk(sts):
        for st in sts:
            if isinstance(st, (ast.FunctionDef, ast.ClassDef)):
                if st.name not in out:
                    out.append(st.name)
                continue
            if isinstance(st, ast.Assign):
                for t in st.targets:
                    tgt(t)
            elif isinstance(st, (ast.AugAssign, ast.AnnAssign)):
                tgt(st.target)
            elif isinstance(st, ast.Expr) and _mutated_local(st.value) is not None:
                if _mutated_local(st.value) not in out:
                    out.append(_mutated_local(st.value))
            elif isinstance(st, (ast.For,)):
                tgt(st.target)
                walk(st.body)
                walk(st.orelse)
            elif isinstance(st, (ast.While, ast.If)):
                walk(st.body)
                walk(st.orelse)
            elif isinstance(st, ast.With):
                walk(st.body)
            elif isinstance(st, ast.Try):
                walk(st.body)
                for h in st.handlers:
                    walk(h.body)
                walk(st.orelse)
                walk(st.finalbody)

    walk(stmts)
    return out


class Evaluator:
    def __init__(self, repo, max_depth=MAX_DEPTH):
        self.repo = repo
        self.max_depth = max_depth
        self.effects = []  # (kind, term) side effects seen while evaluating (guards, expression statements)
        self._inline_cache = {}
        self._last_scope = None
        self._const_cache = {}
        self.loops = []  # every loop-carried term created, in creation order (rules look a variable's loop up by (stmt, name))
        self._ctx = (0, ())  # (inlining depth, stack of function nodes being inlined) of the code being evaluated

    # ------------------------------------------------------------------ expressions
    def ev(self, n, sc, mod):
        m = getattr(self, "e_" + type(n).__name__, None)
        if m is None:
            return unknown("expr:" + type(n).__name__, n)
        t = m(n, sc, mod)
        if t.node is None:
            t.node = n
        if t.mod is None:
            t.mod = mod
        return t

    def e_Constant(self, n, sc, mod):
        return const(n.value, n)

    def e_Name(self, n, sc, mod):
        v = sc.lookup(n.id)
        if v is not None:
            return v
        r = self.repo.resolve(mod, n.id)
        if r is None:
            return unknown(f"name:{n.id}", n)
        c = self._module_constant(r)
        if c is not None:
            return c
        return T("ref", n, mod, ref=r)

    def _module_constant(self, r):
        """the value term of a module-level NAME = <pure constant expression> (numbers, strings, tuples of those,
        arithmetic on them, a NumPy function applied to them): a hoisted literal reads like the literal"""
        if getattr(r, "kind", None) != "repo" or getattr(r, "okind", None) != "assign" or not isinstance(r.node, ast.AST):
            return None
        key = id(r.node)
        hit = self._const_cache.get(key)
        if hit is not None:
            return hit[1]
        out = None
        if _pure_constant_expr(r.node, self.repo, r.mod):
            # a module-level name rebound later (x = 1; x = 2) is not a constant
            if len(r.mod.top.get(r.name, [])) == 1:
                out = self.ev(r.node, Scope(), r.mod)
        self._const_cache[key] = (r.node, out)
        return out

    def e_Attribute(self, n, sc, mod):
        # an attribute of a local object that was stored earlier on this path (self.top += 1; yield self.top)
        if isinstance(n.value, ast.Name) and sc.lookup(n.value.id) is not None:
            cur = sc.lookup(f"{n.value.id}.{n.attr}")
            if cur is not None:
                return cur
            # a bound method of a local container taken as a value (get = table.get; push = stack.append): it acts on
            # the object, i.e. on whatever state the container has when the alias is finally called
            if n.attr in _CONTAINER_METHODS:
                par = getattr(n, "_parent", None)
                if not (isinstance(par, ast.Call) and par.func is n):
                    cv = sc.lookup(n.value.id)
                    if cv.op in ("dict", "list", "set", "grow", "store", "loopvar", "comp") or (cv.op == "call" and cv.fn.op == "ref" and cv.fn.ref.qual in ("builtins.dict", "builtins.list", "builtins.set", "collections.defaultdict", "collections.OrderedDict", "collections.deque")):
                        return T("methodalias", n, mod, var=n.value.id, attr=n.attr, obj=cv)
        # a dotted global (anp.sum, onp.linalg.norm, builtins.type ...)?
        base = n
        while isinstance(base, ast.Attribute):
            base = base.value
        if isinstance(base, ast.Name) and sc.lookup(base.id) is None:
            r = self.repo.resolve_expr(mod, n)
            if r is not None:
                c = self._module_constant(r)
                if c is not None:
                    return c
                return T("ref", n, mod, ref=r)
            rb = self.repo.resolve_expr(mod, n.value)
            if rb is not None and rb.kind == "module":
                return unknown(f"attr:{norm_text(n)}", n)
        return T("attr", n, mod, obj=self.ev(n.value, sc, mod), name=n.attr)

    def e_BinOp(self, n, sc, mod):
        l, r = self.ev(n.left, sc, mod), self.ev(n.right, sc, mod)
        # integer arithmetic on bound constants (argnum - 1 with argnum bound by partial) folds
        if l.op == "const" and r.op == "const" and type(l.value) is int and type(r.value) is int:
            try:
                v = {"Add": lambda a, b: a + b, "Sub": lambda a, b: a - b, "Mult": lambda a, b: a * b, "FloorDiv": lambda a, b: a // b, "Mod": lambda a, b: a % b}.get(type(n.op).__name__)
                if v is not None:
                    return const(v(l.value, r.value), n)
            except ZeroDivisionError:
                pass
        return T("bin", n, mod, opname=type(n.op).__name__, l=l, r=r)

    def e_UnaryOp(self, n, sc, mod):
        x = self.ev(n.operand, sc, mod)
        if isinstance(n.op, ast.USub) and x.op == "const" and isinstance(x.value, (int, float, complex)):
            return const(-x.value, n)
        return T("un", n, mod, opname=type(n.op).__name__, x=x)

    def e_BoolOp(self, n, sc, mod):
        return T("bool", n, mod, opname=type(n.op).__name__.lower(), vals=[self.ev(v, sc, mod) for v in n.values])

    def e_Compare(self, n, sc, mod):
        l = self.ev(n.left, sc, mod)
        if len(n.ops) == 1:
            return T("cmp", n, mod, opname=type(n.ops[0]).__name__, l=l, r=self.ev(n.comparators[0], sc, mod))
        vals = []
        cur = l
        for op, c in zip(n.ops, n.comparators):
            r = self.ev(c, sc, mod)
            vals.append(T("cmp", n, mod, opname=type(op).__name__, l=cur, r=r))
            cur = r
        return T("bool", n, mod, opname="and", vals=vals)

    def e_IfExp(self, n, sc, mod):
        c = self.ev(n.test, sc, mod)
        k = self.static_truth(c)
        if k is True:
            return self.ev(n.body, sc, mod)
        if k is False:
            return self.ev(n.orelse, sc, mod)
        return T("if", n, mod, cond=c, then=self.ev(n.body, sc, mod), other=self.ev(n.orelse, sc, mod), expr=True)

    def e_Tuple(self, n, sc, mod):
        return T("tuple", n, mod, elts=[self.ev(e, sc, mod) for e in n.elts])

    def e_List(self, n, sc, mod):
        return T("list", n, mod, elts=[self.ev(e, sc, mod) for e in n.elts])

    def e_Set(self, n, sc, mod):
        return T("set", n, mod, elts=[self.ev(e, sc, mod) for e in n.elts])

    def e_Dict(self, n, sc, mod):
        items = []
        for k, v in zip(n.keys, n.values):
            items.append((self.ev(k, sc, mod) if k is not None else const(None), self.ev(v, sc, mod)))
        return T("dict", n, mod, items=items)

    def e_Starred(self, n, sc, mod):
        return T("star", n, mod, x=self.ev(n.value, sc, mod))

    def e_Slice(self, n, sc, mod):
        f = lambda x: self.ev(x, sc, mod) if x is not None else const(None)
        return T("slice", n, mod, lo=f(n.lower), hi=f(n.upper), step=f(n.step))

    def e_Subscript(self, n, sc, mod):
        obj = None
        if isinstance(n.value, ast.Name) and sc.lookup(n.value.id) is None:
            obj = self._module_table(n.value, mod)
        if obj is None:
            obj = self.ev(n.value, sc, mod)
        idx = self.ev(n.slice, sc, mod)
        return self.subscript(obj, idx, n, mod)

    def _module_table(self, name_node, mod):
        """the dict term of a module-level NAME = {<constant key>: value, ...} that is bound once and never written to
        in its module: a look-up in such a dispatch table reads like the selected entry"""
        r = self.repo.resolve(mod, name_node.id)
        if getattr(r, "kind", None) != "repo" or getattr(r, "okind", None) != "assign" or not isinstance(r.node, ast.Dict):
            return None
        key = ("table", id(r.node))
        hit = self._const_cache.get(key)
        if hit is not None:
            return hit[1]
        out = None
        d = r.node
        if d.keys and all(isinstance(k, ast.Constant) for k in d.keys) and len(r.mod.top.get(r.name, [])) == 1:
            written = False
            for x in ast.walk(r.mod.tree):
                if isinstance(x, ast.Subscript) and isinstance(x.ctx, (ast.Store, ast.Del)) and isinstance(x.value, ast.Name) and x.value.id == r.name:
                    written = True
                elif isinstance(x, ast.Attribute) and isinstance(x.value, ast.Name) and x.value.id == r.name and x.attr in ("update", "pop", "popitem", "setdefault", "clear", "__setitem__", "__delitem__"):
                    written = True
                elif isinstance(x, ast.Global) and r.name in x.names:
                    written = True
            if not written:
                out = self.ev(d, Scope(), r.mod)
        self._const_cache[key] = (r.node, out)
        return out

    def subscript(self, obj, idx, n, mod):
        # globals()["name"] with a constant name is the module-level name itself
        if obj.op == "call" and obj.fn.op == "ref" and obj.fn.ref.qual == "builtins.globals" and not obj.args and not obj.kw and idx.op == "const" and isinstance(idx.value, str) and idx.value.isidentifier():
            gm = obj.mod or mod
            r_ = self.repo.resolve(gm, idx.value) if gm is not None else None
            if r_ is not None:
                return T("ref", n, gm, ref=r_)
        # positions counted from the end written with len(): xs[len(xs) - 1] is xs[-1], xs[:len(xs) - 1] is xs[:-1]
        def from_end(i):
            if i.op == "bin" and i.opname == "Sub" and i.r.op == "const" and type(i.r.value) is int and i.r.value > 0:
                l = i.l
                if l.op == "call" and l.fn.op == "ref" and l.fn.ref.qual == "builtins.len" and len(l.args) == 1 and not l.kw and l.args[0] is obj:
                    return const(-i.r.value, i.node)
            return i

        if idx.op == "slice":
            lo, hi = from_end(idx.lo), from_end(idx.hi)
            if lo is not idx.lo or hi is not idx.hi:
                idx = T("slice", idx.node, idx.mod, lo=lo, hi=hi, step=idx.step)
        else:
            idx = from_end(idx)
        # indexing the positional-argument tuple of the primitive
        if obj.op == "rest":
            if idx.op == "const" and isinstance(idx.value, int) and idx.value >= 0:
                return T("arg", n, mod, index=obj.start + idx.value, name=None, default=None, via="rest")
            if idx.op == "slice" and idx.lo.op == "const" and idx.hi.op == "const" and idx.hi.value is None:
                if isinstance(idx.lo.value, int) and idx.lo.value >= 0 and idx.step.op == "const" and idx.step.value is None:
                    return T("rest", n, mod, start=obj.start + idx.lo.value)
        if obj.op in ("tuple", "list") and idx.op == "const" and isinstance(idx.value, int):
            if not any(e.op == "star" for e in obj.elts) and -len(obj.elts) <= idx.value < len(obj.elts):
                return obj.elts[idx.value]
        if obj.op == "if" and idx.op == "const" and type(idx.value) is int and obj.then.op in ("tuple", "list") and obj.other.op in ("tuple", "list"):
            # (T1 if c else T2)[i] with both arms displays: the component is chosen by the same condition
            a_, b_ = self.subscript(obj.then, idx, n, mod), self.subscript(obj.other, idx, n, mod)
            if a_.op != "sub" and b_.op != "sub":
                return T("if", n, mod, cond=obj.cond, then=a_, other=b_)
        if obj.op in ("tuple", "list") and len(obj.elts) == 2 and not any(e.op == "star" for e in obj.elts) and _is_truth_valued(idx):
            # (a, b)[<bool>] with a truth-valued index (isinstance / comparison / not ..) is `b if <bool> else a`
            return T("if", n, mod, cond=idx, then=obj.elts[1], other=obj.elts[0])
        if obj.op == "dict" and not obj.get("dstar") and obj.items and all(k is not None and k.op == "const" for k, _ in obj.items):
            keys = [k.value for k, _ in obj.items]
            if idx.op == "const":
                hits = [v for k, v in obj.items if type(k.value) is type(idx.value) and k.value == idx.value]
                if len(hits) == 1:
                    return hits[0]
            elif len(keys) == 2 and all(type(k) is bool for k in keys) and set(keys) == {True, False}:
                # a two-entry table keyed by a truth value is a conditional expression
                by = {k.value: v for k, v in obj.items}
                return T("if", n, mod, cond=idx, then=by[True], other=by[False])
        return T("sub", n, mod, obj=obj, idx=idx)

    def e_Lambda(self, n, sc, mod):
        return T("closure", n, mod, fnode=n, scope=sc, bound=[], boundkw={})

    def e_JoinedStr(self, n, sc, mod):
        return T("fstr", n, mod)

    def e_Yield(self, n, sc, mod):
        return T("yield", n, mod, x=self.ev(n.value, sc, mod) if n.value is not None else const(None))

    def e_NamedExpr(self, n, sc, mod):
        v = self.ev(n.value, sc, mod)
        sc.vars[n.target.id] = v
        return v

    def _comp(self, n, elt, sc, mod):
        s2 = Scope(sc)
        src = None
        conds = []
        for g in n.generators:
            gi = g.iter
            if isinstance(gi, ast.Name) and s2.lookup(gi.id) is None and len(n.generators) == 1:
                # a same-module constant table bound once (TABLE = (f1, f2, ..)): as if written in place
                bl = mod.top.get(gi.id)
                if bl and len(bl) == 1 and bl[-1][0] == "assign" and isinstance(bl[-1][1], ast.Tuple) and 1 <= len(bl[-1][1].elts) <= 8 and not any(isinstance(e, ast.Starred) for e in bl[-1][1].elts):
                    gi = bl[-1][1]
            it = self.ev(gi, s2, mod)
            if src is None:
                src = it
            self.bind_target(g.target, T("iterelem", g.iter, mod, src=it), s2, mod)
            for c in g.ifs:
                conds.append(self.ev(c, s2, mod))
        if isinstance(elt, tuple):
            e = T("tuple", n, mod, elts=[self.ev(x, s2, mod) for x in elt])
        else:
            e = self.ev(elt, s2, mod)
        c = T("comp", n, mod, elt=e, src=src, conds=conds, kind=type(n).__name__)
        if len(n.generators) == 1 and src.op in ("tuple", "list"):
            from .tutil import unroll_comp

            un = unroll_comp(c)
            if un is not None:
                return un
        return c

    def e_ListComp(self, n, sc, mod):
        return self._comp(n, n.elt, sc, mod)

    def e_GeneratorExp(self, n, sc, mod):
        return self._comp(n, n.elt, sc, mod)

    def e_SetComp(self, n, sc, mod):
        return self._comp(n, n.elt, sc, mod)

    def e_DictComp(self, n, sc, mod):
        return self._comp(n, (n.key, n.value), sc, mod)

    def e_Call(self, n, sc, mod):
        fn = self.ev(n.func, sc, mod)
        args = _flatten_pos([self.ev(a, sc, mod) for a in n.args])
        kw = {}
        for k in n.keywords:
            if k.arg is None:
                kw.setdefault("**", [])
                kw["**"].append(self.ev(k.value, sc, mod))
            else:
                kw[k.arg] = self.ev(k.value, sc, mod)
        dst = kw.pop("**", None)
        if fn.op == "methodalias":
            cur_ = sc.lookup(fn.var)
            fn = T("attr", n.func, mod, obj=cur_ if cur_ is not None else fn.obj, name=fn.attr)
        if fn.op == "attr" and fn.name == "__getitem__" and len(args) == 1 and args[0].op != "star" and not kw and not dst:
            # X.__getitem__(k) (also through an alias fetch = X.__getitem__) is the subscription X[k]
            return self.subscript(fn.obj, args[0], n, mod)
        if fn.op == "if":
            # (A if c else B)(args): the call distributes over the conditional callee
            mk = lambda f_: T("call", n, mod, fn=f_, args=list(args), kw=dict(kw), dstar=list(dst or []), ctx=self._ctx)
            return T("if", n, mod, cond=fn.cond, then=mk(fn.then), other=mk(fn.other))
        t = T("call", n, mod, fn=fn, args=args, kw=kw, dstar=dst or [], ctx=self._ctx)
        # dict(<pairs produced by a comprehension>) is the dict comprehension of those pairs
        if fn.op == "ref" and fn.ref.qual == "builtins.dict" and len(args) == 1 and not kw and not dst and args[0].op == "comp" and args[0].get("kind") in ("GeneratorExp", "ListComp") and args[0].elt.op == "tuple" and len(args[0].elt.elts) == 2:
            c0 = args[0]
            return T("comp", n, mod, elt=c0.elt, src=c0.src, conds=list(c0.conds), kind="DictComp")
        # functools.partial(f, a, b) -> partial value
        if fn.op == "ref" and fn.ref.qual == "functools.partial" and args:
            return T("partial", n, mod, fn=args[0], args=args[1:], kw=kw)
        # autograd.util.func(x) is the identity
        if fn.op == "ref" and fn.ref.qual == "autograd.util.func" and len(args) == 1:
            return args[0]
        # getattr(<module / class>, "name") with a constant name is the attribute itself
        if fn.op == "ref" and fn.ref.qual == "builtins.getattr" and len(args) == 2 and not kw and args[1].op == "const" and isinstance(args[1].value, str) and args[0].op == "ref" and isinstance(args[0].node, (ast.Name, ast.Attribute)):
            r = self.repo.resolve_expr(args[0].mod or mod, ast.Attribute(value=args[0].node, attr=args[1].value, ctx=ast.Load()))
            if r is not None:
                return T("ref", n, mod, ref=r)
        # getattr(obj, "name") with a constant name and no default is the attribute access obj.name
        if fn.op == "ref" and fn.ref.qual == "builtins.getattr" and len(args) == 2 and not kw and not t.dstar and args[1].op == "const" and isinstance(args[1].value, str) and args[1].value.isidentifier() and args[0].op != "star":
            return T("attr", n, mod, obj=args[0], name=args[1].value)
        return t

    # ------------------------------------------------------------------ helpers
    def static_truth(self, c):
        """Decide a condition that is constant under the bindings (argnum == 0 with argnum bound ...)."""
        if c.op == "const":
            return bool(c.value)
        if c.op == "cmp" and c.l.op == "const" and c.r.op == "const":
            a, b = c.l.value, c.r.value
            try:
                return {
                    "Eq": a == b,
                    "NotEq": a != b,
                    "Lt": a < b,
                    "LtE": a <= b,
                    "Gt": a > b,
                    "GtE": a >= b,
                    "Is": a is b,
                    "IsNot": a is not b,
                }.get(c.opname)
            except Exception:
                return None
        if c.op == "un" and c.opname == "Not":
            k = self.static_truth(c.x)
            return None if k is None else (not k)
        return None

    def bind_target(self, tgt, val, sc, mod):
        if isinstance(tgt, ast.Name):
            sc.vars[tgt.id] = val
        elif isinstance(tgt, (ast.Tuple, ast.List)):
            n = len(tgt.elts)
            if val.op in ("tuple", "list") and len(val.elts) == n and not any(e.op == "star" for e in val.elts):
                for te, ve in zip(tgt.elts, val.elts):
                    self.bind_target(te, ve, sc, mod)
            else:
                for i, te in enumerate(tgt.elts):
                    if isinstance(te, ast.Starred):
                        self.bind_target(te.value, unknown("starred-unpack", te), sc, mod)
                    else:
                        self.bind_target(te, self.subscript(val, const(i), tgt, mod), sc, mod)
        elif isinstance(tgt, ast.Subscript):
            b = tgt.value
            if isinstance(b, ast.Name):
                old = sc.lookup(b.id) or self.ev(b, sc, mod)
                key_ = self.ev(tgt.slice, sc, mod)
                if old.op == "dict" and not old.get("dstar") and isinstance(tgt.ctx, ast.Store) and all(k is not None and (k.op == "const" or k is key_) for k, _ in old.items) and (key_.op == "const" or not old.items or any(k is key_ for k, _ in old.items)):
                    # d = {..}; d[k] = v on a dict display is the display with that entry (over)written
                    items_ = [(k, v) for k, v in old.items if not (k is key_ or (k.op == "const" and key_.op == "const" and type(k.value) is type(key_.value) and k.value == key_.value))]
                    sc.vars[b.id] = T("dict", old.node, old.mod, items=items_ + [(key_, val)])
                    return
                sc.vars[b.id] = T(
                    "store", tgt, mod, obj=old, idx=key_, val=val
                )
            else:
                self.effects.append(("store", T("store", tgt, mod, obj=self.ev(b, sc, mod), idx=self.ev(tgt.slice, sc, mod), val=val)))
        elif isinstance(tgt, ast.Attribute):
            st_ = T("store", tgt, mod, obj=self.ev(tgt.value, sc, mod), idx=const(tgt.attr), val=val)
            self.effects.append(("setattr", st_))
            sc.effects.append(T("setattr", tgt, mod, store=st_))
            if isinstance(tgt.value, ast.Name) and sc.lookup(tgt.value.id) is not None:
                sc.vars[f"{tgt.value.id}.{tgt.attr}"] = val  # attribute state of a local object (flow-sensitive)

    # ------------------------------------------------------------------ statements
    def run(self, stmts, sc, mod):
        """Execute a statement list; returns the term of the returned value (if-tree over paths), or None when
        control falls off the end."""
        for i, st in enumerate(stmts):
            rest = stmts[i + 1 :]
            if isinstance(st, ast.Return):
                v = self.ev(st.value, sc, mod) if st.value is not None else const(None, st)
                return self._with_effects(v, sc, st, mod)
            if isinstance(st, ast.Raise):
                return T("raise", st, mod, exc=self.ev(st.exc, sc, mod) if st.exc is not None else const(None))
            if isinstance(st, ast.Assign):
                v = self.ev(st.value, sc, mod)
                for t in st.targets:
                    self.bind_target(t, v, sc, mod)
            elif isinstance(st, ast.AnnAssign):
                if st.value is not None:
                    self.bind_target(st.target, self.ev(st.value, sc, mod), sc, mod)
            elif isinstance(st, ast.AugAssign):
                cur = self.ev(_load(st.target), sc, mod)
                v = T("bin", st, mod, opname=type(st.op).__name__, l=cur, r=self.ev(st.value, sc, mod), inplace=True)
                self.bind_target(st.target, v, sc, mod)
            elif isinstance(st, (ast.FunctionDef,)):
                clo = T("closure", st, mod, fnode=st, scope=sc, bound=[], boundkw={})
                for d in reversed(st.decorator_list):
                    clo = T("call", d, mod, fn=self.ev(d, sc, mod), args=[clo], kw={}, dstar=[])
                sc.vars[st.name] = clo
            elif isinstance(st, ast.Expr) and isinstance(st.value, ast.YieldFrom):
                # yield from X   ==   for e in X: yield e
                tmp_ = ast.Name(id="__yf__", ctx=ast.Store())
                lp_ = ast.For(target=tmp_, iter=st.value.value, body=[ast.Expr(value=ast.Yield(value=ast.Name(id="__yf__", ctx=ast.Load())))], orelse=[])
                for x_ in ast.walk(lp_):
                    if x_ is not st.value.value and not hasattr(x_, "lineno"):
                        ast.copy_location(x_, st)
                lp_._parent = getattr(st, "_parent", None)
                return self.run([lp_] + rest, sc, mod)
            elif isinstance(st, ast.Expr):
                if isinstance(st.value, ast.Constant):
                    continue  # docstring
                if isinstance(st.value, ast.Yield) and sc.lookup("__yielded__") is not None and st.value.value is not None:
                    # inside an inlined generator function: the yielded values form the produced sequence
                    y = self.ev(st.value.value, sc, mod)
                    sc.vars["__yielded__"] = T("grow", st, mod, obj=sc.lookup("__yielded__"), val=y, how="append")
                    continue
                v = self.ev(st.value, sc, mod)
                self.effects.append(("expr", v))
                sc.effects.append(v)
                self._local_mutation(st.value, v, sc, mod)
                self._callee_mutations(st.value, v, sc, mod)
            elif isinstance(st, ast.Assert):
                c = self.ev(st.test, sc, mod)
                self.effects.append(("assert", c))
                sc.effects.append(T("assert", st, mod, cond=c))
            elif isinstance(st, ast.If):
                c = self.ev(st.test, sc, mod)
                k = self.static_truth(c)
                if k is True:
                    return self.run(list(st.body) + rest, sc, mod)
                if k is False:
                    return self.run(list(st.orelse) + rest, sc, mod)
                if _has_exit(st.body) or _has_exit(st.orelse):
                    s1, s2 = sc.fork(), sc.fork()
                    r1 = self.run(list(st.body) + rest, s1, mod)
                    r2 = self.run(list(st.orelse) + rest, s2, mod)
                    if r1 is None and r2 is None:
                        return None
                    return T("if", st, mod, cond=c, then=r1 if r1 is not None else const(None), other=r2 if r2 is not None else const(None))
                s1, s2 = sc.fork(), sc.fork()
                self.run(st.body, s1, mod)
                self.run(st.orelse, s2, mod)
                nb = len(sc.effects)
                for e_ in s1.effects[nb:]:
                    sc.effects.append(T("when", st, mod, cond=c, pol=True, eff=e_))
                for e_ in s2.effects[nb:]:
                    sc.effects.append(T("when", st, mod, cond=c, pol=False, eff=e_))
                for name in set(s1.vars) | set(s2.vars):
                    a, b = s1.vars.get(name), s2.vars.get(name)
                    if a is b:
                        if a is not None:
                            sc.vars[name] = a
                        continue
                    a = a if a is not None else (sc.lookup(name) or unknown(f"unbound:{name}"))
                    b = b if b is not None else (sc.lookup(name) or unknown(f"unbound:{name}"))
                    sc.vars[name] = T("if", st, mod, cond=c, then=a, other=b)
            elif isinstance(st, ast.For) and self._static_elements(st, sc, mod) is not None:
                # a loop over a short literal table is its own unrolling (break / continue become branches)
                elts = self._static_elements(st, sc, mod)
                seq = []
                for e_ in reversed(elts):
                    bind = ast.Assign(targets=[st.target], value=e_)
                    ast.copy_location(bind, st)
                    bind._parent = getattr(st, "_parent", None)
                    seq = [bind] + _unroll_body(list(st.body), seq, [])
                return self.run(seq + rest, sc, mod)
            elif isinstance(st, ast.While) and _while_true_with_leading_break(st) is not None:
                # while True: if c: break; body   ==   while not c: body
                return self.run([_while_true_with_leading_break(st)] + rest, sc, mod)
            elif isinstance(st, (ast.For, ast.While)):
                names = _assigned_names(st.body)
                only_mutated = _only_mutated(st.body, names)
                names = [nm for nm in names if not (nm in only_mutated and sc.lookup(nm) is None)]
                for nm in self._names_mutated_by_calls(st.body, sc, mod):
                    if nm not in names:
                        names.append(nm)
                if sc.lookup("__yielded__") is not None and _yields_in(st.body) and "__yielded__" not in names:
                    names.append("__yielded__")
                init = {nm: sc.lookup(nm) for nm in names}
                # the iterable of a `for` is evaluated once, before the first iteration (pre-loop values);
                # the test of a `while` is re-evaluated every iteration (loop-carried values)
                it = self.ev(st.iter, sc, mod) if isinstance(st, ast.For) else None
                for nm in names:
                    sc.vars[nm] = T("loopvar", st, mod, name=nm, init=init[nm])
                lvs_ = {nm: sc.vars[nm] for nm in names}
                guards = []
                if isinstance(st, ast.For):
                    # for t in (E(x) for x in S if C): body   ==   for x in S: if C: t = E(x); body
                    it0 = it
                    while it0.op == "seq":
                        it0 = it0.value
                    if it0.op == "comp" and it0.get("kind") == "GeneratorExp" and isinstance(it0.node, ast.GeneratorExp) and len(it0.node.generators) == 1:
                        # (a list comprehension is built eagerly, before the loop starts: it stays the loop's source)
                        it, elem, guards = it0.src, it0.elt, list(it0.conds)
                    else:
                        elem = T("iterelem", st.iter, mod, src=it)
                    self.bind_target(st.target, elem, sc, mod)
                    cond = None
                else:
                    cond = self.ev(st.test, sc, mod)
                r = self.run(_desugar_continue(list(st.body)), sc, mod)
                if guards:
                    gc = guards[0] if len(guards) == 1 else T("bool", st, mod, opname="and", vals=guards)
                    for nm in names:
                        if sc.vars.get(nm) is not None:
                            sc.vars[nm] = T("if", st, mod, cond=gc, then=sc.vars[nm], other=lvs_[nm])
                # tuple states that split into component loops: the OTHER variables of the same loop read them through
                # state[i] as well - those reads become the component's loop variable
                split_names = {}
                if r is None:
                    for nm in names:
                        i0 = init[nm]
                        if i0 is not None and i0.op == "tuple" and sc.vars.get(nm) is not None:
                            probe = T("loop", st, mod, name=nm, init=i0, next=sc.vars.get(nm), it=it, cond=cond)
                            if _split_tuple_state(probe) is not None:
                                split_names[nm] = i0

                def _sib(t):
                    if not split_names or t is None:
                        return t
                    from .tutil import tmap

                    def f(x):
                        if x.op == "sub" and x.obj.op == "loopvar" and x.obj.name in split_names and x.obj.node is st and x.idx.op == "const" and type(x.idx.value) is int and 0 <= x.idx.value < len(split_names[x.obj.name].elts):
                            return T("loopvar", st, mod, name=f"{x.obj.name}.{x.idx.value}", init=split_names[x.obj.name].elts[x.idx.value])
                        return x

                    return tmap(t, f)

                for nm in names:
                    nxt = sc.vars.get(nm)
                    if nm not in split_names:
                        nxt = _sib(nxt)
                    lp = T(
                        "loop", st, mod, name=nm, init=init[nm] if init[nm] is not None else unknown(f"unbound:{nm}"), next=nxt, it=it, cond=cond if nm in split_names else _sib(cond)
                    )
                    self.loops.append(lp)
                    sp = _split_tuple_state(lp) if r is None else None
                    if sp is not None:
                        self.loops.extend(sp.elts)
                        sc.vars[nm] = sp
                        continue
                    sc.vars[nm] = _canon_loop(lp) if r is None else lp
                if r is not None:
                    r2 = self.run(rest, sc, mod)
                    return T("if", st, mod, cond=unknown("loop-exit"), then=r, other=r2 if r2 is not None else const(None))
            elif isinstance(st, ast.With):
                for it in st.items:
                    v = self.ev(it.context_expr, sc, mod)
                    if it.optional_vars is not None:
                        self.bind_target(it.optional_vars, T("call", it.context_expr, mod, fn=T("attr", obj=v, name="__enter__"), args=[], kw={}, dstar=[]), sc, mod)
                r = self.run(list(st.body) + rest, sc, mod)
                return r
            elif isinstance(st, ast.Try):
                alt = _lookup_default_idiom(st)
                if alt is not None:
                    return self.run([alt] + rest, sc, mod)
                r = self.run(list(st.body) + list(st.orelse) + list(st.finalbody) + rest, sc, mod)
                return r
            elif isinstance(st, (ast.Pass, ast.Import, ast.ImportFrom, ast.Global, ast.Nonlocal, ast.Delete, ast.Break, ast.Continue)):
                pass
            else:
                self.effects.append(("stmt", unknown("stmt:" + type(st).__name__, st)))
        return None

    def _static_elements(self, st, sc, mod):
        """element expressions of `for ... in <literal tuple/list>` (written in place or as a same-module constant that
        is bound once), at most 8 of them, when the loop has no else clause and no nested loop jumps"""
        if st.orelse or any(isinstance(n, (ast.Yield, ast.YieldFrom)) for b in st.body for n in ast.walk(b)):
            return None
        it = st.iter
        if isinstance(it, ast.Name) and sc.lookup(it.id) is not None:
            # a local table: plan = ((..), (..)); for a, b in plan: ...   (elements addressed as plan[i])
            lv = sc.lookup(it.id)
            if lv.op in ("tuple", "list") and 1 <= len(lv.elts) <= 8 and not any(e.op == "star" for e in lv.elts) and it.id not in _assigned_names(st.body):
                out = []
                for i in range(len(lv.elts)):
                    sub_ = ast.Subscript(value=ast.Name(id=it.id, ctx=ast.Load()), slice=ast.Constant(value=i), ctx=ast.Load())
                    ast.copy_location(sub_, it)
                    ast.fix_missing_locations(sub_)
                    out.append(sub_)
                return out
            return None
        if isinstance(it, ast.Name) and sc.lookup(it.id) is None:
            bl = mod.top.get(it.id)
            if bl and len(bl) == 1 and bl[-1][0] == "assign" and not _has_def_named(st, it.id):
                it = bl[-1][1]
        if not isinstance(it, (ast.Tuple, ast.List)) or not (1 <= len(it.elts) <= 8) or any(isinstance(e, ast.Starred) for e in it.elts):
            return None
        return list(it.elts)

    def _local_mutation(self, n, v, sc, mod):
        """`xs.append(e)` / `xs.extend(e)` / `s.add(e)` / `d.update(e)` on a local name rebinds the name to a
        `grow` term, so that a list built by an explicit loop has the same normal form as a comprehension."""
        if not isinstance(n, ast.Call):
            return
        if isinstance(n.func, ast.Attribute) and isinstance(n.func.value, ast.Name):
            how, name = n.func.attr, n.func.value.id
        elif isinstance(n.func, ast.Name) and sc.lookup(n.func.id) is not None and sc.lookup(n.func.id).op == "methodalias":
            al = sc.lookup(n.func.id)
            how, name = al.attr, al.var
        else:
            return
        if how not in ("append", "extend", "add", "update") or len(n.args) != 1 or n.keywords:
            return
        old = sc.lookup(name)
        if old is None:
            return
        new = T("grow", n, mod, obj=old, val=v.args[0], how=how)
        sc.vars[name] = new
        # the same object reached through other local names: a plain alias (b = a) sees the grown container; a tuple
        # that holds it (state = (xs, n); xs, n = state; xs.append(e)) has that component grown
        seen_names = set()
        s_ = sc
        while s_ is not None:
            for bname, bval in list(s_.vars.items()):
                if bname == name or bname in seen_names or bval is None:
                    continue
                seen_names.add(bname)
                if bval is old:
                    s_.vars[bname] = new
                elif old.op == "sub" and old.obj is bval and old.idx.op == "const" and type(old.idx.value) is int:
                    s_.vars[bname] = T("store", n, mod, obj=bval, idx=old.idx, val=new)
                elif bval.op in ("tuple", "list") and any(e is old for e in bval.elts) and old.op in ("list", "set", "dict", "grow", "call", "comp"):
                    s_.vars[bname] = T(bval.op, bval.node, bval.mod, elts=[new if e is old else e for e in bval.elts])
            s_ = s_.parent if s_.parent is not None and s_ is not sc else None

    def _raising_helper(self, n, v):
        """the inlined result of an expression-statement call to a repo helper whose own body raises on some path
        (a guard function), or None"""
        if not isinstance(n, ast.Call) or v.op != "call" or v.fn.op != "ref":
            return None
        r = v.fn.ref
        node = getattr(r, "node", None)
        if r.kind != "repo" or not isinstance(node, ast.FunctionDef) or node.decorator_list:
            return None
        if not any(isinstance(x, ast.Raise) for x in ast.walk(node)):
            return None
        res = self.inline(v)
        if res is None or res.op == "unknown":
            return None
        if not any(t.op == "raise" for t in walk(res)):
            return None
        return res

    def _mutating_callee(self, n, sc, mod):
        """(closure, {caller name: parameter}) when the expression statement `f(a, b, ...)` calls an inlinable repo
        function that stores into / grows one of its parameters and the matching argument is a plain local name"""
        if not (isinstance(n, ast.Call) and isinstance(n.func, (ast.Name, ast.Attribute))):
            return None, {}
        if any(isinstance(a, ast.Starred) for a in n.args) or any(k.arg is None for k in n.keywords):
            return None, {}
        if isinstance(n.func, ast.Attribute) and not (isinstance(n.func.value, ast.Name) and sc.lookup(n.func.value.id) is None):
            return None, {}  # a method call on a local value: not resolvable to a repo function
        fn = self.ev(n.func, sc, mod)
        if fn.op not in ("ref", "closure"):
            return None, {}
        clo, pre, prekw = self.as_closure(fn)
        if clo is None or pre or prekw or not isinstance(clo.fnode, ast.FunctionDef):
            return None, {}
        a = clo.fnode.args
        params = [p.arg for p in a.posonlyargs + a.args]
        mut = _mutated_params(clo.fnode, set(params))
        out = {}
        if fn.op == "closure" and clo.scope is not None:
            # a nested helper of the calling function that stores into / grows containers it captures from it
            allp = set(params) | {p.arg for p in a.kwonlyargs} | ({a.vararg.arg} if a.vararg else set()) | ({a.kwarg.arg} if a.kwarg else set())
            local_ = {x.id for x in ast.walk(clo.fnode) if isinstance(x, ast.Name) and isinstance(x.ctx, ast.Store)}
            free = {x.id for x in ast.walk(clo.fnode) if isinstance(x, ast.Name)} - allp - local_
            for nm in sorted(_mutated_params(clo.fnode, free)):
                if sc.lookup(nm) is not None and clo.scope.lookup(nm) is sc.lookup(nm):
                    out[nm] = nm
        if not mut and not out:
            return None, {}
        for i, x in enumerate(n.args):
            if i < len(params) and params[i] in mut and isinstance(x, ast.Name) and sc.lookup(x.id) is not None:
                out[x.id] = params[i]
        for k in n.keywords:
            if k.arg in mut and isinstance(k.value, ast.Name) and sc.lookup(k.value.id) is not None:
                out[k.value.id] = k.arg
        return (clo, out) if out else (None, {})

    def _callee_mutations(self, n, v, sc, mod):
        clo, names = self._mutating_callee(n, sc, mod)
        if clo is None or v.op != "call":
            return
        self._last_scope = None
        r = self.apply(clo, list(v.args), dict(v.kw), v.get("dstar", []))
        cs = self._last_scope
        if r is None or r.op == "unknown" or cs is None:
            return
        for caller_name, param in names.items():
            new = cs.vars.get(param)
            if new is not None and new is not sc.lookup(caller_name):
                sc.vars[caller_name] = new

    def _names_mutated_by_calls(self, stmts, sc, mod):
        out = []

        def walk_(sts):
            for st in sts:
                if isinstance(st, ast.Expr) and isinstance(st.value, ast.Call) and isinstance(st.value.func, ast.Name):
                    al = sc.lookup(st.value.func.id)
                    if al is not None and al.op == "methodalias" and al.attr in ("append", "extend", "add", "update") and al.var not in out:
                        out.append(al.var)
                if isinstance(st, ast.Expr):
                    try:
                        _c, names = self._mutating_callee(st.value, sc, mod)
                    except Exception:
                        names = {}
                    for nm in names:
                        if nm not in out:
                            out.append(nm)
                elif isinstance(st, (ast.If, ast.For, ast.While)):
                    walk_(st.body)
                    walk_(st.orelse)
                elif isinstance(st, ast.With):
                    walk_(st.body)
                elif isinstance(st, ast.Try):
                    walk_(st.body)
                    walk_(st.orelse)
                    walk_(st.finalbody)

        walk_(stmts)
        return out

    def _with_effects(self, v, sc, st, mod):
        if sc.effects:
            return T("seq", st, mod, effects=list(sc.effects), value=v)
        return v

    # ------------------------------------------------------------------ calls / inlining
    def _synth_closure(self, src, binds=None):
        """closure for a small lambda given as source text (operator.* functions, attrgetter/itemgetter/methodcaller)"""
        key = src
        node = _SYNTH_CACHE.get(key)
        if node is None:
            node = ast.parse(src, mode="eval").body
            for n_ in ast.walk(node):
                for c_ in ast.iter_child_nodes(n_):
                    c_._parent = n_
            _SYNTH_CACHE[key] = node
        sc = Scope()
        for k, v in (binds or {}).items():
            sc.vars[k] = v
        anymod = self.repo.mods.get("autograd.util") or next(iter(self.repo.mods.values()))
        return T("closure", node, anymod, fnode=node, scope=sc, bound=[], boundkw={})

    def _operator_closure(self, fn):
        """operator.neg / operator.mul / ... and operator.attrgetter("a") / itemgetter(k) / methodcaller("m", *args)"""
        if fn.op == "ref" and fn.ref.qual.startswith("operator.") or (fn.op == "ref" and fn.ref.qual.startswith("_operator.")):
            nm = fn.ref.qual.rsplit(".", 1)[-1]
            src = _OPERATOR_LAMBDAS.get(nm)
            if src is not None:
                return self._synth_closure(src)
        if fn.op == "call" and fn.fn.op == "ref" and fn.fn.ref.qual in ("operator.attrgetter", "operator.itemgetter", "operator.methodcaller") and fn.args and not fn.kw:
            kind = fn.fn.ref.qual.rsplit(".", 1)[-1]
            a0 = fn.args[0]
            if kind == "attrgetter" and len(fn.args) == 1 and a0.op == "const" and isinstance(a0.value, str) and a0.value.isidentifier():
                return self._synth_closure(f"lambda _o: _o.{a0.value}")
            if kind == "itemgetter" and len(fn.args) == 1:
                return self._synth_closure("lambda _o: _o[_k]", {"_k": a0})
            if kind == "methodcaller" and a0.op == "const" and isinstance(a0.value, str) and a0.value.isidentifier():
                names = [f"_a{i}" for i in range(len(fn.args) - 1)]
                return self._synth_closure(f"lambda _o: _o.{a0.value}({', '.join(names)})", dict(zip(names, fn.args[1:])))
        if fn.op == "attr" and fn.name == "__getitem__":
            return self._synth_closure("lambda _i: _o[_i]", {"_o": fn.obj})
        return None

    def as_closure(self, fn):
        """Turn a callee term into (closure term, extra leading args, extra kw) if it is inlinable."""
        pre, prekw = [], {}
        seen = 0
        while seen < 8:
            seen += 1
            oc = self._operator_closure(fn)
            if oc is not None:
                return oc, pre, prekw
            if fn.op == "closure":
                return fn, list(fn.bound) + pre, {**fn.boundkw, **prekw}
            if fn.op == "partial":
                pre = list(fn.args) + pre
                prekw = {**fn.kw, **prekw}
                fn = fn.fn
                continue
            if fn.op == "ref":
                r = fn.ref
                if r.kind in ("repo", "classattr"):
                    node = r.node
                    if isinstance(node, ast.FunctionDef):
                        if node.decorator_list:
                            return None, None, None  # primitives / properties are not inlined
                        return T("closure", node, r.mod, fnode=node, scope=Scope(), bound=[], boundkw={}), pre, prekw
                    if isinstance(node, ast.Lambda):
                        return T("closure", node, r.mod, fnode=node, scope=Scope(), bound=[], boundkw={}), pre, prekw
                    if isinstance(node, ast.Call) and r.kind == "repo":
                        # X = partial(...) / X = factory(const)
                        v = self.ev(node, Scope(), r.mod)
                        if v.op in ("partial", "closure"):
                            fn = v
                            continue
                        oc = self._operator_closure(v)
                        if oc is not None:
                            return oc, pre, prekw
                        if v.op == "call":
                            res = self.inline(v)
                            if res is not None and res.op in ("closure", "partial"):
                                fn = res
                                continue
                return None, None, None
            if fn.op == "attr" and fn.obj.op == "sym" and fn.obj.get("cls") is not None:
                # self.method(...) with the class of `self` known: resolve through the MRO, bind self
                from .regs import class_lookup

                kref, node = class_lookup(self.repo, fn.obj.cls, fn.name)
                if isinstance(node, ast.FunctionDef) and not node.decorator_list:
                    return T("closure", node, kref.mod, fnode=node, scope=Scope(), bound=[], boundkw={}), [fn.obj] + pre, prekw
                return None, None, None
            if fn.op == "call":
                res = self.inline(fn)
                if res is not None and res.op in ("closure", "partial"):
                    fn = res
                    continue
                return None, None, None
            if fn.op == "sub" and fn.idx.op == "const" and type(fn.idx.value) in (int, str):
                # component of a tuple / dict of functions returned by a factory: makers(...)[0], makers(...)["first"]
                ob = fn.obj
                if ob.op == "call":
                    res = self.inline(ob)
                    while res is not None and res.op == "seq":
                        res = res.value
                    ob = res if res is not None else ob
                if ob.op == "dict" and not ob.get("dstar"):
                    hits = [v for k, v in ob.items if k is not None and k.op == "const" and type(k.value) is type(fn.idx.value) and k.value == fn.idx.value]
                    if len(hits) == 1 and all(k is not None and k.op == "const" for k, _ in ob.items):
                        fn = hits[0]
                        continue
                    return None, None, None
                if type(fn.idx.value) is int and ob.op in ("tuple", "list") and not any(e.op == "star" for e in ob.elts) and -len(ob.elts) <= fn.idx.value < len(ob.elts):
                    fn = ob.elts[fn.idx.value]
                    continue
                return None, None, None
            return None, None, None
        return None, None, None

    def inline(self, call):
        """Result term of a call to an inlinable repo function, or None."""
        key = id(call)
        if key in self._inline_cache:
            return self._inline_cache[key][1]
        depth, stack = call.get("ctx") or (0, ())
        if call.fn.op == "if":
            # a callee chosen by a branch (expand = lambda ... in each arm): distribute the call
            parts = []
            for br in (call.fn.then, call.fn.other):
                c2 = T("call", call.node, call.mod, fn=br, args=call.args, kw=call.kw, dstar=call.get("dstar", []), ctx=call.get("ctx"))
                r2 = self.inline(c2)
                parts.append(r2 if r2 is not None else c2)
            res = T("if", call.node, call.mod, cond=call.fn.cond, then=parts[0], other=parts[1])
            self._inline_cache[key] = (call, res)
            return res
        clo, pre, prekw = self.as_closure(call.fn)
        res = None
        if clo is not None:
            res = self.apply(clo, pre + list(call.args), {**prekw, **call.kw}, call.get("dstar", []), depth + 1, stack)
        self._inline_cache[key] = (call, res)
        return res

    def apply(self, clo, args, kw, dstar=(), depth=None, stack=None):
        fnode = clo.fnode
        if depth is None:
            depth, stack = self._ctx[0] + 1, self._ctx[1]
        if depth > self.max_depth or fnode in stack:
            return unknown("inline-depth" if depth > self.max_depth else "recursion", fnode)
        saved = self._ctx
        self._ctx = (depth, tuple(stack) + (fnode,))
        try:
            return self._apply(clo, args, kw, dstar)
        finally:
            self._ctx = saved

    def _apply(self, clo, args, kw, dstar=()):
        fnode = clo.fnode
        args = _flatten_pos(args)
        sc = Scope(clo.scope)
        mod = clo.mod
        a = fnode.args
        params = [p.arg for p in a.posonlyargs + a.args]
        defaults = [None] * (len(params) - len(a.defaults)) + list(a.defaults)
        # positional binding, with *rest forwarding
        pos = list(args)
        pi = 0
        bound = {}
        star_src = None  # a forwarded rest(start) term and the offset consumed so far
        star_off = 0
        for i, p in enumerate(params):
            if star_src is None and pi < len(pos) and pos[pi].op == "star":
                star_src = pos[pi].x
                star_off = 0
                pi += 1
            if star_src is not None:
                dflt = self.ev(defaults[i], clo.scope, mod) if defaults[i] is not None else None
                if star_src.op == "rest":
                    if p in kw:
                        # a positional from *rest would collide: keep keyword (call would raise if both)
                        bound[p] = kw[p]
                    else:
                        bound[p] = T("arg", fnode, mod, index=star_src.start + star_off, name=p, default=dflt, via="fwd")
                    star_off += 1
                elif star_src.op in ("tuple", "list") and star_off < len(star_src.elts):
                    bound[p] = star_src.elts[star_off]
                    star_off += 1
                    if star_off >= len(star_src.elts):
                        star_src = None
                else:
                    bound[p] = T("sub", fnode, mod, obj=star_src, idx=const(star_off))
                    star_off += 1
                continue
            if pi < len(pos):
                bound[p] = pos[pi]
                pi += 1
            elif p in kw:
                bound[p] = kw[p]
            elif defaults[i] is not None:
                dv = self.ev(defaults[i], clo.scope, mod)
                if dstar:
                    # may also arrive through **kwargs forwarding
                    src = dstar[0]
                    if src.op == "kwrest":
                        bound[p] = T("arg", fnode, mod, index=None, name=p, default=dv, via="kwfwd")
                    else:
                        bound[p] = dv
                else:
                    bound[p] = dv
            else:
                bound[p] = unknown(f"missing-arg:{p}", fnode)
        # *args
        if a.vararg is not None:
            if star_src is not None and star_src.op == "rest":
                bound[a.vararg.arg] = T("rest", fnode, mod, start=star_src.start + star_off)
            else:
                extra = pos[pi:]
                if len(extra) == 1 and extra[0].op == "star" and extra[0].x.op in ("rest", "sym"):
                    bound[a.vararg.arg] = extra[0].x  # f(*xs) with xs the caller's own sequence of arguments
                else:
                    bound[a.vararg.arg] = T("tuple", fnode, mod, elts=extra)
        # keyword-only
        for p, d in zip(a.kwonlyargs, a.kw_defaults):
            if p.arg in kw:
                bound[p.arg] = kw[p.arg]
            elif d is not None:
                bound[p.arg] = self.ev(d, clo.scope, mod)
            else:
                bound[p.arg] = unknown(f"missing-kwonly:{p.arg}", fnode)
        if a.kwarg is not None:
            extra_kw = {k: v for k, v in kw.items() if k not in params and k not in [x.arg for x in a.kwonlyargs]}
            if dstar and len(dstar) == 1 and dstar[0].op in ("kwrest", "sym") and not extra_kw:
                bound[a.kwarg.arg] = dstar[0]
            else:
                bound[a.kwarg.arg] = T("dict", fnode, mod, items=[(const(k), v) for k, v in extra_kw.items()], dstar=list(dstar))
        sc.vars.update(bound)
        self._last_scope = sc
        if isinstance(fnode, ast.Lambda):
            return self.ev(fnode.body, sc, mod)
        if _is_generator(fnode):
            sc.vars["__yielded__"] = T("list", fnode, mod, elts=[])
            self.run(fnode.body, sc, mod)
            self._last_scope = sc
            out = sc.vars.get("__yielded__")
            if out is not None and out.op == "comp":
                out = T("comp", out.node, out.mod, **{**out.f, "kind": "GeneratorExp"})
            return out if out is not None else unknown("generator", fnode)
        r = self.run(fnode.body, sc, mod)
        self._last_scope = sc
        if r is None:
            r = const(None, fnode)
        return r


def _lookup_default_idiom(st):
    """try: X = D[K]          is        if K in D: X = D[K]
       except KeyError: X = E           else: X = E
    (single lookup assignment, single handler for KeyError/LookupError that only assigns the same name)"""
    if len(st.body) != 1 or len(st.handlers) != 1 or st.orelse or st.finalbody:
        return None
    b, h = st.body[0], st.handlers[0]
    if not (isinstance(b, ast.Assign) and len(b.targets) == 1 and isinstance(b.targets[0], ast.Name) and isinstance(b.value, ast.Subscript) and isinstance(b.value.value, ast.Name)):
        return None
    ht = h.type
    if not (isinstance(ht, ast.Name) and ht.id in ("KeyError", "LookupError")):
        return None
    if len(h.body) != 1 or not (isinstance(h.body[0], ast.Assign) and len(h.body[0].targets) == 1 and isinstance(h.body[0].targets[0], ast.Name) and h.body[0].targets[0].id == b.targets[0].id):
        return None
    if any(isinstance(x, ast.Call) for x in ast.walk(b.value.slice)):
        return None
    test = ast.Compare(left=b.value.slice, ops=[ast.In()], comparators=[b.value.value])
    new = ast.If(test=test, body=[b], orelse=[h.body[0]])
    ast.copy_location(new, st)
    ast.copy_location(test, st)
    new._parent = getattr(st, "_parent", None)
    return new


def _graft(t, cont):
    """replace every non-raising leaf of an if/seq tree by `cont` (the continuation of the calling block)"""
    if t.op == "if":
        return T("if", t.node, t.mod, cond=t.cond, then=_graft(t.then, cont), other=_graft(t.other, cont))
    if t.op == "seq":
        inner = _graft(t.value, cont)
        return T("seq", t.node, t.mod, effects=t.effects, value=inner)
    if t.op == "raise":
        return t
    return cont


_CONTAINER_METHODS = {"get", "pop", "append", "extend", "add", "update", "setdefault", "items", "keys", "values", "popitem", "insert", "remove", "discard", "clear", "index", "count", "__getitem__", "__setitem__", "__contains__", "appendleft", "popleft"}


def _while_true_with_leading_break(st):
    if st.orelse or not (isinstance(st.test, ast.Constant) and st.test.value in (True, 1)) or len(st.body) < 2:
        return None
    first = st.body[0]
    if not (isinstance(first, ast.If) and not first.orelse and len(first.body) == 1 and isinstance(first.body[0], ast.Break)):
        return None
    rest_body = st.body[1:]
    if any(isinstance(x, ast.Break) for b in rest_body for x in ast.walk(b)):
        return None
    test = ast.UnaryOp(op=ast.Not(), operand=first.test)
    new = ast.While(test=test, body=rest_body, orelse=[])
    ast.copy_location(test, first.test)
    ast.copy_location(new, st)
    new._parent = getattr(st, "_parent", None)
    return new


def _has_def_named(st, name):
    return False


def _has_jump(stmts):
    for st in stmts:
        if isinstance(st, (ast.Continue, ast.Break)):
            return True
        if isinstance(st, ast.If) and (_has_jump(st.body) or _has_jump(st.orelse)):
            return True
    return False


def _unroll_body(stmts, cont, brk):
    """one iteration of an unrolled loop: `continue` jumps to `cont` (the next iterations), `break` to `brk`"""
    out = []
    for i, st in enumerate(stmts):
        if isinstance(st, ast.Continue):
            return out + cont
        if isinstance(st, ast.Break):
            return out + brk
        if isinstance(st, ast.If) and (_has_jump(st.body) or _has_jump(st.orelse)):
            rest = stmts[i + 1 :]
            new = ast.If(test=st.test, body=_unroll_body(list(st.body) + rest, cont, brk) or [ast.Pass()], orelse=_unroll_body(list(st.orelse) + rest, cont, brk))
            ast.copy_location(new, st)
            new._parent = getattr(st, "_parent", None)
            return out + [new]
        out.append(st)
    return out + cont


def _has_continue(stmts):
    for st in stmts:
        if isinstance(st, ast.Continue):
            return True
        if isinstance(st, ast.If) and (_has_continue(st.body) or _has_continue(st.orelse)):
            return True
    return False


def _desugar_continue(stmts):
    """Inside a loop body:  [if c: A else: B] + rest  ==  [if c: A + rest else: B + rest], where a `continue`
    cuts everything after it; applied to every `if` that (transitively) contains a continue."""
    out = []
    for i, st in enumerate(stmts):
        if isinstance(st, ast.Continue):
            return out
        if isinstance(st, ast.If) and (_has_continue(st.body) or _has_continue(st.orelse)):
            rest = stmts[i + 1 :]
            new = ast.If(test=st.test, body=_desugar_continue(list(st.body) + rest) or [ast.Pass()], orelse=_desugar_continue(list(st.orelse) + rest))
            ast.copy_location(new, st)
            new._parent = getattr(st, "_parent", None)
            out.append(new)
            return out
        out.append(st)
    return out


def _is_empty_container(t):
    if t is None:
        return None
    if t.op in ("list", "set") and not t.elts:
        return "ListComp" if t.op == "list" else "SetComp"
    if t.op == "dict" and not t.items and not t.get("dstar"):
        return "DictComp"
    if t.op == "call" and t.fn.op == "ref" and not t.args and not t.kw and not t.get("dstar"):
        return {"builtins.list": "ListComp", "builtins.dict": "DictComp", "builtins.set": "SetComp"}.get(t.fn.ref.qual)
    return None


def _merge_grow(t):
    """if(c ? xs.append(a) : xs.append(b))  ==  xs.append(a if c else b)"""
    if t.op != "if":
        return t
    a, b = _merge_grow(t.then), _merge_grow(t.other)
    if a.op == "grow" and b.op == "grow" and a.how == b.how and a.obj is b.obj:
        return T("grow", t.node, t.mod, obj=a.obj, how=a.how, val=T("if", t.node, t.mod, cond=t.cond, then=a.val, other=b.val))
    if a.op == "store" and b.op == "store" and a.obj is b.obj and a.idx is b.idx:
        return T("store", t.node, t.mod, obj=a.obj, idx=a.idx, val=T("if", t.node, t.mod, cond=t.cond, then=a.val, other=b.val))
    if a is t.then and b is t.other:
        return t
    return T("if", t.node, t.mod, cond=t.cond, then=a, other=b)


def _canon_loop(lp):
    """A for-loop that only grows one fresh container by one element per iteration is the comprehension
    `[elt for x in src if conds]` / `{k: v for ...}`: give both the same normal form (`comp`)."""
    if lp.get("it") is None or lp.next is None:
        return lp
    kind = _is_empty_container(lp.init)
    if kind is None:
        return lp
    conds = []
    nxt = _merge_grow(lp.next)
    while nxt.op == "if":
        def is_self(t):
            return t.op == "loopvar" and t.name == lp.name and t.node is lp.node
        if is_self(nxt.other):
            conds.append(nxt.cond)
            nxt = nxt.then
        elif is_self(nxt.then):
            conds.append(T("un", nxt.cond.node, nxt.cond.mod, opname="Not", x=nxt.cond))
            nxt = nxt.other
        else:
            return lp
    def is_self(t):
        return t.op == "loopvar" and t.name == lp.name and t.node is lp.node
    if nxt.op == "grow" and is_self(nxt.obj) and nxt.how in ("append", "add") and kind in ("ListComp", "SetComp"):
        elt = nxt.val
    elif nxt.op == "store" and is_self(nxt.obj) and kind == "DictComp":
        elt = T("tuple", nxt.node, nxt.mod, elts=[nxt.idx, nxt.val])
    else:
        return lp
    # the element must not read the container under construction
    for x in walk(elt):
        if x.op == "loopvar" and x.name == lp.name and x.node is lp.node:
            return lp
    return T("comp", lp.node, lp.mod, elt=elt, src=lp.it, conds=conds, kind=kind, from_loop=True)


class _NoSplit(Exception):
    pass


def _split_tuple_state(lp):
    """state = (a0, b0, ..); loop: state = (a', b', ..) | state | state-with-one-component-replaced, the state read only
    through state[i] / unpacking: the loop of the tuple is the tuple of the loops of its components"""
    init = lp.init
    if init is None or init.op != "tuple" or not init.elts or any(e.op == "star" for e in init.elts) or lp.next is None:
        return None
    k = len(init.elts)
    me = lambda x: x.op == "loopvar" and x.name == lp.name and x.node is lp.node
    LV = [T("loopvar", lp.node, lp.mod, name=f"{lp.name}.{i}", init=init.elts[i]) for i in range(k)]
    memo = {}

    def conv(t):
        if t is None:
            return None
        key = id(t)
        if key in memo:
            return memo[key][1]
        if me(t):
            raise _NoSplit()
        if t.op == "sub" and me(t.obj) and t.idx.op == "const" and type(t.idx.value) is int and 0 <= t.idx.value < k:
            r = LV[t.idx.value]
        else:
            from .tutil import rebuild

            r = rebuild(t, conv)
        memo[key] = (t, r)
        return r

    def comp_i(t, i):
        if t.op == "if":
            return T("if", t.node, t.mod, cond=conv(t.cond), then=comp_i(t.then, i), other=comp_i(t.other, i))
        if t.op == "seq":
            return T("seq", t.node, t.mod, effects=[conv(e) for e in t.effects], value=comp_i(t.value, i))
        if t.op == "tuple" and len(t.elts) == k and not any(e.op == "star" for e in t.elts):
            return conv(t.elts[i])
        if me(t):
            return LV[i]
        if t.op == "store" and t.idx.op == "const" and type(t.idx.value) is int and 0 <= t.idx.value < k:
            return conv(t.val) if t.idx.value == i else comp_i(t.obj, i)
        raise _NoSplit()

    try:
        cond = conv(lp.get("cond")) if lp.get("cond") is not None else None
        loops = []
        for i in range(k):
            l_i = T("loop", lp.node, lp.mod, name=f"{lp.name}.{i}", init=init.elts[i], next=comp_i(lp.next, i), it=lp.get("it"), cond=cond)
            loops.append(_canon_loop(l_i))
    except _NoSplit:
        return None
    return T("tuple", lp.node, lp.mod, elts=loops)


def _is_truth_valued(t):
    """is the term a bool by construction (never another int)?"""
    if t.op in ("cmp", "bool"):
        return True
    if t.op == "un" and t.opname == "Not":
        return True
    if t.op == "const" and type(t.value) is bool:
        return True
    if t.op == "call" and t.fn.op == "ref" and t.fn.ref.qual in ("builtins.isinstance", "autograd.builtins.isinstance", "builtins.bool", "builtins.callable", "builtins.hasattr", "builtins.issubclass"):
        return True
    return False


def _flatten_pos(args):
    """f(a, *(b, *rest)) == f(a, b, *rest): splice starred tuple/list literals into the positional list."""
    out = []
    for a in args:
        if a.op == "star" and a.x.op in ("tuple", "list"):
            out.extend(_flatten_pos(a.x.elts))
        elif a.op == "star" and a.x.op == "bin" and a.x.opname == "Add" and (a.x.l.op in ("tuple", "list") or a.x.r.op in ("tuple", "list")):
            # f(*((a, b) + rest)) == f(a, b, *rest): a starred concatenation is the concatenation of the starred parts
            out.extend(_flatten_pos([T("star", a.node, a.mod, x=a.x.l), T("star", a.node, a.mod, x=a.x.r)]))
        else:
            out.append(a)
    return out


def _load(tgt):
    import copy

    if isinstance(tgt, ast.Name):
        return ast.Name(id=tgt.id, ctx=ast.Load())
    t = copy.copy(tgt)
    t.ctx = ast.Load()
    return t


# ---------------------------------------------------------------------- generic traversal
def children(t):
    o = t.op
    f = t.f
    if o == "call":
        out = [f["fn"]] + list(f["args"]) + list(f["kw"].values()) + list(f.get("dstar", []))
        return out
    if o == "partial":
        return [f["fn"]] + list(f["args"]) + list(f["kw"].values())
    if o in ("bin", "cmp"):
        return [f["l"], f["r"]]
    if o == "un":
        return [f["x"]]
    if o == "bool":
        return list(f["vals"])
    if o == "attr":
        return [f["obj"]]
    if o == "sub":
        return [f["obj"], f["idx"]]
    if o == "slice":
        return [f["lo"], f["hi"], f["step"]]
    if o in ("tuple", "list", "set"):
        return list(f["elts"])
    if o == "dict":
        return [x for kv in f["items"] for x in kv]
    if o == "if":
        return [f["cond"], f["then"], f["other"]]
    if o == "loop":
        return [x for x in (f["init"], f["next"], f.get("it"), f.get("cond")) if x is not None]
    if o == "iterelem":
        return [f["src"]]
    if o == "loopvar":
        # (the value a loop-carried variable starts from: what it is computed from is part of the term)
        return [f["init"]] if f.get("init") is not None else []
    if o in ("star", "dstar", "yield"):
        return [f["x"]]
    if o == "raise":
        return [f["exc"]]
    if o == "store":
        return [f["obj"], f["idx"], f["val"]]
    if o == "grow":
        return [f["obj"], f["val"]]
    if o == "setattr":
        return [f["store"]]
    if o == "comp":
        return [f["elt"], f["src"]] + list(f["conds"])
    if o == "seq":
        return list(f["effects"]) + [f["value"]]
    if o == "assert":
        return [f["cond"]]
    if o == "when":
        return [f["cond"], f["eff"]]
    if o == "arg":
        return [f["default"]] if f.get("default") is not None else []
    return []


def walk(t, seen=None):
    seen = seen if seen is not None else set()
    if t is None or id(t) in seen:
        return
    seen.add(id(t))
    yield t
    for c in children(t):
        yield from walk(c, seen)
