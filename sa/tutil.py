"""Term utilities that make kernel rules insensitive to behaviour-preserving refactorings:

* atom()        - canonical (atom, polarity) of a condition: `not c`, `!=`, `is not`, `not in`, `>`, `>=`, `<=`,
                  `len(x) == 0`, `len(x) > 0`, `bool(x)` are folded into one atom with a polarity;
* cases()       - flattens an if/seq tree into (facts, leaf) pairs, facts being canonical atoms with polarity
                  (conjunctions that hold / disjunctions that fail are split into their members);
* expand()      - deep inlining of repo helper functions that are not themselves kernel vocabulary
                  (a helper extracted from a kernel function has the same expansion as the original code);
* specialise()  - resolves every `if` whose atom is decided by a caller-supplied oracle (case analysis);
* rebuild()     - generic term reconstruction.
"""
from .kfun import same
from .terms import T, children, const

NEG = {"Eq": "NotEq", "NotEq": "Eq", "Lt": "GtE", "GtE": "Lt", "Gt": "LtE", "LtE": "Gt", "Is": "IsNot", "IsNot": "Is", "In": "NotIn", "NotIn": "In"}


def _is_len(t):
    return t.op == "call" and t.fn.op == "ref" and t.fn.ref.qual == "builtins.len" and len(t.args) == 1 and not t.kw


def _int(t, v):
    return t.op == "const" and type(t.value) is int and t.value == v


def atom(c):
    """canonical (atom term, polarity) of a condition term"""
    pol = True
    for _ in range(32):
        if c.op == "seq":
            c = c.value
            continue
        if c.op == "un" and c.opname == "Not":
            c, pol = c.x, not pol
            continue
        if c.op == "bin" and c.opname == "Sub" and c.r.op == "const" and type(c.r.value) is int:
            # truthiness of n - k is n != k
            c, pol = T("cmp", c.node, c.mod, opname="Eq", l=c.l, r=c.r), not pol
            continue
        if c.op == "if":
            # a conditional expression in condition position is a boolean combination of its parts
            t_, o_ = c.then, c.other
            isc = lambda v: v.op == "const" and type(v.value) is bool
            nt = lambda v: T("un", v.node, v.mod, opname="Not", x=v)
            if isc(t_) and isc(o_):
                if t_.value == o_.value:
                    c = t_
                    break
                c, pol = c.cond, (pol if t_.value else not pol)
                continue
            if isc(o_):
                c = T("bool", c.node, c.mod, opname="or", vals=[nt(c.cond), t_]) if o_.value else T("bool", c.node, c.mod, opname="and", vals=[c.cond, t_])
                continue
            if isc(t_):
                c = T("bool", c.node, c.mod, opname="or", vals=[c.cond, o_]) if t_.value else T("bool", c.node, c.mod, opname="and", vals=[nt(c.cond), o_])
                continue
            c = T("bool", c.node, c.mod, opname="or", vals=[T("bool", c.node, c.mod, opname="and", vals=[c.cond, t_]), T("bool", c.node, c.mod, opname="and", vals=[nt(c.cond), o_])])
            continue
        if c.op == "call" and c.fn.op == "ref" and c.fn.ref.qual == "builtins.bool" and len(c.args) == 1 and not c.kw:
            c = c.args[0]
            continue
        if c.op == "cmp":
            o, l, r = c.opname, c.l, c.r
            # truthiness of a sequence written with len()
            if _is_len(l) and ((o == "Eq" and _int(r, 0)) or (o == "Lt" and _int(r, 1)) or (o == "LtE" and _int(r, 0))):
                c, pol = l.args[0], not pol
                continue
            if _is_len(l) and ((o == "NotEq" and _int(r, 0)) or (o == "Gt" and _int(r, 0)) or (o == "GtE" and _int(r, 1))):
                c = l.args[0]
                continue
            if _is_len(r) and ((o == "Eq" and _int(l, 0)) or (o == "Gt" and _int(l, 1)) or (o == "GtE" and _int(l, 0))):
                c, pol = r.args[0], not pol
                continue
            if _is_len(r) and ((o == "NotEq" and _int(l, 0)) or (o == "Lt" and _int(l, 0)) or (o == "LtE" and _int(l, 1))):
                c = r.args[0]
                continue
            if o in ("NotEq", "IsNot", "NotIn"):
                c, pol = T("cmp", c.node, c.mod, opname=NEG[o], l=l, r=r), not pol
                continue
            if o == "Gt":  # a > b  ==  b < a
                c = T("cmp", c.node, c.mod, opname="Lt", l=r, r=l)
                continue
            if o == "GtE":  # a >= b  ==  not (a < b)
                c, pol = T("cmp", c.node, c.mod, opname="Lt", l=l, r=r), not pol
                continue
            if o == "LtE":  # a <= b  ==  not (b < a)
                c, pol = T("cmp", c.node, c.mod, opname="Lt", l=r, r=l), not pol
                continue
        break
    return c, pol


def pos_form(c, neg=False):
    """negation normal form with negations folded into the comparison operators: `not (a is None or a >= 0)` becomes
    `a is not None and a < 0`; truthiness atoms keep an explicit `not`"""
    if c.op == "seq":
        return pos_form(c.value, neg)
    if c.op == "un" and c.opname == "Not":
        return pos_form(c.x, not neg)
    if c.op == "bool":
        opn = c.opname
        if neg:
            opn = "or" if opn == "and" else "and"
        return T("bool", c.node, c.mod, opname=opn, vals=[pos_form(v, neg) for v in c.vals])
    if c.op == "cmp" and neg and c.opname in NEG:
        return T("cmp", c.node, c.mod, opname=NEG[c.opname], l=c.l, r=c.r)
    if neg:
        return T("un", c.node, c.mod, opname="Not", x=c)
    return c


def split_fact(c, pol):
    """facts implied by `c` having truth value `pol`: conjunction true / disjunction false split into members"""
    a, p = atom(c)
    p = p if pol else not p
    if a.op == "bool":
        if a.opname == "and" and p:
            out = []
            for v in a.vals:
                out.extend(split_fact(v, True))
            return out
        if a.opname == "or" and not p:
            out = []
            for v in a.vals:
                out.extend(split_fact(v, False))
            return out
    return [(a, p)]


class Case:
    __slots__ = ("facts", "leaf", "effects")

    def __init__(self, facts, leaf, effects):
        self.facts, self.leaf, self.effects = facts, leaf, effects

    def pol(self, pred):
        """polarity of the first fact whose atom satisfies pred (None when the path does not decide it)"""
        for a, p in self.facts:
            if pred(a):
                return p
        return None

    def __repr__(self):
        return "Case(" + ", ".join(("" if p else "not ") + str(a)[:50] for a, p in self.facts) + " => " + str(self.leaf)[:80] + ")"


def cases(t, limit=256):
    """every path of an if/seq tree: Case(facts, leaf, effects); raising paths have a leaf of op 'raise'"""
    out = []

    def rec(t, facts, effs):
        if len(out) >= limit:
            return
        if t is None:
            out.append(Case(facts, const(None), effs))
        elif t.op == "if":
            rec(t.then, facts + split_fact(t.cond, True), effs)
            rec(t.other, facts + split_fact(t.cond, False), effs)
        elif t.op == "seq":
            rec(t.value, facts, effs + list(t.effects))
        else:
            out.append(Case(facts, t, effs))

    rec(t, [], [])
    return out


# ------------------------------------------------------------------------------------------------ rebuild
def rebuild(t, f):
    """new term whose children are f(child); returns t itself when nothing changed"""
    o = t.op
    g = t.f
    ch = children(t)
    if not ch:
        return t
    new = [f(c) for c in ch]
    if all(a is b for a, b in zip(ch, new)):
        return t
    it = iter(new)
    n = {}
    if o == "call":
        n["fn"] = next(it)
        n["args"] = [next(it) for _ in g["args"]]
        n["kw"] = {k: next(it) for k in g["kw"]}
        n["dstar"] = [next(it) for _ in g.get("dstar", [])]
        n["ctx"] = g.get("ctx")
    elif o == "partial":
        n["fn"] = next(it)
        n["args"] = [next(it) for _ in g["args"]]
        n["kw"] = {k: next(it) for k in g["kw"]}
    elif o in ("bin", "cmp"):
        n = dict(g)
        n["l"], n["r"] = next(it), next(it)
    elif o == "un":
        n = dict(g)
        n["x"] = next(it)
    elif o == "bool":
        n = dict(g)
        n["vals"] = list(it)
    elif o == "attr":
        n = dict(g)
        n["obj"] = next(it)
    elif o == "sub":
        n["obj"], n["idx"] = next(it), next(it)
        ob, ix = n["obj"], n["idx"]
        # (a, b)[0] -> a   (a helper returning a tuple that the caller unpacks)
        if ob.op in ("tuple", "list") and ix.op == "const" and type(ix.value) is int and not any(e.op == "star" for e in ob.elts) and -len(ob.elts) <= ix.value < len(ob.elts):
            return ob.elts[ix.value]
    elif o == "slice":
        n["lo"], n["hi"], n["step"] = next(it), next(it), next(it)
    elif o in ("tuple", "list", "set"):
        n["elts"] = list(it)
    elif o == "dict":
        flat = list(it)
        n = dict(g)
        n["items"] = [(flat[2 * i], flat[2 * i + 1]) for i in range(len(g["items"]))]
    elif o == "if":
        n = dict(g)
        n["cond"], n["then"], n["other"] = next(it), next(it), next(it)
    elif o == "loop":
        n = dict(g)
        n["init"], n["next"] = next(it), next(it)
        if g.get("it") is not None:
            n["it"] = next(it)
        if g.get("cond") is not None:
            n["cond"] = next(it)
    elif o == "iterelem":
        n["src"] = next(it)
    elif o in ("star", "dstar", "yield"):
        n["x"] = next(it)
    elif o == "raise":
        n["exc"] = next(it)
    elif o == "store":
        n["obj"], n["idx"], n["val"] = next(it), next(it), next(it)
    elif o == "grow":
        n = dict(g)
        n["obj"], n["val"] = next(it), next(it)
    elif o == "comp":
        n = dict(g)
        n["elt"], n["src"] = next(it), next(it)
        n["conds"] = list(it)
        un = unroll_comp(T(o, t.node, t.mod, **n))
        if un is not None:
            return un
    elif o == "seq":
        n["effects"] = [next(it) for _ in g["effects"]]
        n["value"] = next(it)
    elif o == "setattr":
        n["store"] = next(it)
    elif o == "assert":
        n["cond"] = next(it)
    elif o == "when":
        n = dict(g)
        n["cond"], n["eff"] = next(it), next(it)
    elif o == "arg":
        n = dict(g)
        n["default"] = next(it)
    else:
        return t
    return T(o, t.node, t.mod, **n)


def unroll_comp(c):
    """[E(x) for x in (a, b)] -> [E(a), E(b)]   (a comprehension over a literal tuple/list without filter)"""
    src = c.src
    if src is None or src.op not in ("tuple", "list") or c.conds or c.get("kind") == "DictComp" or any(e.op == "star" for e in src.elts) or len(src.elts) > 8:
        return None
    its = [x for x in _walk_terms(c.elt) if x.op == "iterelem" and x.src is src]
    if len({id(x) for x in its}) > 1:
        return None
    out = []
    for a in src.elts:
        if its:
            target = its[0]
            out.append(tmap(c.elt, lambda x, a=a, target=target: a if x is target else x))
        else:
            out.append(c.elt)
    return T("list", c.node, c.mod, elts=out)


def _walk_terms(t):
    from .terms import walk

    return walk(t)


def _simplify(t):
    """local normal forms that do not depend on the children having changed"""
    if t.op == "comp":
        un = unroll_comp(t)
        if un is not None:
            return un
    if t.op == "sub":
        ob, ix = t.obj, t.idx
        if ob.op in ("tuple", "list") and ix.op == "const" and type(ix.value) is int and not any(e.op == "star" for e in ob.elts) and -len(ob.elts) <= ix.value < len(ob.elts):
            return ob.elts[ix.value]
    return t


def tmap(t, f, memo=None):
    """bottom-up rewrite: f is applied to every rebuilt node (f returns a replacement or the node)"""
    memo = memo if memo is not None else {}

    def rec(x):
        k = id(x)
        if k in memo:
            return memo[k][1]
        memo[k] = (x, x)  # cycle guard
        r = f(_simplify(rebuild(x, rec)))
        memo[k] = (x, r)
        return r

    return rec(t)


def expand(ev, t, keep=(), limit=400, keep_attrs=()):
    """inline (recursively) every call of a repo helper whose qualified name is not in `keep` and that the
    evaluator can inline; kernel vocabulary (the functions a rule talks about) is listed in `keep`."""
    count = [0]
    memo = {}
    active = []  # function nodes whose bodies are being expanded (recursive helpers are not unfolded twice)

    def f(x):
        if x.op == "call" and count[0] < limit:
            fn = x.fn
            q = fn.ref.qual if fn.op == "ref" else None
            if q == "builtins.map" and len(x.args) >= 3 and not x.kw and not any(a.op == "star" for a in x.args):
                # map(F, A, B, ..) == (F(e[0], e[1], ..) for e in zip(A, B, ..))
                F = x.args[0]
                Z = T("call", x.node, x.mod, fn=T("ref", x.node, x.mod, ref=x.fn.ref.__class__("builtins.zip", "ext")) if False else _zip_ref(ev, x), args=list(x.args[1:]), kw={}, dstar=[])
                clo, pre, prekw = ev.as_closure(F)
                el = T("iterelem", x.node, x.mod, src=Z)
                comps = [T("sub", x.node, x.mod, obj=el, idx=T("const", x.node, x.mod, value=i_)) for i_ in range(len(x.args) - 1)]
                if clo is not None and clo.fnode not in active:
                    body = ev.apply(clo, list(pre) + comps, dict(prekw), [])
                    if body is not None and body.op != "unknown":
                        count[0] += 1
                        active.append(clo.fnode)
                        try:
                            elt = tmap(body, f, memo)
                        finally:
                            active.pop()
                        return T("comp", x.node, x.mod, elt=elt, src=Z, conds=[], kind="GeneratorExp", from_map=True)
                if F.op == "ref":
                    return T("comp", x.node, x.mod, elt=T("call", x.node, x.mod, fn=F, args=comps, kw={}, dstar=[]), src=Z, conds=[], kind="GeneratorExp", from_map=True)
            if q in ("builtins.map", "itertools.starmap") and len(x.args) == 2 and not x.kw:
                # map(F, S) == (F(e) for e in S);  starmap(F, S) == (F(*e) for e in S)   for an inlinable F
                F, S = x.args
                if F.op == "ref" and (F.ref.qual in keep or not F.ref.qual.startswith("autograd.")) and q == "builtins.map" and not F.ref.qual.startswith(("operator.", "_operator.")):
                    # a vocabulary / external function mapped over S: (F(e) for e in S) with F kept as a call
                    el = T("iterelem", x.node, x.mod, src=S)
                    return T("comp", x.node, x.mod, elt=T("call", x.node, x.mod, fn=F, args=[el], kw={}, dstar=[]), src=S, conds=[], kind="GeneratorExp", from_map=True)
                clo, pre, prekw = ev.as_closure(F)
                if clo is not None and clo.fnode not in active:
                    el = T("iterelem", x.node, x.mod, src=S)
                    arg = el if q == "builtins.map" else T("star", x.node, x.mod, x=el)
                    body = ev.apply(clo, list(pre) + [arg], dict(prekw), [])
                    if body is not None and body.op != "unknown":
                        count[0] += 1
                        active.append(clo.fnode)
                        try:
                            elt = tmap(body, f, memo)
                        finally:
                            active.pop()
                        return T("comp", x.node, x.mod, elt=elt, src=S, conds=[], kind="GeneratorExp", from_map=True)
            if q is not None and (q in keep or not q.startswith("autograd.")):
                return x
            if fn.op == "attr":
                if fn.name in keep_attrs or not (fn.obj.op == "sym" and fn.obj.get("cls") is not None):
                    return x
            elif fn.op not in ("ref", "closure", "partial", "if"):
                return x
            r = ev.inline(x)
            if r is not None and r.op != "unknown":
                count[0] += 1
                return tmap(r, f, memo)
        return x

    return tmap(t, f, memo)


def _zip_ref(ev, like):
    """a `ref` term for builtins.zip (resolved through the evaluator's repository, as a written `zip` would be)"""
    import ast as _ast

    n_ = _ast.Name(id="zip", ctx=_ast.Load())
    _ast.copy_location(n_, like.node) if like.node is not None else None
    r_ = ev.repo.resolve_expr(like.mod, n_) if like.mod is not None else None
    if r_ is None:
        raise ValueError("builtins.zip not resolvable")
    return T("ref", like.node, like.mod, ref=r_)


def specialise(t, decide):
    """resolve every `if` whose canonical atom is decided by decide(atom) -> True/False/None"""

    def f(x):
        if x.op == "if":
            d = truth(x.cond, decide)
            if d is not None:
                return x.then if d else x.other
        return x

    return tmap(t, f)


def truth(cond, decide):
    """three-valued truth of a condition under an oracle on canonical atoms (and / or / not propagated)"""
    a, p = atom(cond)
    if a.op == "bool":
        vals = [truth(v, decide) for v in a.vals]
        if a.opname == "and":
            r = False if any(v is False for v in vals) else (True if all(v is True for v in vals) else None)
        else:
            r = True if any(v is True for v in vals) else (False if all(v is False for v in vals) else None)
    elif a.op == "const" and type(a.value) in (bool, int, type(None)):
        r = bool(a.value)
    else:
        r = decide(a)
    if r is None:
        return None
    return r if p else (not r)


def graft_effect_guards(ev, t):
    """seq[check(x); ...](value): an expression-statement call to a repo helper whose body raises under a condition
    (a guard function extracted from the caller) is turned into control flow - if(cond ? raise : value) - so that
    rules see the same paths as with the guard written inline"""
    from .terms import _graft

    if t is None:
        return t
    if t.op == "if":
        return T("if", t.node, t.mod, cond=t.cond, then=graft_effect_guards(ev, t.then), other=graft_effect_guards(ev, t.other))
    if t.op != "seq":
        return _hoist_value_guards(ev, t)
    value = graft_effect_guards(ev, t.value)
    keep = []
    for e in reversed(t.effects):
        res = None
        if e.op == "call":
            res = ev._raising_helper(e.node, e) if hasattr(ev, "_raising_helper") else None
        if res is not None:
            if keep:
                value = T("seq", t.node, t.mod, effects=list(reversed(keep)), value=value)
                keep = []
            value = _graft(res, value)
        else:
            keep.append(e)
    if keep:
        value = T("seq", t.node, t.mod, effects=list(reversed(keep)), value=value)
    return value


def _hoist_value_guards(ev, t, budget=6):
    """f(check_and_get(x)): a VALUE-position call to a repo helper whose body raises under a condition and otherwise
    returns a value is the same control flow as the guard written inline before the expression -
    if(cond ? raise : f(value)) - because a raising argument aborts the whole enclosing expression"""
    if budget <= 0 or not hasattr(ev, "_raising_helper"):
        return t
    for c in _walk_terms(t):
        if c.op != "call" or c.fn.op != "ref":
            continue
        res = ev._raising_helper(c.node, c)
        if res is None:
            continue

        def leaves(r):
            if r.op == "if":
                return T("if", r.node, r.mod, cond=r.cond, then=leaves(r.then), other=leaves(r.other))
            if r.op == "seq":
                return T("seq", r.node, r.mod, effects=r.effects, value=leaves(r.value))
            if r.op == "raise":
                return r
            return _hoist_value_guards(ev, tmap(t, lambda x: r if x is c else x), budget - 1)

        return leaves(res)
    return t


def unseq(t):
    """drop seq wrappers everywhere (effects are inspected separately)"""

    def f(x):
        return x.value if x.op == "seq" else x

    return tmap(t, f)


def same_atom(a, b):
    return same(a, b)


def subst(t, pred, repl):
    """t with every sub-term satisfying pred replaced by repl(sub-term)"""
    return tmap(t, lambda x: repl(x) if pred(x) else x)


def as_fold(ev, t, depth=0):
    """(combine, init, source, element) when t is a left fold of `combine` over the elements of `source`:
         functools.reduce(F, S, init)      |  acc = init; for e in S: acc = F(acc, E)   (a loop term)
       with S itself a comprehension without filter fused into (source, element).  `combine` is the callee term F;
       `element` refers to the items of `source` through iterelem terms."""
    if t is None or depth > 4:
        return None
    if t.op == "seq":
        return as_fold(ev, t.value, depth)
    F = init = src = elt = None
    if t.op == "call" and t.fn.op == "ref" and t.fn.ref.qual == "functools.reduce" and len(t.args) == 3 and not t.kw:
        F, S, init = t.args
        src, elt = S, T("iterelem", S.node, S.mod, src=S)
    elif t.op == "loop" and t.get("it") is not None and t.get("cond") is None:
        nx = t.next
        while nx is not None and nx.op == "seq":
            nx = nx.value
        me = lambda x: x.op == "loopvar" and x.name == t.name and x.node is t.node
        if nx is None or nx.op != "call" or len(nx.args) != 2 or nx.kw or nx.dstar or not me(nx.args[0]):
            return None
        if any(me(x) for x in _walk_terms(nx.args[1])) or any(me(x) for x in _walk_terms(nx.fn)):
            return None
        F, init, src, elt = nx.fn, t.init, t.it, nx.args[1]
    else:
        return None
    src, elt = fuse_source(src, elt)
    return F, init, src, elt


def fuse_source(src, elt=None):
    """(source, element) with comprehension sources without filter fused: items of (E(x) for x in S0) are E(x) over S0"""
    if elt is None:
        elt = T("iterelem", src.node, src.mod, src=src)
    for _ in range(3):
        s0 = src
        while s0.op == "seq":
            s0 = s0.value
        if s0.op == "call" and s0.fn.op == "ref" and s0.fn.ref.qual in ("builtins.list", "builtins.tuple", "builtins.iter") and len(s0.args) == 1 and not s0.kw:
            s0 = s0.args[0]
        if s0.op == "comp" and not s0.conds and s0.get("kind") in ("GeneratorExp", "ListComp"):
            outer = src
            elt = subst(elt, lambda x: x.op == "iterelem" and (x.src is outer or x.src is s0), lambda x: s0.elt)
            src = s0.src
            continue
        break
    return src, elt


def _unwrap_seq(t):
    while t.op == "seq":
        t = t.value
    if t.op == "call" and t.fn.op == "ref" and t.fn.ref.qual in ("builtins.tuple", "builtins.list", "builtins.iter") and len(t.args) == 1 and not t.kw:
        return _unwrap_seq(t.args[0])
    return t


def fold_appends(t):
    """xs = [a]; xs.append(b)  is the display [a, b]: an append to a list DISPLAY (a fresh list built on this path) is
    the display with one more element"""

    def f(x):
        if x.op == "grow" and x.get("how") == "append" and x.obj.op == "list" and not any(e.op == "star" for e in x.obj.elts):
            return T("list", x.node, x.mod, elts=list(x.obj.elts) + [x.val])
        return x

    return tmap(t, f)


def norm_seq(t):
    """sequence normal form: one comprehension over the underlying source, in order
         zip(*X)[i]                          ->  (e[i] for e in X)                column of a sequence of tuples
         (E(y) for y in (F(x) for x in X))   ->  (E(F(x)) for x in X)             fused comprehensions (no filter inside)
         zip((A(x) for x in X), (B(x) ...))  ->  ((A(x), B(x)) for x in X)        zip of comprehensions over the same X"""

    def is_zip(x):
        return x.op == "call" and x.fn.op == "ref" and x.fn.ref.qual == "builtins.zip" and not x.kw and not x.get("dstar")

    def f(x):
        if x.op == "sub" and x.idx.op == "const" and type(x.idx.value) is int and x.idx.value >= 0 and is_zip(x.obj) and len(x.obj.args) == 1 and x.obj.args[0].op == "star":
            X = x.obj.args[0].x
            it = T("iterelem", X.node, X.mod, src=X)
            return T("comp", x.node, x.mod, elt=T("sub", x.node, x.mod, obj=it, idx=x.idx), src=X, conds=[], kind="GeneratorExp")
        if x.op == "comp" and x.get("kind") in ("GeneratorExp", "ListComp"):
            s0 = _unwrap_seq(x.src)
            if s0.op == "comp" and not s0.conds and s0.get("kind") in ("GeneratorExp", "ListComp"):
                outer = x.src
                hit = lambda y: y.op == "iterelem" and (y.src is outer or y.src is s0)
                return T("comp", x.node, x.mod, elt=subst(x.elt, hit, lambda y: s0.elt), src=s0.src, conds=[subst(c, hit, lambda y: s0.elt) for c in x.conds], kind=x.kind)
        if is_zip(x) and len(x.args) >= 2 and not any(a.op == "star" for a in x.args):
            cs = [_unwrap_seq(a) for a in x.args]
            if all(c.op == "comp" and not c.conds and c.get("kind") in ("GeneratorExp", "ListComp") for c in cs) and all(c.src is cs[0].src for c in cs):
                return T("comp", x.node, x.mod, elt=T("tuple", x.node, x.mod, elts=[c.elt for c in cs]), src=cs[0].src, conds=[], kind="GeneratorExp")
        return x

    return tmap(t, f)
