"""Property -> armed analyses (DESIGN.md section 4)."""
import os

from . import facts
from .model import AnalysisError
from .report import Ctx, finish
from .world import World

TRUSTED = [
    "CPython semantics of the constructs analysed (closures, generators, contextmanager, dict/zip ordering, threading.local)",
    "the NumPy fact tables under /verif/sa/facts (linearity, local constancy, broadcasting, aliasing, operator table) and the ufunc metadata / signatures of the installed numpy",
    "helper inlining bound (depth 6 quick / 8 thorough); registration idioms outside those FE3 interprets are reported as undecided, never guessed",
    "NumPy itself (indexing, broadcasting, ufunc.at) is trusted",
]

NOT_DECIDED = {
    "C18": "the detection probability (>= 0.99 over the random projections) and the freedom from false rejections at well-scaled points: statements about floating-point magnitudes (EPS, TOL, RTOL against the scale of f) and about the distribution of the random projections",
    "C01": "that the closed form of any rule equals the true derivative (numerical); tie/kink policy values",
    "C02": "numerical equality of custom JVP formulas with J v",
    "C03": "the counting invariant of toposort over unbounded DAG shapes; derivative values",
    "C04": "adjointness of non-elementwise VJP/JVP pairs (reductions, contractions, linalg)",
    "C05": "dtype preservation for reduced precision; shapes produced by non-broadcast rules",
    "C06": "value equality of re-implemented wrappers with NumPy for all argument forms",
    "C07": "numerical correctness of second derivatives, Hessian symmetry",
    "C08": "the nested-derivative values",
    "C09": "that each non-holomorphic rule equals conj(J_R^T conj g) numerically",
    "C10": "NumPy-level aliasing not in the alias fact table",
    "C11": "NumPy's indexing semantics themselves",
    "C12": "numerical leaf values; behaviour on empty containers",
    "C13": "commutativity, associativity, distributivity, positive-definiteness, basis orthonormality: numeric identities over runtime values",
    "C14": "equality of the returned plain values with NumPy's",
    "C15": "that every unguarded option of every ruled primitive is handled correctly",
    "C16": "the contraction identities (tensordot axes in hessian/tensor products, ggnvp) and all values",
    "C17": "routing of values at mixed trace levels (dynamic)",
    "C19": "CPython generator/contextmanager semantics (trusted); warnings filters are user state",
    "C20": "data races inside NumPy on shared arrays (outside 'unrelated data')",
}


def _analyses():
    from .analyses import a1_tables as a1
    from .analyses import a2_binding as a2
    from .analyses import kernel_checker as kck
    from .analyses import a3_shape as a3
    from .analyses import a3_reduce
    from .analyses import a16_perm
    from .analyses import a17_labels
    from .analyses import a4_kind as a4
    from .analyses import a4_dtype
    from .analyses import a4_parity
    from .analyses import a5_factor, a5_linear, a7_axis, a7_order, a8_taint
    from .analyses import kernel_api as ka
    from .analyses import kernel_core as kc
    from .analyses import kernel_trace as kt
    from .analyses import kernel_more as km

    vjp_axis = lambda c, w: a7_axis.hazards(c, w, modes=("vjp",))
    jvp_axis = lambda c, w: a7_axis.hazards(c, w, modes=("jvp",))
    vjp_reduce = lambda c, w: a3_reduce.reductions(c, w, modes=("vjp",))
    jvp_reduce = lambda c, w: a3_reduce.reductions(c, w, modes=("jvp",))
    vjp_fold = lambda c, w: a3_reduce.axis_loops_fold(c, w, modes=("vjp",))
    jvp_fold = lambda c, w: a3_reduce.axis_loops_fold(c, w, modes=("jvp",))
    all_fold = lambda c, w: a3_reduce.axis_loops_fold(c, w, modes=("vjp", "jvp"))
    vjp_rank = lambda c, w: a3.rank_alignment(c, w, modes=("vjp",))
    jvp_rank = lambda c, w: a3.rank_alignment(c, w, modes=("jvp",))
    vjp_batch = lambda c, w: a3_reduce.stacked_batches(c, w, modes=("vjp",))
    jvp_batch = lambda c, w: a3_reduce.stacked_batches(c, w, modes=("jvp",))
    vjp_none = lambda c, w: a7_axis.none_axis(c, w, modes=("vjp",))
    jvp_none = lambda c, w: a7_axis.none_axis(c, w, modes=("jvp",))
    vjp_alias = lambda c, w: a5_factor.alias_agree(c, w, modes=("vjp",))
    jvp_alias = lambda c, w: a5_factor.alias_agree(c, w, modes=("jvp",))
    vjp_drop = lambda c, w: a2.dropped_options(c, w, modes=("vjp",))
    jvp_drop = lambda c, w: a2.dropped_options(c, w, modes=("jvp",))
    vjp_ignored = lambda c, w: a2.ignored_options(c, w, modes=("vjp",))
    jvp_ignored = lambda c, w: a2.ignored_options(c, w, modes=("jvp",))
    vjp_order = lambda c, w: a7_order.layout_options(c, w, modes=("vjp",))
    jvp_order = lambda c, w: a7_order.layout_options(c, w, modes=("jvp",))
    thread = lambda c, w: kt.global_effects(c, w, thread=True)
    return {
        "C01": (
            [a3.vjp, a3.helpers, a3.einsum_sublist_target, vjp_reduce, vjp_batch, vjp_rank, vjp_fold, a3.restored_rank, km.squeeze_axes, a16_perm.permutations_rule, a16_perm.norm_rolls, a17_labels.contraction_adjoints, vjp_axis, vjp_none, vjp_order, a2.catchall, a2.forwarded_defaults, vjp_drop, vjp_ignored, a2.variadic, a2.argnums_rules, a2.positional_selection, a1.arity, ka.option_domains, ka.option_dispatch_distinct, a5_factor.agree, vjp_alias, a5_linear.closures_linear, a5_linear.linear_args_unread, ka.arraybox_table, kc.inplace_sites],
            "Reverse-mode exactness is numerical; decided here are the configuration-dependent plumbing clauses every exact rule needs: "
            "broadcast discipline of VJPs (A3.vjp), batch members of stacked-matrix functions kept apart (A3.batch), shapes paired from the right or under an established equal rank (A3.rank), per-axis quantities combined over all given axes (A3.fold), the cotangent of rank-changing functions (cumsum of a 0-d operand, axis=None of cumsum / repeat / sort / partition, the flattened arguments of outer, a vector operand of triu / tril, the diagonal of a non-square matrix) brought to the operand's shape (A3.restore), negative-axis hazards (A7), axis=None of the flattening functions never replaced by an explicit axis (A7.none), layout-relative `order` values never forwarded to the cotangent (A7.order), keyword/positional binding behind catch-alls (A2.catchall), equal names and defaults where (*args, **kwargs) are forwarded to another NumPy function (A2.fwd), no option handed on incompletely (A2.drop) or accepted and never read (A2.ignored), "
            "variadic offsets (A2.variadic), whole-argnums rules map element-wise (A2.argnums), slots of variadic primitives addressed by position, never by operand identity (A2.position), arity (A1.arity), closed option domains (A6.enum), VJP/JVP factor agreement of elementwise rules (A5), equal rules for two names of one NumPy function (A5.alias), linearity of every rule closure in its cotangent (A5.lin: a VJP is a linear map; helper primitives it calls must be known to be linear in that operand) "
            "and the operator/method call forms (A14); no rule writes in place to its cotangent, its arguments or the answer (A9.inplace: every other rule that reads the same array would see the changed values). Each is a necessary condition: breaking one makes some call configuration silently wrong.",
        ),
        "C02": (
            [a1.lin, a3.jvp, a3.helpers, jvp_reduce, jvp_batch, jvp_rank, jvp_fold, a16_perm.norm_rolls, ka.sibling_guards, jvp_axis, jvp_none, jvp_order, a2.catchall, a2.forwarded_defaults, jvp_drop, jvp_ignored, a2.positional_selection, a1.arity, kc.zero_paths, a5_factor.agree, jvp_alias, a5_linear.closures_linear, kc.inplace_sites],
            "Forward-mode: 'same'/def_linear only on linear (function, argument) pairs (A1.lin: exactly when the primitive applied to the tangent IS the JVP), "
            "output-shaped tangents of broadcasting JVPs (A3.jvp), batch members of stacked-matrix functions kept apart (A3.batch), per-axis quantities combined over all given axes (A3.fold), guard agreement with the VJP twin (A6.sibling), axis hazards (A7, A7.none), layout-relative `order` values (A7.order) and binding (A2; slots of variadic primitives addressed by position, A2.position) of JVP makers, "
            "(value, tangent) order and zero tangents of the right space (A13.zero/A2.tuple), VJP/JVP factor agreement of elementwise rules (A5), equal rules for two names of one NumPy function (A5.alias), linearity of every rule in its tangent (A5.lin); no JVP rule writes in place to the tangent, the arguments or the answer it is given (A9.inplace: the tangent stored on the parent node is read again by every later consumer).",
        ),
        "C03": (
            [kc.backward_pass, km.toposort, kc.dispatch, kt.wrapper, kc.raise_discipline, ka.arraybox_table, kc.ownership, kc.owned_flags, km.container_vspaces, kc.inplace_sites, a2.argnums_rules, a5_linear.linear_args_unread],
            "Chain rule over arbitrary graphs: path property of one backward_pass iteration (node.vjp exactly once, one add_outgrads per parent edge keyed by that parent, "
            "accumulating into the current entry), the accumulation itself (add_outgrads ownership typestate A9.proto; container spaces delegate _add/_mut_add to the same-named child operation and keep the result, A14.vspace), alignment of parents/argnums/rules in the wrapper and in all dispatch branches (A13.align), node constructor slots (A2.slot), whole-argnums rules pair each (co)tangent with its own argnum when constants are mixed in between traced arguments (A2.argnums); a cotangent fans out to several rules unchanged because no rule writes to borrowed memory (A9.inplace); the reverse rules of the VSpace arithmetic that higher-order derivatives run through (add, inner_prod, scalar_mul, ...) and of every other function declared linear in an argument never read that argument's value (A5.selfread: a bilinear rule attached to the wrong slot).",
        ),
        "C04": (
            [a5_factor.agree, a5_linear.closures_linear, a1.lin, a3.vjp, a3.jvp, a17_labels.contraction_adjoints, a2.dropped_options, a2.forwarded_defaults, a5_factor.mask_agree, a5_linear.linear_args_unread],
            "Adjointness: equal normal forms of the VJP and JVP factors of every elementwise primitive with both rules (a diagonal operator is self-adjoint, so equality of the "
            "factors IS adjointness for all inputs); linearity in g of every rule closure (two-point domain over linear_in facts); 'same' entries only on linear pairs; the two rules of an argument select on the primal values with the same predicates on the same operands (A5.mask); both rules of a primitive hand its options on to NumPy completely and to functions with the same defaults (A2.drop, A2.fwd: a rule that silently runs with another option value than its twin is not its adjoint); the VJP of an argument declared linear in the JVP table reads only that argument's metadata (A5.selfread).",
        ),
        "C05": (
            [a3.vjp, a3.helpers, a3.einsum_sublist_target, vjp_reduce, vjp_rank, a3.restored_rank, km.squeeze_axes, a4.match, kc.zero_paths, a1.types, a2.layout, a4_dtype.dtype_comparisons, a4_dtype.cotangent_template, vjp_axis],
            "A gradient lives in its argument's space: shape support under broadcasting (A3.vjp), shapes of two arrays paired entry by entry only under an established equal rank (A3.rank), the result brought to the operand's shape on every path where the function's result does not keep the operand's rank (A3.restore: cumsum / sort / partition / repeat, outer, triu / tril, diag), no axis arithmetic that changes meaning for a negative axis (A7: such a slip cuts the cotangent along the wrong axis), real/complex kind for every kind assignment of the arguments (A4.match, exhaustive 2^n), "
            "kind decisions never made by dtype == <Python scalar type> (A4.dtypecmp), the shape/dtype template of a rebuilt cotangent taken from the differentiated argument (A4.template), zeros of the argument's / output's space on independent paths (A13.zero), one Box and one VSpace per differentiable type (A1.types), container layout (A2.layout).",
        ),
        "C06": (
            [kt.trace_fn, kt.wrapper, kt.notrace_wrapper, kt.find_top, kt.new_trace, km.wrap_namespace, ka.arraybox_table, a1.methods, ka.operators, ka.wrapper_signatures, ka.option_packs, ka.container_boxes, ka.type_queries, ka.traced_paths, km.axis_normalisation_consistency, kc.inplace_sites],
            "Value transparency: trace() returns the unboxed value; the wrapper calls the raw function unchanged on plain inputs and unboxes exactly one level; ArrayBox's "
            "operator/method/property table follows the Python data model (A14); operators return primal/aux untouched (A15); re-implemented wrappers keep NumPy's optional "
            "parameter names, positions and defaults (A6.wrapsig) and apply a forwarded option pack exactly once, never per nested element (A6.optpack); container boxes answer structure queries (len, iteration order, membership) exactly as the raw container does (A14.containers); the isinstance / type replacements ask the builtin about the fully unboxed value (A14.typeq); no re-implemented wrapper branches on whether an operand is traced (A6.tracedpath); no in-place write to a parameter (A9.inplace).",
        ),
        "C07": (
            [a8_taint.traceable, a1.helpers, kc.closure_reuse, a5_factor.agree, a5_linear.closures_linear, all_fold, kt.trace_fn, kt.wrapper, kt.notrace_wrapper, kt.find_top, kt.new_trace],
            "Closure under differentiation: no raw numpy call on a possibly traced operand inside a non-primitive rule body (A8), every helper primitive used at backward time "
            "has its own VJP and VSpace arithmetic has both rules (A1.helpers), backward closures are re-usable (A10), no rule selects on the raw value of its (co)tangent unless the shortcut is disabled for traced (co)tangents (A5.lin/A5.cut); the rules that the backward pass of var / std / norm re-enters (mean, sum, ...) combine per-axis quantities over all given axes (A3.fold).",
        ),
        "C08": (
            [kt.trace_fn, kt.wrapper, kt.find_top, kt.new_trace, ka.operators, km.products, kc.node_slots, ka.arraybox_table, a5_linear.cotangent_selections],
            "No perturbation confusion: the three mechanisms of tracer.py on all paths - inner traces get strictly larger ids (A12.bal), only top-trace boxes are unboxed and the "
            "list resets on strictly greater / appends on equal (A12.top), dependence by id equality, re-entry of the wrapper for lower levels, answer boxed with the arguments' trace (A13.unbox); the node constructors hand the answer and the arguments to the rule exactly as the wrapper passed them - still boxed for every enclosing trace (A2.slot: a rule evaluated on unboxed values detaches the inner derivative from all outer levels); every ArrayBox operator hands BOTH operands to the NumPy function the data model names, whatever their values (A14: a shortcut chosen by the value of an operand that is traced at another level drops that level's dependence); no derivative rule chooses its code path by the raw value of its (co)tangent (A5.cut: the (co)tangent of an inner differentiation is a box of the outer one).",
        ),
        "C09": (
            [a4.vspace, a4.match, a4.match_jvp, a4.modulus, a5_factor.agree, ka.operators, a4_dtype.dtype_comparisons, a4_parity.conj_parity, a4_parity.holomorphic_factors, ka.option_dispatch_distinct],
            "Complex convention: ComplexArrayVSpace overrides (conjugating covector, real inner product, size 2n, two basis vectors per entry), kind plumbing of VJPs/JVPs for every "
            "real/complex assignment (A4), conjugation placement in modulus-family rules (A4.modulus), conjugation parity of every rule in its (co)tangent (A4.parity: complex-linear in g except for conj itself), no |.| / Re / Im / arg / conj of an argument inside the rule of a holomorphic function (A4.holo), no real/complex decision by comparing a dtype with the Python type `complex` (A4.dtypecmp: true for complex128 only), VJP/JVP factor agreement (holomorphic ufuncs: no conjugate in either table), holomorphic_grad = grad(real o f); the real-FFT rules scale differently for every normalisation mode NumPy distinguishes (A6.distinct: no two of backward / ortho / forward select the same code).",
        ),
        "C10": (
            [kc.ownership, kc.owned_flags, kc.purity, kc.inplace_sites, kc.closure_reuse, kc.backward_pass, km.container_vspaces],
            "Memory ownership: typestate proof of add_outgrads over all of its paths (A9.proto), purity of VSpace._add/_scalar_mul/_covector/_inner_prod (A9.pure), every in-place "
            "site writes memory allocated by the same function (A9.inplace, decided by def-use, not whitelisted), closures re-usable (A10), the user's cotangent enters as (g, False).",
        ),
        "C11": (
            [kc.ownership, kc.owned_flags, _a9_scatter, _a2_index_pairing, km.container_vspaces, a1.types, a1.lin],
            "Indexing gradients: the sparse branches of add_outgrads (every order of k sparse and m dense contributions reduces to its transitions), ufunc.at scatter so repeated "
            "indices accumulate (A9.scatter), __getitem__/untake pairing on the same index and the argument's space (A2.repo), both sparse object types registered (A1.types), 'same' JVPs (A1.lin).",
        ),
        "C12": (
            [a2.layout, a2.variadic, a2.argnums_rules, _dict_keys, ka.container_boxes, km.container_vspaces, _container_spaces, _flatten_order, a7_order.layout_constants, _a2_index_pairing],
            "Containers: offset arithmetic of sequence_extend / make_sequence (A2.layout, A2.variadic, A2.argnums), container indexing paired with its scatter on the same index on every path (A2.repo), content accessors of SequenceBox/DictBox go through the primitive (A14.containers), "
            "every registered container space resolves its abstract members, flatten destructures make_vjp as (unflatten, flat) and visits dict keys in sorted order; no ravel/reshape/flatten call in the library asks for a layout-relative element order (A7.order, call-site clause).",
        ),
        "C13": (
            [a1.types, _vspace_members, a4.vspace, km.container_vspaces, km.layout_independence, kc.purity, kc.ownership, kc.owned_flags],
            "Only the non-numeric clauses: registry agreement (A1.types), every registered space resolves zeros/ones/standard_basis/randn/_inner_prod to a concrete body and __eq__ "
            "compares type and structure fields, ComplexArrayVSpace overrides (A4.vspace), purity and mut_add(None, x) freshness (A9.pure).",
        ),
        "C14": (
            [kc.zero_paths, kc.closure_reuse, a1.nograd, a1.sym, a1.none_rules, a1.methods, ka.arraybox_table, kt.wrapper, kt.notrace_wrapper, kt.trace_fn, a3.vjp_locally_constant, kc.programmatic_registrations, a7_axis.zero_shapes, kc.purity, a5_linear.cotangent_selections],
            "Exact zeros: independent outputs give zeros of the right space and never None (A13.zero); everything declared non-differentiable is locally constant (A1.nograd/none/methods, "
            "facts about NumPy) for both node types (A1.sym); comparisons map to untraced functions, __bool__/shape/len read the raw value (A14); the notrace branch returns plain values; a written-out rule for a locally constant argument has that argument's shape support (A3.vjp); a zero that a rule builds itself does not get its shape from axis arithmetic that changes meaning for a negative axis (A7.zero); the zeros / ones / basis vectors of a space are built in the space's own dtype, never promoted with a fixed type (A9.pure precision clause: a float32 argument gets a float32 zero); no rule has a separate code path for a zero (co)tangent - exactly the path an independent output takes and a random-cotangent test never does - other than the term-skipping form whose two paths return the same expression (A5.cut).",
        ),
        "C15": (
            [kc.raise_discipline, ka.guard_dominance, ka.option_domains, ka.sibling_guards, ka.raw_calls_in_wrappers, ka.arraybox_table, ka.operators, a1.nograd, a1.none_rules, _namespace_classes, km.wrap_namespace, km.guard_functions, a16_perm.norm_support, a16_perm.permutations_rule, a2.ignored_options, ka.rank_guards],
            "Loud failure: handlers on the rule-lookup/boxing path end in raise and lookups index (A6.raise), guards cannot be bypassed (A6.dom), rank guards of the flattening functions read the argument, not the answer (A6.guardarg), closed option domains covered (A6.enum), no rule accepts an option of its primitive by name (or in **kwargs) and then never reads it (A2.ignored: an unsupported option has to be rejected, not swallowed), unsupported (rank, axis, ord) configurations of linalg.norm rejected on the whole finite domain (A6.support), every axis configuration of the axis-permuting primitives and of diagonal either returns the argument's layout or raises (A16, exhaustive over ranks 1..4), "
            "guard agreement VJP<->JVP (A6.sibling), raw results re-traced (A6.rawcall), no __setitem__/in-place dunders and output checks of grad/value_and_grad/elementwise_grad (A6.ops), "
            "the only declarative ways to drop dependence are locally constant (A1.nograd/none), namespace classification of every exported callable.",
        ),
        "C16": (
            [ka.operators, km.products, kc.zero_paths],
            "Operator wiring (A15, A2.tuple, A6.ops): unary_to_nary select/substitute agreement for int/tuple/list argnums and kwargs pass-through, value_and_grad/grad_and_aux return "
            "primal/aux untouched, jacobian = output shape + input shape over the output basis, deriv element [1], holomorphic_grad, hessian, make_hvp, checkpoint, grad_named.",
        ),
        "C17": (
            [kc.dispatch, kc.raise_discipline, kc.notrace_callers, kc.zero_paths, kt.wrapper, ka.operators, a2.argnums_rules, kc.programmatic_registrations],
            "Extension contract: the three defvjp branches are specialisations of one mapping (A13.align), missing rules raise (A6.raise) and no kernel function can switch the lookup off by declaring a primitive non-differentiable at run time (A6.notrace), None -> zeros of the right argument (A13.zero), "
            "registration slots and wrapper hand-over (A2.slot), whole-argnums rules map element-wise (A2.argnums), argnums= honoured (also by the adapters that register rules themselves: makers and argnums= of equal length by construction), 'same'/def_linear substitute at argnum, checkpoint wiring (A15).",
        ),
        "C18": (
            [kck.checker, kck.rng_independence, kck.complex_probes],
            "Gradient checker, structural clauses only: check_grads reaches the comparison of each requested mode at each requested order and recurses on the derivative closure of the same mode (A18.modes); "
            "check_vjp asserts the adjoint identity between the reverse-mode rule and the numerical JVP on one pair of random vectors, check_jvp / check_equivalent compare element [1] of the forward-mode rule with the numerical JVP on the same direction and assert equal spaces (A18.compare); "
            "the numerical JVP is a symmetric difference with matching scale (A18.numjvp); scalar_close uses small positive tolerances (A18.tol); the random probes are successive draws of one running stream - nothing under autograd/ seeds or restores a generator state (A18.rng); the probe of the complex array space draws real and imaginary part independently (A18.probe).",
        ),
        "C19": (
            [kt.global_effects, kt.trace_id_uses, kt.new_trace, kc.closure_reuse, kc.backward_pass, kc.zero_paths, kc.inplace_sites],
            "History independence: the differentiation path writes exactly one piece of process-global state (A11), which is observed only through order/equality comparisons of ids of "
            "live boxes and updated only by balanced +-1 (A12.cmp/bal): results are invariant under any shift of ids, so a leaked increment after an exception cannot change them; closures re-usable (A10); no nested function that escapes its factory writes state captured from the factory's scope (A11.state, captured-state clause); no function writes into an object it was handed (graph nodes, boxes, arguments - A9.inplace: what a call leaves behind on objects that outlive it, e.g. a counter on the nodes of a retained graph, is read by the next call and is wrong after a call that raised half-way).",
        ),
        "C20": (
            [thread, kt.new_trace, kt.trace_id_uses],
            "Thread confinement (A11.thread): every global written on the differentiation path lives in a threading.local; with per-thread ids the C19 argument applies thread by thread.",
        ),
    }


# ----- small property-specific rules that reuse the engine -------------------------------------------------
def _a9_scatter(ctx, world):
    """decided on the evaluated terms of untake / its mut_add closure (no statement shapes)"""
    from .analyses.common import loc_of, resolve_callee
    from .kfun import eval_function, is_call_to
    from .terms import T, walk
    from .tutil import atom, cases, expand, unseq

    ctx.describe("A9.scatter", "inside a SparseObject's mut_add closure accumulation at an index uses ufunc.at (buffered A[idx] += x loses repeated indices); the index that reaches the scatter is the forward index itself or its top-level list -> int64 array normalisation; untake returns SparseObject(vs, mut_add) with the space it was given")
    ev = world.ev
    r, sy, m, fn, sc = eval_function(world, "autograd.numpy.numpy_vjps", "untake")
    loc = loc_of(m, fn)
    x, idx, vs = sy["#0"], sy["#1"], sy["#2"]
    r = unseq(expand(ev, r, {"autograd.core.SparseObject"})) if r is not None else None
    so = [c.leaf for c in cases(r)] if r is not None else []
    ok_res = bool(so) and all(is_call_to(t, "autograd.core.SparseObject") and len(t.args) == 2 and not t.kw and t.args[0] is vs for t in so)
    if ok_res:
        ctx.ob("A9.scatter", "untake returns SparseObject(vs, mut_add)", True, loc)
    else:
        ctx.fail("A9.scatter", "untake:result", "autograd.numpy.numpy_vjps.untake:result", loc, "untake does not return SparseObject(vs, mut_add) with the space it was given", "indexing gradients")
        return

    def index_ok(t, depth=0):
        """idx  |  array(idx, dtype=...) / asarray(idx, dtype=...)  |  a conditional between those"""
        if t is idx:
            return True
        if t.op == "if" and depth < 4:
            return index_ok(t.then, depth + 1) and index_ok(t.other, depth + 1)
        if t.op == "call":
            rf, pre = resolve_callee(ev, t)
            if rf is not None and not pre and rf.qual.rsplit(".", 1)[-1] in ("array", "asarray") and rf.qual.startswith(("numpy.", "autograd.numpy")) and t.args and t.args[0] is idx:
                return "dtype" in t.kw or len(t.args) > 1
        return False

    ok_at, why, bad_index = True, "", None
    for t in so:
        clo, pre, prekw = ev.as_closure(t.args[1])
        if clo is None or pre or prekw:
            ok_at, why = False, "the accumulator is not an inlinable closure"
            continue
        A = T("sym", name="A", role="param")
        body = expand(ev, ev.apply(clo, [A], {}, []), ())
        effs = []
        b = body
        while b is not None and b.op == "seq":
            effs += list(b.effects)
            b = b.value
        is_at = lambda y: y.op == "call" and ((y.fn.op == "ref" and y.fn.ref.qual == "numpy.add.at") or (y.fn.op == "attr" and y.fn.name == "at" and y.fn.obj.op == "ref" and y.fn.obj.ref.qual == "numpy.add"))
        ats = [y for e in effs for y in walk(e) if is_at(y)]
        if b is not A:
            ok_at, why = False, f"the accumulator returns `{str(b)[:50]}` instead of the buffer it scattered into (an item store / augmented assignment rebinds or buffers)"
        elif len(ats) != 1 or len(ats[0].args) != 3 or ats[0].kw:
            ok_at, why = False, "the accumulator does not scatter with exactly one numpy.add.at(A, idx, x)"
        elif any(y is ats[0] for e in effs if e.op in ("when", "if") for y in walk(e)):
            cnd = next(e for e in effs if e.op in ("when", "if") and any(y is ats[0] for y in walk(e)))
            ok_at, why = False, f"the scatter runs only under a condition (`{str(cnd.cond)[:60]}`): every contribution has to be added, whatever the index selects"
        else:
            a0, a1, a2 = ats[0].args
            if a0 is not A or a2 is not x:
                ok_at, why = False, "numpy.add.at is not applied to (accumulator, index, contribution)"
            elif not index_ok(a1):
                bad_index = a1
    if ok_at:
        ctx.ob("A9.scatter", "untake: onp.add.at(A, idx, x)", True, loc)
    else:
        ctx.fail("A9.scatter", "untake:scatter", "autograd.numpy.numpy_vjps.untake:scatter", loc, f"untake's accumulator does not scatter with numpy.add.at(A, idx, x): {why}", "an integer-array index with repeated entries, x[[0, 0, 1]]: contributions of repeated positions are lost")
    if bad_index is None:
        ctx.ob("A9.scatter", "untake: the scatter index is the forward index (top-level list -> int64 array only)", True, loc)
    else:
        ctx.fail("A9.scatter", "untake:index", "autograd.numpy.numpy_vjps.untake:index-rewritten", loc, f"untake rewrites the index before scattering: `{str(bad_index)[:70]}` - the backward pass may address other positions than the forward pass read", "an index whose meaning changes under the rewrite (a list of booleans inside a tuple index, nested lists)")
    # container_untake: decided by A14.vspace (km.container_vspaces) on terms; here only that it exists
    world.repo.find_def("autograd.builtins", "container_untake")


def _a2_index_pairing(ctx, world):
    from .analyses.common import construct_of
    from .kfun import is_call_to, strip_seq

    ctx.describe("A2.repo", "__getitem__/untake and container_take/container_untake pairing: each rule passes the SAME index to its partner and the space of the indexed ARGUMENT")
    pairs = {
        "autograd.numpy.numpy_boxes.ArrayBox.__getitem__": ("autograd.numpy.numpy_vjps.untake", True),
        "autograd.numpy.numpy_vjps.untake": (None, False),
        "autograd.builtins.container_take": ("autograd.builtins.container_untake", True),
        "autograd.builtins.container_untake": ("autograd.builtins.container_take", False),
    }
    n = 0
    for e in world.table.entries:
        if e.mode != "vjp" or e.prim_id not in pairs or e.spec != "maker":
            continue
        ir = world.ir(e)
        partner, with_vs = pairs[e.prim_id]
        n += 1
        res = strip_seq(ir.result) if ir and ir.ok else None
        ok = False
        if res is not None:
            if partner is None:
                ok = res.op == "sub" and res.obj.op == "sym" and res.obj.get("role") == "g" and res.idx.op == "arg" and res.idx.index == 1
            elif res.op == "call" and is_call_to(res, partner):
                a = res.args
                ok = len(a) >= 2 and a[0].op == "sym" and a[0].get("role") == "g" and a[1].op == "arg" and a[1].index == 1
                if with_vs:
                    ok = ok and len(a) == 3 and is_call_to(a[2], "autograd.core.vspace") and a[2].args[0].op == "arg" and a[2].args[0].index == 0
        inst = construct_of(e)
        if ok:
            ctx.ob("A2.repo", inst, True, e.loc, sample=str(res)[:100])
        else:
            ctx.fail("A2.repo", inst, inst, e.loc, f"the rule does not hand the cotangent, the same index and the indexed argument's space to its partner (found {str(res)[:100]})", "x[idx] with a non-trivial index on an argument whose shape differs from the cotangent's")
    ctx.floor("A2.repo index pairings", n, 4)


def _dict_keys(ctx, world):
    from .analyses.common import construct_of
    from .kfun import strip_seq

    ctx.describe("A2.dictkeys", "_make_dict(keys, vals): the VJP w.r.t. vals selects the cotangent's entries BY KEY, in the order of `keys` (never by the cotangent dict's own iteration order)")
    n = 0
    for e in world.table.entries:
        if e.prim_id != "autograd.builtins._make_dict" or e.mode != "vjp" or e.spec != "maker":
            continue
        n += 1
        ir = world.ir(e)
        res = strip_seq(ir.result) if ir and ir.ok else None
        ok = False
        c = None
        if res is not None and res.op == "call" and len(res.args) == 1 and res.args[0].op == "comp":
            c = res.args[0]
        elif res is not None and res.op == "call" and res.fn.op == "ref" and res.fn.ref.qual == "autograd.builtins.make_sequence" and len(res.args) == 2 and res.args[1].op == "star" and res.args[1].x.op == "comp":
            c = res.args[1].x  # the traced list constructor written out: make_sequence(list_, *[...])
        if c is not None and not c.conds:
            el = c.elt
            ok = c.src.op == "arg" and c.src.index == 0 and el.op == "sub" and el.obj.op == "sym" and el.obj.get("role") == "g" and el.idx.op == "iterelem" and el.idx.src is c.src
        inst = construct_of(e)
        if ok:
            ctx.ob("A2.dictkeys", inst, True, e.loc, sample=str(res)[:80])
        else:
            ctx.fail("A2.dictkeys", inst, inst, e.loc, f"the rule does not build [g[key] for key in keys] (found {str(res)[:80]})", "a cotangent dict whose insertion order differs from the constructed dict's: leaf cotangents are permuted across keys")
    ctx.floor("A2.dictkeys rules", n, 1)


def _container_spaces(ctx, world):
    import ast

    from .analyses.common import loc_of
    from .regs import class_lookup

    ctx.describe("A1.spaces", "every registered container VSpace resolves _values, _kv_pairs, _map, _subval (and seq_type for sequence spaces) to a concrete member through its MRO")
    n = 0
    for cls, txt, tref, maker, m, site in world.table.vspace_reg:
        cref = world.repo.resolve_expr(m, ast.parse(cls.rsplit(".", 1)[-1], mode="eval").body) if False else None
        mod = world.repo.mods.get(cls.rsplit(".", 1)[0])
        if mod is None:
            continue
        cref = world.repo.resolve(mod, cls.rsplit(".", 1)[-1])
        if cref is None or cref.kind != "repo" or cref.okind != "class":
            continue
        from .regs import class_mro

        mro = [k.qual for k in class_mro(world.repo, cref)]
        if "autograd.builtins.ContainerVSpace" not in mro:
            continue
        need = ["_values", "_kv_pairs", "_map", "_subval"]
        if "autograd.builtins.SequenceVSpace" in mro:
            need.append("seq_type")
        for name in need:
            n += 1
            k, node = class_lookup(world.repo, cref, name)
            inst = f"{cls}.{name}"
            if node is not None:
                ctx.ob("A1.spaces", inst, True, loc_of(m, site))
            else:
                ctx.fail("A1.spaces", inst, inst, loc_of(m, site), f"registered container space {cls} has no member {name}", f"grad w.r.t. a value of type {txt}")
    ctx.floor("A1.spaces members", n, 20)


def _flatten_order(ctx, world):
    import ast

    from .analyses.common import loc_of
    from .model import norm_text

    ctx.describe("A2.flatten", "flatten destructures make_vjp(_flatten)(value) as (unflatten, flat_value); _flatten enumerates dict keys only through sorted(...)")
    from .kfun import eval_function as _evf, is_call_to as _ict
    from .tutil import expand as _exp, unseq as _unseq

    r_, sy_, m, fn, sc_ = _evf(world, "autograd.misc.flatten", "flatten")
    val = sy_["#0"]
    r_ = _unseq(_exp(world.ev, r_, {"autograd.core.make_vjp", "autograd.misc.flatten._flatten"})) if r_ is not None else None
    ok = False
    if r_ is not None and r_.op == "tuple" and len(r_.elts) == 2:
        flat, unfl = r_.elts
        comp_ = lambda t, i: t.op == "sub" and t.idx.op == "const" and t.idx.value == i
        if comp_(flat, 1) and comp_(unfl, 0) and flat.obj is unfl.obj:
            c = flat.obj
            # make_vjp(_flatten)(value)
            ok = c.op == "call" and len(c.args) == 1 and c.args[0] is val and c.fn.op == "call" and len(c.fn.args) >= 1 and c.fn.args[0].op == "ref" and c.fn.args[0].ref.qual == "autograd.misc.flatten._flatten" and (c.fn.fn.op in ("ref", "call"))
    if ok:
        ctx.ob("A2.flatten", "flatten: (unflatten, flat) = make_vjp(_flatten)(value); returns (flat, unflatten)", True, loc_of(m, fn))
    else:
        ctx.fail("A2.flatten", "flatten:tuple", "autograd.misc.flatten.flatten", loc_of(m, fn), "flatten does not take element 0 of make_vjp(_flatten)(value) as unflatten and element 1 as the flat vector", "flatten(value)")
    m, fn = world.repo.find_def("autograd.misc.flatten", "_flatten")
    bad = None
    good = 0
    # _flatten and the same-module helpers it calls (the dict branch may live in a helper)
    scope_fns, todo = [], [fn]
    while todo:
        f_ = todo.pop()
        if any(f_ is g_ for g_ in scope_fns) or len(scope_fns) > 8:
            continue
        scope_fns.append(f_)
        for c_ in ast.walk(f_):
            if isinstance(c_, ast.Call) and isinstance(c_.func, ast.Name):
                rr = world.repo.resolve(m, c_.func.id)
                if rr is not None and rr.kind == "repo" and rr.okind == "def" and rr.mod is m and isinstance(rr.node, ast.FunctionDef):
                    todo.append(rr.node)
    for x in (y for f_ in scope_fns for y in ast.walk(f_)):
        if isinstance(x, (ast.GeneratorExp, ast.ListComp, ast.For)):
            its = [g.iter for g in x.generators] if not isinstance(x, ast.For) else [x.iter]
            for it in its:
                if isinstance(it, ast.Call) and isinstance(it.func, ast.Name) and it.func.id == "sorted":
                    good += 1
                elif isinstance(it, ast.Call) and isinstance(it.func, ast.Attribute) and it.func.attr in ("keys", "values", "items"):
                    bad = it
    if good >= 1 and bad is None:
        ctx.ob("A2.flatten", "_flatten: dict keys enumerated through sorted()", True, loc_of(m, fn))
    else:
        ctx.fail("A2.flatten", "_flatten:order", "autograd.misc.flatten._flatten:order", loc_of(m, bad or fn), "_flatten enumerates dict entries without sorted(): insertion order leaks into the flat vector", "two dicts with equal keys inserted in different orders")


def _vspace_members(ctx, world):
    import ast

    from .analyses.common import loc_of
    from .regs import class_lookup, class_mro

    ctx.describe("A1.members", "every registered VSpace class resolves zeros/ones/standard_basis/randn/_inner_prod to a body that is not the abstract `assert False`; VSpace.__eq__ compares type and __dict__; each space's __init__ stores only structure fields")
    seen = set()
    n = 0
    for cls, txt, tref, maker, m, site in world.table.vspace_reg:
        names = [cls]
        if maker is not None:
            names = [world.repo.resolve_expr(m, c.func).qual for c in ast.walk(maker) if isinstance(c, ast.Call) and world.repo.resolve_expr(m, c.func) is not None and world.repo.resolve_expr(m, c.func).kind == "repo" and world.repo.resolve_expr(m, c.func).okind == "class"]
        for q in names:
            if q in seen or q == "autograd.core.VSpace":
                continue
            seen.add(q)
            mod = world.repo.mods.get(q.rsplit(".", 1)[0])
            cref = world.repo.resolve(mod, q.rsplit(".", 1)[-1]) if mod else None
            if cref is None or cref.kind != "repo":
                continue
            for name in ("zeros", "ones", "standard_basis", "randn", "_inner_prod"):
                n += 1
                k, node = class_lookup(world.repo, cref, name)
                abstract = node is None or (isinstance(node, ast.FunctionDef) and any(isinstance(s, ast.Assert) and isinstance(s.test, ast.Constant) and s.test.value is False for s in node.body))
                inst = f"{q}.{name}"
                if not abstract:
                    ctx.ob("A1.members", inst, True, loc_of(cref.mod, node))
                else:
                    ctx.fail("A1.members", inst, inst, loc_of(cref.mod, cref.node), f"{q} inherits the abstract `assert False` {name}", f"vspace(value).{name}() for a value of type {txt}")
    ctx.floor("A1.members resolved", n, 30)
    # ArrayVSpace.__init__: shape and dtype are those of np.asarray(value), on every path
    ma, fa = world.repo.find_def("autograd.numpy.numpy_vspaces", "ArrayVSpace.__init__")
    # decided on the evaluated constructor: every store into self is `self.<f> = np.asarray(value).<f>` for f in
    # {shape, dtype}, both fields are stored unconditionally, nothing else is stored
    from .kfun import eval_function as _evf0
    from .tutil import expand as _exp0, unseq as _uns0
    from .analyses.common import resolve_callee as _rc0

    r0_, sy0_, m0_, fn0_, sc0_ = _evf0(world, "autograd.numpy.numpy_vspaces", "ArrayVSpace.__init__")
    self0, val0 = sy0_["#0"], sy0_["#1"]
    okp = True
    why = ""
    uncond = set()
    for e0 in sc0_.effects:
        cond = False
        while e0.op == "when":
            cond = True
            e0 = e0.eff
        if e0.op != "setattr":
            continue
        st0 = e0.store
        if st0.obj is not self0:
            continue
        fld = st0.idx.value if st0.idx.op == "const" else None
        v0 = _uns0(_exp0(world.ev, st0.val, ()))
        good = False
        if fld in ("shape", "dtype") and v0.op == "attr" and v0.name == fld and v0.obj.op == "call" and v0.obj.args and v0.obj.args[0] is val0:
            rf0, _p0 = _rc0(world.ev, v0.obj)
            good = rf0 is not None and rf0.qual.rsplit(".", 1)[-1] in ("asarray", "asanyarray", "array")
        if not good:
            okp = False
            why = f"self.{fld} is set to {str(v0)[:50]}"
        elif not cond:
            uncond.add(fld)
    if okp and uncond != {"shape", "dtype"}:
        okp = False
        why = f"only {sorted(uncond)} are stored on every path"
    if okp:
        ctx.ob("A1.members", "ArrayVSpace.__init__: shape/dtype = those of np.asarray(value) on every path; no other field", True, loc_of(ma, fa))
    else:
        ctx.fail("A1.members", "ArrayVSpace.__init__", "autograd.numpy.numpy_vspaces.ArrayVSpace.__init__", loc_of(ma, fa), f"ArrayVSpace.__init__ does not take shape and dtype from np.asarray(value) on every path ({why}): spaces of equal structure compare unequal or values of different dtype share a space", "a NumPy scalar of non-default precision (np.float32(1.0)) or a 0-d array")
    # VSpace.__eq__(self, other) is True exactly when the types are equal AND the structure dicts are equal:
    # the evaluated body is valued under the four valuations of the two comparison atoms
    from .kfun import eval_function as _evf, is_call_to as _ict
    from .tutil import truth as _truth, unseq as _unseq

    r_, sy_, m, fn, sc_ = _evf(world, "autograd.core", "VSpace.__eq__")
    a_, b_ = sy_["#0"], sy_["#1"]
    ty = lambda t, o: _ict(t, "builtins.type") and len(t.args) == 1 and t.args[0] is o
    dct = lambda t, o: t.op == "attr" and t.name == "__dict__" and t.obj is o
    is_t = lambda a: a.op == "cmp" and a.opname in ("Eq", "Is") and ((ty(a.l, a_) and ty(a.r, b_)) or (ty(a.l, b_) and ty(a.r, a_)))
    is_d = lambda a: a.op == "cmp" and a.opname == "Eq" and ((dct(a.l, a_) and dct(a.r, b_)) or (dct(a.l, b_) and dct(a.r, a_)))

    def _bval(t, dec):
        if t is None:
            return None
        if t.op == "if":
            c = _truth(t.cond, dec)
            return None if c is None else _bval(t.then if c else t.other, dec)
        if t.op == "const":
            return bool(t.value) if isinstance(t.value, bool) else None
        return _truth(t, dec)

    ok = r_ is not None
    for tv in (True, False):
        for dv in (True, False):
            got = _bval(_unseq(r_), lambda a, tv=tv, dv=dv: tv if is_t(a) else (dv if is_d(a) else None)) if r_ is not None else None
            ok = ok and got is (tv and dv)
    if ok:
        ctx.ob("A1.members", "VSpace.__eq__ compares type and __dict__", True, loc_of(m, fn))
    else:
        ctx.fail("A1.members", "VSpace.__eq__", "autograd.core.VSpace.__eq__", loc_of(m, fn), "VSpace.__eq__ no longer compares both the type and the structure fields", "spaces of a real and a complex array of the same shape, or a list and a tuple")


    # an override of __eq__ in any space class still has to separate spaces of different types (a list space and a
    # tuple space of the same children, a named-tuple result space and a plain tuple space): with the type-equality atom
    # false its value is False whatever the other comparisons say
    from .analyses.kernel_core import _vspace_classes as _vsc

    for mod_, cls_ in _vsc(world):
        if cls_.name == "VSpace" and mod_.name == "autograd.core":
            continue
        for st_ in cls_.body:
            if isinstance(st_, ast.FunctionDef) and st_.name in ("__eq__", "__ne__"):
                try:
                    r2_, sy2_, m2_, fn2_, sc2_ = _evf(world, mod_.name, f"{cls_.name}.{st_.name}")
                except Exception:
                    r2_ = None
                inst_ = f"{mod_.name}.{cls_.name}.{st_.name}"
                okc = False
                if r2_ is not None:
                    a2_, b2_ = sy2_["#0"], sy2_["#1"]
                    ty2 = lambda t, o: (_ict(t, "builtins.type") and len(t.args) == 1 and t.args[0] is o) or (t.op == "attr" and t.name == "__class__" and t.obj is o)
                    is_t2 = lambda a: a.op == "cmp" and a.opname in ("Eq", "Is") and ((ty2(a.l, a2_) and ty2(a.r, b2_)) or (ty2(a.l, b2_) and ty2(a.r, a2_)))
                    from .tutil import expand as _exp2

                    # (the inherited comparison, reached through super().__eq__(other) / Base.__eq__(self, other), is
                    # false for different types: the base clause above)
                    inh = lambda a: a.op == "call" and a.fn.op == "attr" and a.fn.name == "__eq__" and (_ict(a.fn.obj, "builtins.super") or (a.fn.obj.op == "ref" and a.fn.obj.ref.kind == "repo"))
                    got = _bval(_unseq(_exp2(world.ev, r2_, ())), lambda a: False if (is_t2(a) or inh(a)) else None)
                    okc = got is (False if st_.name == "__eq__" else True)
                if okc:
                    ctx.ob("A1.members", inst_ + " separates spaces of different types", True, loc_of(mod_, st_))
                else:
                    ctx.fail("A1.members", inst_, inst_, loc_of(mod_, st_), f"{cls_.name}.{st_.name} can call two spaces of different types equal: its result is not forced by `type(self) == type(other)`", "vspace([x, y]) == vspace((x, y)): a list and a tuple of the same children")


def _namespace_classes(ctx, world):
    from .analyses.common import locally_constant
    from .model import Wrapped

    ctx.describe("A6.namespace", "every callable exported by autograd.numpy / .linalg / .fft / .random falls in exactly one class: ruled (VJP entry), declared constant (notrace, locally constant by facts), unruled primitive (node construction raises NotImplementedError), or re-implemented composite; no class consumes a boxed positional argument silently")
    vj = world.table.by_prim("vjp")
    nt = world.table.notrace_quals("autograd.core.VJPNode")
    wrapper_mod = world.repo.mod("autograd.numpy.numpy_wrapper")
    counts = {"ruled": 0, "declared-constant": 0, "unruled-primitive": 0, "composite": 0, "wrapper-notrace": 0}
    total = 0
    for ns in ("numpy", "numpy.linalg", "numpy.fft", "numpy.random"):
        for name in world.env.exported_callables(ns):
            total += 1
            q = f"{ns}.{name}"
            if ns == "numpy" and name in wrapper_mod.top and wrapper_mod.top[name][-1][0] in ("def", "assign"):
                counts["composite"] += 1
                continue
            how = world.repo.classify_wrapped(ns, name)
            if how == "notrace":
                counts["wrapper-notrace"] += 1
            elif q in nt:
                ok, why = locally_constant(world, Wrapped(ns, name, "primitive"))
                counts["declared-constant"] += 1
                if not ok:
                    ctx.fail("A6.namespace", q, f"namespace:{q}", wrapper_mod.relpath, f"{q} is exported as untraced but {why}", "any float input")
            elif q in vj:
                counts["ruled"] += 1
            else:
                counts["unruled-primitive"] += 1
    ctx.extra["namespace_classes"] = counts
    ctx.ob("A6.namespace", f"{total} exported callables classified: {counts}", True, wrapper_mod.relpath, sample=str(counts))
    ctx.floor("A6.namespace exported callables", total, 400)


def analyse_quiet(prop, root, tier="quick"):
    """Run one property's rules on a tree without printing or writing evidence; returns
    {'code': 0|1|2, 'violations': [(rule, construct, loc)], 'error': str|None}."""
    try:
        table = _analyses()
        fns, explanation = table[prop]
        world = World(root, tier)
        ctx = Ctx(prop, tier, world.root)
        for fn in fns:
            fn(ctx, world)
        ctx.floor("rule table entries (autograd.numpy*, core, builtins)", sum(1 for e in world.table.entries if world.in_numpy_scope(e)), 330)
        finish(ctx, explanation, TRUSTED, [], quiet=True)
        r = dict(ctx.result)
        r["error"] = None
        return r
    except AnalysisError as e:
        return {"code": 2, "violations": [], "known": [], "error": str(e)}
    except Exception as e:  # a crash of the checker is an analysis error, never a verdict
        import traceback

        return {"code": 2, "violations": [], "known": [], "error": "crash: " + traceback.format_exc()[-400:]}


def run_property(prop, tier, root, replay_key=None, selftest=True):
    table = _analyses()
    if prop not in table:
        raise AnalysisError(f"no check registered for {prop}")
    fns, explanation = table[prop]
    world = World(root, tier)
    ctx = Ctx(prop, tier, world.root)
    for fn in fns:
        fn(ctx, world)
    if tier == "thorough":
        _thorough_extras(ctx, world, prop)
    und = world.table.undecided
    for m, site, reason in und:
        if not m.name.startswith("autograd.scipy"):
            ctx.undecided.append({"rule": "FE3", "instance": f"{m.relpath}:{site.lineno}", "reason": reason})
    ctx.extra["fact_table_digests"] = facts.digests()
    ctx.extra["numpy_version"] = world.env.version
    ctx.extra["rule_table_entries"] = len(world.table.entries)
    ctx.extra["registration_sites"] = world.table.sites
    ctx.extra["not_decided"] = NOT_DECIDED.get(prop, "")
    ctx.floor("rule table entries (autograd.numpy*, core, builtins)", sum(1 for e in world.table.entries if world.in_numpy_scope(e)), 330)
    if tier == "thorough" and selftest and os.path.abspath(root) == "/repo" and replay_key is None:
        from .selftest import run_selftest

        st = run_selftest(prop)
        ctx.extra["selftest"] = st["summary"]
        if st["failed"]:
            raise AnalysisError(f"checker self-test failed for {prop}: {st['failed'][:3]}")
    return finish(ctx, explanation + " NOT decided: " + NOT_DECIDED.get(prop, ""), TRUSTED, world.files(), replay_key=replay_key)


def _thorough_extras(ctx, world, prop):
    """thorough tier: both NumpyVersion branches are in the rule table already (World(tier='thorough')); widen
    advisory scope to autograd.scipy / autograd.misc (NOTES only)."""
    from .analyses import a1_tables as a1

    n = 0
    for e in world.table.entries:
        if not world.in_numpy_scope(e):
            n += 1
    ctx.extra["advisory_scope_entries"] = n
