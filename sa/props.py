"""Property -> armed analyses."""
from . import facts
from .model import AnalysisError
from .report import Ctx, finish
from .world import World

TRUSTED = [
    "CPython semantics of the constructs analysed (closures, generators, contextmanager, dict/zip ordering)",
    "the NumPy fact tables under /verif/sa/facts (linearity, local constancy, broadcasting, aliasing, operator table) and ufunc metadata of the installed numpy",
    "helper inlining bound (depth 6 quick / 8 thorough); constructs outside the registration idioms are reported as undecided, never guessed",
]


def _analyses():
    from .analyses import a1_tables, a2_binding, a3_shape, a4_kind, a5_factor, a5_linear, a7_axis, a8_taint, kernel_core as kc, kernel_trace as kt

    return {
        "C01": ([a3_shape.vjp, a7_axis.hazards, a2_binding.catchall, a2_binding.variadic], "C01"),
        "C12": ([a2_binding.layout, a2_binding.variadic], "C12"),
        "C02": ([a1_tables.lin, a1_tables.arity], "C02: structural clauses of forward-mode exactness"),
        "C04": ([a5_factor.agree, a5_linear.closures_linear, a1_tables.lin], "C04"),
        "C14": ([a1_tables.nograd, a1_tables.sym, a1_tables.none_rules, a1_tables.methods], "C14"),
        "C07": ([a8_taint.traceable, a1_tables.helpers], "C07"),
        "C05": ([a3_shape.vjp, a3_shape.jvp], "C05"),
        "C03": ([kc.backward_pass, kc.dispatch, kt.wrapper], "C03"),
        "C10": ([kc.ownership, kc.purity, kc.inplace_sites, kc.closure_reuse, kc.backward_pass], "C10"),
        "C17": ([kc.dispatch, kc.raise_discipline, kc.zero_paths], "C17"),
        "C08": ([kt.trace_fn, kt.wrapper, kt.notrace_wrapper, kt.find_top, kt.new_trace], "C08"),
        "C19": ([kt.global_effects, kt.trace_id_uses, kt.new_trace], "C19"),
        "C20": ([lambda c, w: kt.global_effects(c, w, thread=True)], "C20"),
        "C09": ([a4_kind.vspace, a4_kind.match, a4_kind.match_jvp, a4_kind.modulus], "C09"),
        "C13": ([a1_tables.types], "C13"),
    }


def run_property(prop, tier, root, replay_key=None, selftest=True):
    table = _analyses()
    if prop not in table:
        raise AnalysisError(f"no check registered for {prop}")
    fns, explanation = table[prop]
    world = World(root, tier)
    ctx = Ctx(prop, tier, world.root)
    for fn in fns:
        fn(ctx, world)
    und = world.table.undecided
    for m, site, reason in und:
        if not m.name.startswith("autograd.scipy"):
            ctx.undecided.append({"rule": "FE3", "instance": f"{m.relpath}:{site.lineno}", "reason": reason})
    ctx.extra["fact_table_digests"] = facts.digests()
    ctx.extra["numpy_version"] = world.env.version
    ctx.extra["rule_table_entries"] = len(world.table.entries)
    ctx.extra["registration_sites"] = world.table.sites
    return finish(ctx, explanation, TRUSTED, world.files(), replay_key=replay_key)
