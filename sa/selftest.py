"""Checker self-test (thorough tier): mutants must be reported, benign variants must stay silent."""


def run_selftest(prop):
    return {"summary": {"mutants": 0, "benign": 0, "note": "catalogue not built yet"}, "failed": []}
